#!/bin/sh
# tools/apply_fix.sh <patch> "<commit message>" "<cargo test args>"
# Applies one fix: patch to /repo, runs the named tests there, commits it as its own commit.
set -e
cd /repo
git apply --check "$1"
git apply "$1"
if ! cargo test --offline $3 2>&1 | tee /tmp/applyfix.log | grep -E "^test result" | grep -v " 0 failed" ; then :; fi
if grep -qE "test result: FAILED|error\[|error: could not compile" /tmp/applyfix.log; then
  echo "TESTS FAILED - reverting"; git checkout -- .; exit 1
fi
git commit -qam "$2"
git log --oneline | head -1
