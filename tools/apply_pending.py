#!/usr/bin/env python3
"""tools/apply_pending.py Cxx "<cargo test args>"  — apply every fix-pending patch of a property to /repo
(one fix: commit each, tests run after each), then mark the finding fixed with the commit hash."""
import json, subprocess, sys, os
pid, testargs = sys.argv[1], sys.argv[2]
p = "/verif/known_findings/%s.json" % pid
d = json.load(open(p))
applied = {}
for f in d["findings"]:
    if f.get("status") != "fix-pending":
        continue
    patch = os.path.join("/verif", f["patch"])
    msg = f["commit_message"]
    if not msg.startswith("fix:"):
        msg = "fix: " + msg
    already = subprocess.run(["git", "-C", "/repo", "apply", "-R", "--check", patch]).returncode == 0
    if already:
        h = applied.get(patch) or subprocess.run(["git", "-C", "/repo", "log", "-1", "--format=%h", "--", "."], stdout=subprocess.PIPE, text=True).stdout.strip()
        f["status"] = "fixed"; f["commit"] = h
        f["fixed"] = "fixed: property=%s %s %s" % (pid, h, f["what"][:160])
        print("already applied:", f["id"], h); continue
    r = subprocess.run(["/verif/tools/apply_fix.sh", patch, msg, testargs], stdout=subprocess.PIPE, stderr=subprocess.STDOUT, text=True)
    print(r.stdout[-600:])
    if r.returncode != 0:
        print("FAILED to apply", f["id"]); continue
    h = subprocess.run(["git", "-C", "/repo", "rev-parse", "--short", "HEAD"], stdout=subprocess.PIPE, text=True).stdout.strip()
    f["status"] = "fixed"
    f["fixed"] = "fixed: property=%s %s %s" % (pid, h, f["what"][:160])
    f["commit"] = h
    applied[patch] = h
json.dump(d, open(p, "w"), indent=1)
