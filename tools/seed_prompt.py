#!/usr/bin/env python3
"""tools/seed_prompt.py Cxx "<existing tests command>"  — prints the prompt for an independent sub-agent that
writes breaking changes for a property (given only the property's text and its own worktree)."""
import json, sys
pid, tests = sys.argv[1], sys.argv[2]
n = sys.argv[3] if len(sys.argv) > 3 else "three"
rnd = sys.argv[4] if len(sys.argv) > 4 else ""      # e.g. "r2": second round, avoid earlier ideas
import glob, os
tried = []
if rnd:
    for d in sorted(glob.glob('/verif/seeded/%s-*/' % pid)):
        try:
            tried.append(json.load(open(d + 'meta.json'))['summary'][:300])
        except Exception:
            pass
for l in open('/verif/properties.jsonl'):
    p = json.loads(l)
    if p['id'] == pid: break
low = pid.lower() + (('-' + rnd) if rnd else '')
print(f"""You are testing how well a repository's safety net catches subtle regressions. Work ONLY inside your own scratch git worktree of the Rust repository jamespfennell/texcraft; create it with:

    git -C /repo worktree add --detach /tmp/seed-{low}

and work in /tmp/seed-{low} (never edit /repo itself; never read, list or use anything under /verif). Build offline (`cargo ... --offline`; there is no network). Use the worktree's own default cargo target dir.

The property at stake:

Title: {p['title']}
Statement: {p['statement']}
Quantifier: {p['quantifier']['text']}
Code it is anchored in: {', '.join(p['anchors']['files'])}

Task: produce {n} different, independent changes to the repository source (each a separate patch against the pristine tree), each of which (a) breaks this property, (b) still compiles, (c) still passes the existing tests (`{tests}` — run them in the worktree; all must pass with the change applied), and (d) needs something specific to manifest — a particular boundary value, a multi-step sequence of operations, an unusual input, a particular nesting or interleaving, or two cooperating sites that each look fine alone — not something ordinary use would expose at once. Make them realistic: the kind of slip a maintainer could make in a refactor, clean-up or "optimisation". Make the changes different in nature and located in different functions/aspects of the property.

For each change i write into /tmp/seed-{low}-out/<i>/ :
  - patch.diff   (output of `git diff` in the worktree with only that change applied; source changes only, not the demo)
  - a demonstration: a small self-contained Rust integration test file (e.g. to be copied to crates/<crate>/tests/demo_test.rs) that FAILS with the change applied and PASSES on the pristine tree. Verify both directions yourself. It may only use crates that the target crate already depends on (including dev-dependencies).
  - meta.json with exactly these keys: {{"property": "{pid}", "summary": "...", "needs_to_manifest": "...", "files_changed": [...], "demo_file": "<file name in this directory>", "demo_dest": "<path inside the repo where the demo file must be copied, e.g. crates/dvi/tests/demo_test.rs>", "demo_command": "<cargo test --offline -p <crate> --test demo_test>", "tests_command": "{tests}", "existing_tests_pass": true, "demo_fails_with_patch": true, "demo_passes_without_patch": true}}

Reset the worktree between changes (`git -C /tmp/seed-{low} checkout -- . && git -C /tmp/seed-{low} clean -fdq -e target`). When completely done, remove the worktree and its build output: `git -C /repo worktree remove --force /tmp/seed-{low}` (keep /tmp/seed-{low}-out).

{('Ideas that were ALREADY used by an earlier round (do not repeat them or close variants; pick other functions, other aspects of the property, or the glue between components): ' + ' || '.join(tried)) if tried else ''}

Final report: for each change one short paragraph: what it is, what input exposes it, confirmation of (b)(c) and of the demo in both directions.""")
