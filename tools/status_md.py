#!/usr/bin/env python3
"""tools/status_md.py — regenerates the machine-written part of DESIGN.md (between the markers
<!-- STATUS:BEGIN --> and <!-- STATUS:END -->) from meta/, known_findings/, seeded/ and evidence/."""
import json, os, re, glob

V = "/verif"
ids = ["C%02d" % i for i in range(1, 21)]
ready = open(f"{V}/meta/READY").read().split()
titles = {}
for l in open(f"{V}/properties.jsonl"):
    p = json.loads(l); titles[p["id"]] = p["title"]

out = []
out.append("### 12.1 Per property: what is claimed and what the last committed run covered\n")
out.append("| id | claimed | theorems (discharged/obligations) | correspondence cases (quick) | findings fixed | findings known | notes |")
out.append("|---|---|---|---|---|---|---|")
allf = {}
for pid in ids:
    kf = []
    p = f"{V}/known_findings/{pid}.json"
    if os.path.exists(p):
        kf = json.load(open(p))["findings"]
    allf[pid] = kf
    fixed = sorted({f["id"] for f in kf if f.get("status") == "fixed"})
    known = sorted({f["id"] for f in kf if f.get("status") == "known"})
    pend = sorted({f["id"] for f in kf if f.get("status") == "fix-pending"})
    ev = {}
    if os.path.exists(f"{V}/evidence/{pid}.json"):
        ev = json.load(open(f"{V}/evidence/{pid}.json"))
    cov = ev.get("coverage", {})
    th = "%s/%s" % (cov.get("discharged", "-"), cov.get("obligations", "-")) if cov else "-"
    n = cov.get("evaluations", "-")
    claimed = "yes" if pid in ready else "not yet"
    notes = "notes/%s.md" % pid if os.path.exists(f"{V}/notes/{pid}.md") else ""
    out.append(f"| {pid} | {claimed} | {th} | {n} | {', '.join(fixed) or '–'} | {', '.join(known + [x + ' (pending)' for x in pend]) or '–'} | {notes} |")

out.append("\n### 12.2 Findings (all reproduced against the real code; `fixed` = a `fix:` commit in /repo, listed with its hash)\n")
out.append("| id | status | commit | what | witness (case line of the check, or input) |")
out.append("|---|---|---|---|---|")
seen = set()
for pid in ids:
    for f in allf[pid]:
        if f["id"] in seen:
            continue
        seen.add(f["id"])
        what = f.get("what", "").replace("|", "\\|").replace("\n", " ")
        inp = str(f.get("input", "")).replace("|", "\\|").replace("\n", " ")
        if len(inp) > 110: inp = inp[:110] + "…"
        if len(what) > 260: what = what[:260] + "…"
        out.append(f"| {f['id']} | {f.get('status')} | {f.get('commit', '')} | {what} | `{inp}` |")

out.append("\n### 12.3 Seeded breaking changes (written by independent sub-agents from the property text only) and which check stream caught each\n")
out.append("| seed | what the change is | needs to manifest | existing tests pass | detected by quick check | stream / signature of the first replay |")
out.append("|---|---|---|---|---|---|")
for d in sorted(glob.glob(f"{V}/seeded/*/")):
    name = os.path.basename(d.rstrip("/"))
    try:
        m = json.load(open(d + "meta.json"))
    except Exception:
        continue
    v = {}
    if os.path.exists(d + "verified.json"):
        v = json.load(open(d + "verified.json"))
    s = m.get("summary", "").replace("|", "\\|").replace("\n", " ")
    nm = m.get("needs_to_manifest", "").replace("|", "\\|").replace("\n", " ")
    if len(s) > 230: s = s[:230] + "…"
    if len(nm) > 160: nm = nm[:160] + "…"
    det = "–"
    if v:
        det = "yes (concrete input)" if v.get("detected_with_concrete_input") else ("yes (no-failing-input-found)" if v.get("detected") else ("by the %s check (concrete input)" % v["detected_by_other_check"] if v.get("detected_by_other_check") else "**NO**"))
    rep = ""
    if v.get("replays"):
        r = v["replays"][0]
        rep = "%s / %s" % (r.get("stream"), (r.get("signature") or "")[:80])
    rep = rep.replace("|", "\\|")
    out.append(f"| {name} | {s} | {nm} | {v.get('existing_tests_pass_patched', '–')} | {det} | {rep} |")

out.append("\n### 12.4 Property theorems as they stand (names read from lean/TexcraftModel/Props/Cxx.lean; every one is audited with `#print axioms` on every run)\n")
for pid in ids:
    pf = f"{V}/lean/TexcraftModel/Props/{pid}.lean"
    if not os.path.exists(pf):
        continue
    names = re.findall(r"^theorem\s+([A-Za-z0-9_'.]+)", open(pf).read(), re.M)
    out.append(f"* **{pid}** ({len(names)}): " + ", ".join("`%s`" % n for n in names))

text = "\n".join(out) + "\n"
p = f"{V}/DESIGN.md"
s = open(p).read()
# mutation sweep summary (mutants/summary.json, maintained by hand from the builders' reports)
if os.path.exists(f"{V}/mutants/summary.json") and "<!-- MUTSUM:BEGIN -->" in s:
    ms = json.load(open(f"{V}/mutants/summary.json"))
    rows = ["| id | mutants | property-breaking, caught at the first run | caught after generalising generators/spec | not property-breaking (equivalent or outside the statement; reported weakly where the model sees them) | property-breaking and still missed | what was generalised |", "|---|---|---|---|---|---|---|"]
    tot = [0, 0, 0, 0, 0]
    for pid in ids:
        m = ms.get(pid)
        if not m or not m["mutants"]:
            continue
        rows.append(f"| {pid} | {m['mutants']} | {m['first']} | {m['after']} | {m['nonbreaking']} | {m['missed']} | {m['note']} |")
        for i, k in enumerate(["mutants", "first", "after", "nonbreaking", "missed"]):
            tot[i] += m[k]
    rows.append(f"| **all** | **{tot[0]}** | **{tot[1]}** | **{tot[2]}** | **{tot[3]}** | **{tot[4]}** | |")
    mb, me = "<!-- MUTSUM:BEGIN -->", "<!-- MUTSUM:END -->"
    s = s[:s.index(mb) + len(mb)] + "\n" + "\n".join(rows) + "\n" + s[s.index(me):]
b, e = "<!-- STATUS:BEGIN -->", "<!-- STATUS:END -->"
if b not in s:
    s += f"\n---------------------------------------------------------------------------------------\n\n## 12. Status as built (generated by tools/status_md.py; do not edit by hand)\n\n{b}\n{e}\n"
s = s[:s.index(b) + len(b)] + "\n" + text + s[s.index(e):]
open(p, "w").write(s)
print("DESIGN.md status section regenerated: %d findings, %d seeds" % (len(seen), len(glob.glob(f'{V}/seeded/*/'))))
