#!/usr/bin/env python3
"""
tools/verify_seed.py <seed-dir> [--keep]

Confirms a seeded breaking change ourselves, in a scratch worktree of /repo (never in /repo):
  1. pristine tree: the demonstration passes
  2. patched tree : it compiles, the listed existing tests pass, the demonstration FAILS
  3. our check for the property, run against the patched worktree, reports a VIOLATION
Writes the outcome into <seed-dir>/verified.json. The seed dir holds patch.diff, the demo
file, and meta.json with: property, demo_file, demo_dest (path inside the repo),
demo_command, tests_command.
"""
import json, os, subprocess, sys, shutil, hashlib, time

def sh(cmd, cwd=None, env=None, timeout=3600):
    e = dict(os.environ); e["CARGO_NET_OFFLINE"] = "true"
    if env: e.update(env)
    p = subprocess.run(cmd, shell=True, cwd=cwd, env=e, stdout=subprocess.PIPE, stderr=subprocess.STDOUT, text=True, timeout=timeout)
    return p.returncode, p.stdout

def main():
    seed = os.path.abspath(sys.argv[1])
    meta = json.load(open(os.path.join(seed, "meta.json")))
    pid = meta["property"]
    tag = hashlib.sha1(seed.encode()).hexdigest()[:8]
    wt = "/tmp/seedwt-" + tag
    sh("git -C /repo worktree remove --force %s" % wt)
    rc, out = sh("git -C /repo worktree add --detach %s" % wt)
    assert rc == 0, out
    res = {"property": pid, "when": time.strftime("%Y-%m-%d %H:%M:%S")}
    try:
        demo_src = os.path.join(seed, meta["demo_file"])
        demo_dst = os.path.join(wt, meta["demo_dest"])
        os.makedirs(os.path.dirname(demo_dst), exist_ok=True)
        shutil.copyfile(demo_src, demo_dst)
        rc, out = sh(meta["demo_command"], cwd=wt)
        res["demo_passes_pristine"] = (rc == 0)
        res["demo_pristine_tail"] = out[-600:]
        rc, out = sh("git apply %s" % os.path.join(seed, "patch.diff"), cwd=wt)
        res["patch_applies"] = (rc == 0)
        if rc != 0:
            res["apply_output"] = out[-800:]
        else:
            rc, out = sh(meta["demo_command"], cwd=wt)
            res["demo_fails_patched"] = (rc != 0)
            res["demo_patched_tail"] = out[-800:]
            os.remove(demo_dst)
            rc, out = sh(meta["tests_command"], cwd=wt)
            res["existing_tests_pass_patched"] = (rc == 0)
            res["tests_tail"] = out[-600:]
            # our check (quick tier) against the patched worktree
            t0 = time.time()
            rc, out = sh("./check %s --tier quick" % pid, cwd="/verif", env={"VERIF_REPO": wt})
            res["check_rc"] = rc
            res["check_wall_s"] = round(time.time() - t0, 1)
            res["check_output"] = out[-3000:]
            res["detected"] = (rc == 1 and "VIOLATION property=%s" % pid in out)
            res["detected_with_concrete_input"] = res["detected"] and any(
                l.startswith("VIOLATION") and "no-failing-input-found" not in l for l in out.splitlines())
            # copy replay files mentioned
            reps = []
            for l in out.splitlines():
                if l.startswith("VIOLATION") and "replay=" in l:
                    p = l.split("replay=")[1].split()[0]
                    if os.path.exists(p):
                        d = json.load(open(p))
                        reps.append({"kind": d.get("kind"), "stream": d.get("stream"), "signature": d.get("signature"), "case": d.get("case", "")[:500]})
            res["replays"] = reps
    finally:
        if "--keep" not in sys.argv:
            sh("git -C /repo worktree remove --force %s" % wt)
            th = "/tmp/verif-harness-" + hashlib.sha1(wt.encode()).hexdigest()[:10]
            shutil.rmtree(th, ignore_errors=True)
    json.dump(res, open(os.path.join(seed, "verified.json"), "w"), indent=1)
    print(json.dumps({k: v for k, v in res.items() if not k.endswith("_tail") and k != "check_output"}, indent=1))
    print(res.get("check_output", "")[-1200:])

if __name__ == "__main__":
    main()
