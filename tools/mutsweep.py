#!/usr/bin/env python3
"""tools/mutsweep.py Cxx spec.json [--only nn,nn] — applies one-site mutants (textual replacements,
each `old` must occur exactly `count` times, default 1) to a scratch worktree of /repo, runs
`VERIF_REPO=<wt> ./check Cxx --tier quick` on each, saves the diff under mutants/Cxx/ and prints a
table.  spec.json: [{"id":"01-slug","file":"crates/..","old":"..","new":"..","note":".."}, ...]"""
import json, os, subprocess, sys, re

pid = sys.argv[1]
spec = json.load(open(sys.argv[2]))
only = None
if "--only" in sys.argv:
    only = set(sys.argv[sys.argv.index("--only") + 1].split(","))
wt = "/tmp/mut-" + pid.lower()
out = "/verif/mutants/" + pid
os.makedirs(out, exist_ok=True)
if not os.path.exists(wt):
    subprocess.check_call(["git", "-C", "/repo", "worktree", "add", "--detach", wt, "HEAD"], stdout=subprocess.DEVNULL)
res_path = out + "/results.json"
results = json.load(open(res_path)) if os.path.exists(res_path) else {}
for m in spec:
    if only and m["id"].split("-")[0] not in only:
        continue
    subprocess.check_call(["git", "-C", wt, "checkout", "--", "."])
    p = os.path.join(wt, m["file"])
    s = open(p).read()
    c = s.count(m["old"])
    if c != m.get("count", 1):
        print(m["id"], "PATTERN COUNT", c); continue
    s = s.replace(m["old"], m["new"])
    open(p, "w").write(s)
    d = subprocess.run(["git", "-C", wt, "diff"], capture_output=True, text=True).stdout
    open(f"{out}/{m['id']}.diff", "w").write(d)
    env = dict(os.environ, VERIF_REPO=wt)
    r = subprocess.run(["/verif/check", pid, "--tier", "quick"], capture_output=True, text=True, env=env, cwd="/verif")
    lines = [l for l in (r.stdout + r.stderr).splitlines() if l.startswith(("VIOLATION", "OK ", "BUILD", "ERROR"))]
    viol = [l for l in lines if l.startswith("VIOLATION")]
    det = "missed"
    sig = ""
    if viol:
        det = "weak" if all(l.rstrip().endswith("no-failing-input-found") for l in viol) else "concrete"
        mm = re.search(r"replay=(\S+)", viol[0])
        if mm and os.path.exists(mm.group(1)):
            try:
                rp = json.load(open(mm.group(1)))
                f = (rp.get("failures") or [rp])[0]
                sig = "%s / %s / %s" % (f.get("stream"), f.get("kind"), (f.get("signature") or "")[:90])
            except Exception as e:
                sig = "?"
    elif r.returncode != 0:
        det = "check-error"
        sig = (r.stdout + r.stderr)[-300:]
    results[m["id"]] = {"file": m["file"], "note": m.get("note", ""), "detected": det, "first": sig, "rc": r.returncode}
    print(m["id"], det, sig, flush=True)
    json.dump(results, open(res_path, "w"), indent=1)
subprocess.check_call(["git", "-C", wt, "checkout", "--", "."])
