#!/bin/sh
# tools/stage_seeds.sh C15 [r2] — copy /tmp/seed-c15[-r2]-out/<i> to seeded/C15[-r2]-<i> and verify each
id=$1; rnd=$2; low=$(echo $id | tr A-Z a-z)
src=/tmp/seed-$low${rnd:+-$rnd}-out
for d in $src/*/; do
  i=$(basename $d)
  name=$id${rnd:+-$rnd}-$i
  mkdir -p /verif/seeded/$name
  cp $d/* /verif/seeded/$name/
  python3 /verif/tools/verify_seed.py /verif/seeded/$name > /tmp/verify-$name.log 2>&1
  python3 - <<PY
import json
r=json.load(open('/verif/seeded/$name/verified.json'))
print('$name', {k:r.get(k) for k in ('demo_passes_pristine','demo_fails_patched','existing_tests_pass_patched','detected','detected_with_concrete_input','check_wall_s')})
PY
done
