#!/bin/sh
# tools/stage_seeds.sh C15  — copy /tmp/seed-c15-out/<i> to seeded/C15-<i> and verify each
id=$1; low=$(echo $id | tr A-Z a-z)
for d in /tmp/seed-$low-out/*/; do
  i=$(basename $d)
  mkdir -p /verif/seeded/$id-$i
  cp $d/* /verif/seeded/$id-$i/
  python3 /verif/tools/verify_seed.py /verif/seeded/$id-$i > /tmp/verify-$id-$i.log 2>&1
  python3 - <<PY
import json
r=json.load(open('/verif/seeded/$id-$i/verified.json'))
print('$id-$i', {k:r.get(k) for k in ('demo_passes_pristine','demo_fails_patched','existing_tests_pass_patched','detected','detected_with_concrete_input','check_wall_s')})
PY
done
