#!/bin/sh
# tools/run_all.sh [tier] — every claimed check in sequence on /repo; summary at the end
tier=${1:-quick}
cd /verif
for id in $(cat meta/READY); do
  ./check $id --tier $tier > /tmp/runall-$id.log 2>&1
  echo "$id rc=$? $(grep -E '^(OK|VIOLATION)' /tmp/runall-$id.log | head -3 | cut -c1-160)"
done
