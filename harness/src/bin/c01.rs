//! C01 — group scoping: local assignments are undone when the group closes, global ones
//! survive at any depth, `\global` / `\globaldefs` affect exactly one assignment.
//!
//! A case is `p <ints>`: a program as a list of ops in the encoding of `lean/Driver/C01.lean`
//! (`0` `{`, `1` `}`, `2 pre kind idx val` assignment, `3 pre tk tn dk a b` definition,
//! `4 pre f` font selector, `5 c x y` read; `pre % 10` = number of `\global`s (0..3); on a `\def`/`\gdef` `pre / 10` is the
//! whole prefix run in base 4 (1 `\global`, 2 `\long`, 3 `\outer`: any order, any repetition, at most 5); on an
//! assignment to a \count/\toks register the tens digit 2/3 (and on a read `kind + 10 * (1 + n)`) = address the
//! register through the n-th name that is currently a `\countdef`/`\toksdef` alias of it (the driver lists them per
//! op from the specification's state; the direct name is used when there is none), hundreds digit = n; + 10 on a \count/\dimen/\skip
//! assignment = write it as `\multiply v by 0 \advance v by val`, + 10 on a font selector = select through a fresh
//! `\let`-alias). The program is rendered to TeX source (one line) and
//! run by the real VM: `VM::<StdLibState>` with `StdLibState`'s own built-ins plus
//!   * `\fA \fB \fC \nullfont` = `command::BuiltIn::new_font(Font(1|2|3|0))` (StdLibState installs
//!     no font selector; `texlang-font` is not a dependency of the harness crate),
//!   * two read-only observation primitives written here: `\rd<token>` prints the meaning of a
//!     control sequence / active character (`?` undefined, the macro's expansion, `c<n>` for a
//!     `\chardef`, `M<n>` for a `\mathchardef`, `v<\the value>` for a register alias, `t<char>` for
//!     a `\let` to a character, `F<n>` for a font selector, `P` for a primitive) by looking the
//!     token up with the real `Map::get_command` and handing the token back to the real
//!     expansion / `\the` / main loop; `\curfont` prints `VM::current_font()`.
//! through `texlang_stdlib::script::run` (the same path as `run_to_string`, with a writer that
//! keeps the output when the run ends in an error). Every read is followed by `;`; the output is
//! split on `;` and compared with the reads of S (the stack of environments, computed by Lean) —
//! `impl-vs-spec` — and of M (the model of the repaired code) — `impl-vs-model`, `model-vs-spec`.
//! After a run that ends normally the pending-`\global` flag of the real prefix component must be
//! `Local` (read through serde).
//! A difference that is reproduced exactly by the model of the code *before* one of the repairs
//! C01-a/b/c gets the signature `pre-fix:<letters>`.

use std::cell::RefCell;
use std::collections::{BTreeSet, HashMap};
use std::rc::Rc;
use texlang::prelude as txl;
use texlang::traits::*;
use texlang::vm::VM;
use texlang::{command, token, types};
use texlang_stdlib::StdLibState;
use vh::*;

// ------------------------------------------------------------------------------------------
// Ops
// ------------------------------------------------------------------------------------------

#[derive(Clone, Copy, Debug, PartialEq, Eq, Hash, PartialOrd, Ord)]
enum Op {
    Begin,
    End,
    Assign { pre: i64, kind: i64, idx: i64, val: i64 },
    Define { pre: i64, tk: i64, tn: i64, dk: i64, a: i64, b: i64 },
    Font { pre: i64, f: i64 },
    ReadVar { kind: i64, idx: i64 },
    ReadCmd { tk: i64, tn: i64 },
    ReadFont,
    /// surface items (`Item` of Model/C01.lean): a character typed in the source, a name used as a command,
    /// `\let`=character
    Chr { c: i64 },
    Exec { tk: i64, tn: i64 },
    LetChr { pre: i64, tk: i64, tn: i64, c: i64 },
}

/// The characters whose role (group delimiter or not) is decided by their current `\catcode`: `[ ] { }`.
/// Only `[` and `]` get `\catcode` assignments (the braces are needed to write the other ops).
const DELIMS: [i64; 4] = [91, 93, 123, 125];
const DELIM_CATS: [i64; 4] = [1, 2, 11, 12];

const KIND_NAMES: [&str; 7] = ["count", "dimen", "skip", "toks", "catcode", "mathcode", "param"];
const DEF_NAMES: [&str; 10] =
    ["def", "gdef", "chardef", "mathchardef", "countdef", "toksdef", "let-char", "let-relax", "let-font", "let-cs"];
/// Characters whose category / math code is a target (they occur nowhere else in a program).
const CODE_CHARS: [i64; 3] = [124, 33, 58]; // | ! :
const CATCODE_VALUES: [i64; 7] = [3, 4, 6, 7, 8, 11, 12];
const PARAM_NAMES: [&str; 4] = ["globaldefs", "endlinechar", "year", "month"];
const ENDLINECHAR_VALUES: [i64; 5] = [-1, 13, 32, 65, 200];
const CS_NAMES: [&str; 6] = ["ta", "tb", "tc", "td", "te", "tf"];
const ACTIVE_CHARS: [char; 2] = ['~', '+'];
const FONT_NAMES: [&str; 4] = ["nullfont", "fA", "fB", "fC"];

fn enc(ops: &[Op]) -> String {
    let mut v: Vec<i64> = vec![];
    for op in ops {
        match *op {
            Op::Begin => v.push(0),
            Op::End => v.push(1),
            Op::Assign { pre, kind, idx, val } => v.extend([2, pre, kind, idx, val]),
            Op::Define { pre, tk, tn, dk, a, b } => v.extend([3, pre, tk, tn, dk, a, b]),
            Op::Font { pre, f } => v.extend([4, pre, f]),
            Op::ReadVar { kind, idx } => v.extend([5, 0, kind, idx]),
            Op::ReadCmd { tk, tn } => v.extend([5, 1, tk, tn]),
            Op::ReadFont => v.extend([5, 2, 0, 0]),
            Op::Chr { c } => v.extend([6, c]),
            Op::Exec { tk, tn } => v.extend([7, tk, tn]),
            Op::LetChr { pre, tk, tn, c } => v.extend([8, pre, tk, tn, c]),
        }
    }
    format!("p {}", join(&v))
}

fn dec(case: &str) -> Option<Vec<Op>> {
    let rest = case.strip_prefix("p")?;
    let v: Vec<i64> = rest.split_ascii_whitespace().map(|w| w.parse::<i64>().ok()).collect::<Option<_>>()?;
    let mut ops = vec![];
    let mut i = 0;
    let g = |i: usize| v.get(i).copied();
    while i < v.len() {
        match v[i] {
            0 => {
                ops.push(Op::Begin);
                i += 1
            }
            1 => {
                ops.push(Op::End);
                i += 1
            }
            2 => {
                ops.push(Op::Assign { pre: g(i + 1)?, kind: g(i + 2)?, idx: g(i + 3)?, val: g(i + 4)? });
                i += 5
            }
            3 => {
                ops.push(Op::Define { pre: g(i + 1)?, tk: g(i + 2)?, tn: g(i + 3)?, dk: g(i + 4)?, a: g(i + 5)?, b: g(i + 6)? });
                i += 7
            }
            4 => {
                ops.push(Op::Font { pre: g(i + 1)?, f: g(i + 2)? });
                i += 3
            }
            5 => {
                let (c, x, y) = (g(i + 1)?, g(i + 2)?, g(i + 3)?);
                ops.push(match c {
                    0 => Op::ReadVar { kind: x, idx: y },
                    1 => Op::ReadCmd { tk: x, tn: y },
                    2 => Op::ReadFont,
                    _ => return None,
                });
                i += 4
            }
            6 => {
                ops.push(Op::Chr { c: g(i + 1)? });
                i += 2
            }
            7 => {
                ops.push(Op::Exec { tk: g(i + 1)?, tn: g(i + 2)? });
                i += 3
            }
            8 => {
                ops.push(Op::LetChr { pre: g(i + 1)?, tk: g(i + 2)?, tn: g(i + 3)?, c: g(i + 4)? });
                i += 5
            }
            _ => return None,
        }
    }
    Some(ops)
}

fn code_char_ok(idx: i64) -> bool {
    (128..=0x10FFFE).contains(&idx) && !(0xD800..=0xDFFF).contains(&idx)
}

fn var_ok(kind: i64, idx: i64) -> bool {
    match kind {
        0..=2 => (0..32768).contains(&idx),
        3 => (0..256).contains(&idx),
        // code tables are indexed by the full character code: any character that does not occur in a program
        // (ASCII: only `| ! :` and, for \catcode, the brackets), up to U+10FFFE, surrogates excluded
        4 => CODE_CHARS.contains(&idx) || idx == 91 || idx == 93 || code_char_ok(idx),
        5 => CODE_CHARS.contains(&idx) || code_char_ok(idx),
        6 => (0..PARAM_NAMES.len() as i64).contains(&idx),
        _ => false,
    }
}

fn val_ok(kind: i64, idx: i64, val: i64) -> bool {
    match kind {
        0 => (-2147483647..=2147483647).contains(&val),
        1 | 2 => (-16000..=16000).contains(&val),
        3 => (-999999..=999999).contains(&val),
        4 if idx == 91 || idx == 93 => DELIM_CATS.contains(&val),
        4 => CATCODE_VALUES.contains(&val),
        5 => (0..=32767).contains(&val),
        6 => match idx {
            1 => ENDLINECHAR_VALUES.contains(&val),
            _ => (-2147483647..=2147483647).contains(&val),
        },
        _ => false,
    }
}

fn target_ok(tk: i64, tn: i64) -> bool {
    match tk {
        0 => (0..CS_NAMES.len() as i64).contains(&tn),
        1 => (0..ACTIVE_CHARS.len() as i64).contains(&tn),
        _ => false,
    }
}

fn op_ok(op: &Op) -> bool {
    match *op {
        Op::Begin | Op::End | Op::ReadFont => true,
        Op::Assign { pre, kind, idx, val } => {
            // pre = 100 * alias selector + 10 * style + number of \global; style 0 direct, 1 direct through
            // \multiply/\advance, 2 through a register alias, 3 through an alias with \multiply/\advance
            let (g, style, sel) = (pre % 10, pre / 10 % 10, pre / 100);
            (0..=3).contains(&g)
                && (0..=9).contains(&sel)
                && match style {
                    0 => sel == 0,
                    1 => sel == 0 && (0..=2).contains(&kind),
                    2 => kind == 0 || kind == 3,
                    3 => kind == 0,
                    _ => false,
                }
                && var_ok(kind, idx)
                && val_ok(kind, idx, val)
        }
        Op::Define { pre, tk, tn, dk, a, b } => {
            // `\long` / `\outer` are legal in front of macro definitions only
            prefix_run(pre).is_some()
                && (pre / 10 == 0 || dk == 0 || dk == 1)
                && target_ok(tk, tn)
                && match dk {
                    0 | 1 => (0..1000000).contains(&a),
                    2 => (65..=90).contains(&a),
                    3 => (0..=32767).contains(&a),
                    4 => (0..32768).contains(&a),
                    5 => (0..256).contains(&a),
                    6 => (65..=90).contains(&a),
                    7 => true,
                    8 => (0..4).contains(&a),
                    9 => target_ok(a, b),
                    _ => false,
                }
        }
        Op::Font { pre, f } => (0..=3).contains(&(pre % 10)) && pre / 10 <= 1 && (0..4).contains(&f),
        // kind + 10 * (1 + alias selector): read through a register alias (\count, \toks only)
        Op::ReadVar { kind, idx } => (0..=109).contains(&kind) && (kind < 10 || kind % 10 == 0 || kind % 10 == 3) && var_ok(kind % 10, idx),
        Op::ReadCmd { tk, tn } => target_ok(tk, tn),
        Op::Chr { c } => DELIMS.contains(&c),
        Op::Exec { tk, tn } => target_ok(tk, tn),
        Op::LetChr { pre, tk, tn, c } => (0..=3).contains(&pre) && target_ok(tk, tn) && DELIMS.contains(&c),
    }
}

// ------------------------------------------------------------------------------------------
// Rendering to TeX source
// ------------------------------------------------------------------------------------------

fn var_tex(kind: i64, idx: i64) -> String {
    match kind {
        0 => format!("\\count{idx} "),
        1 => format!("\\dimen{idx} "),
        2 => format!("\\skip{idx} "),
        3 => format!("\\toks{idx} "),
        4 if idx >= 128 => format!("\\catcode{idx} "),
        5 if idx >= 128 => format!("\\mathcode{idx} "),
        4 => format!("\\catcode`\\{}", idx as u8 as char),
        5 => format!("\\mathcode`\\{}", idx as u8 as char),
        _ => format!("\\{} ", PARAM_NAMES[idx as usize]),
    }
}

fn target_tex(tk: i64, tn: i64) -> String {
    if tk == 0 {
        format!("\\{} ", CS_NAMES[tn as usize])
    } else {
        ACTIVE_CHARS[tn as usize].to_string()
    }
}

fn pre_tex(pre: i64) -> String {
    "\\global ".repeat(pre.clamp(0, 9) as usize)
}

/// The prefix run of a `\def`/`\gdef`: `pre / 10` read as base-4 digits (1 `\global`, 2 `\long`,
/// 3 `\outer`), most significant first; `pre % 10` must be the number of `\global`s in it. With
/// `pre / 10 == 0` the run is `pre % 10` times `\global`.
fn prefix_run(pre: i64) -> Option<Vec<u8>> {
    let (mut seq, g) = (pre / 10, pre % 10);
    if pre < 0 {
        return None;
    }
    if seq == 0 {
        return if g <= 3 { Some(vec![1; g as usize]) } else { None };
    }
    let mut d = vec![];
    while seq > 0 {
        let x = (seq % 4) as u8;
        if x == 0 {
            return None;
        }
        d.push(x);
        seq /= 4;
    }
    d.reverse();
    if d.len() > 5 || d.iter().filter(|&&x| x == 1).count() as i64 != g {
        return None;
    }
    Some(d)
}

fn run_code(run: &[u8]) -> i64 {
    let mut seq = 0i64;
    for &x in run {
        seq = seq * 4 + x as i64;
    }
    seq * 10 + run.iter().filter(|&&x| x == 1).count() as i64
}

fn run_tex(run: &[u8]) -> String {
    run.iter()
        .map(|x| match x {
            1 => "\\global ",
            2 => "\\long ",
            _ => "\\outer ",
        })
        .collect()
}

const PRELUDE: &str = "\\catcode`\\~=13 \\catcode`\\+=13 ";

/// The `sel`-th name that the specification says is currently a register alias of the variable of
/// op number `i` (annotation `<tag>:c0,x1,…` of the driver), if there is one.
fn alias_tex(annots: &[&str], i: usize, sel: i64) -> Option<String> {
    let list = annots.get(i)?.split_once(':')?.1;
    let names: Vec<&str> = list.split(',').filter(|n| !n.is_empty()).collect();
    // only names of the harness's vocabulary
    let names: Vec<String> = names
        .iter()
        .filter_map(|n| {
            let (k, num) = n.split_at(1);
            let num: i64 = num.parse().ok()?;
            let tk = if k == "c" { 0 } else { 1 };
            if target_ok(tk, num) {
                Some(target_tex(tk, num))
            } else {
                None
            }
        })
        .collect();
    if names.is_empty() {
        None
    } else {
        Some(names[sel as usize % names.len()].clone())
    }
}

/// `annots`: the driver's per-op annotations (needed only to write an op through a register alias;
/// without them such ops are written with the register's direct name).
fn render(ops: &[Op], annots: &[&str]) -> String {
    let mut s = String::from(PRELUDE);
    for (opi, op) in ops.iter().enumerate() {
        match *op {
            Op::Begin => s.push('{'),
            Op::End => s.push('}'),
            Op::Assign { pre, kind, idx: _, val } if pre / 10 % 10 >= 2 && alias_tex(annots, opi, pre / 100).is_some() => {
                // through a name that `\countdef` / `\toksdef` (or a `\let` copy of one) made an alias of the register
                let p = pre_tex(pre % 10);
                let v = alias_tex(annots, opi, pre / 100).unwrap();
                if pre / 10 % 10 == 3 {
                    s.push_str(&format!("{p}\\multiply {v}by 0 {p}\\advance {v}by {val} "));
                } else if kind == 3 {
                    s.push_str(&format!("{p}{v}={{{val}}}"));
                } else {
                    s.push_str(&format!("{p}{v}={val} "));
                }
            }
            Op::Assign { pre, kind, idx, val } if pre / 10 % 10 == 1 || pre / 10 % 10 == 3 => {
                // the same assignment through math.rs: `\multiply v by 0` then `\advance v by val`, both
                // with the same prefix (two assignments of one scope to one variable = one assignment)
                let p = pre_tex(pre % 10);
                let v = var_tex(kind, idx);
                let unit = match kind {
                    1 => "pt ",
                    2 => "pt\\relax ",
                    _ => " ",
                };
                s.push_str(&format!("{p}\\multiply {v}by 0 {p}\\advance {v}by {val}{unit}"));
            }
            Op::Assign { pre, kind, idx, val } => {
                s.push_str(&pre_tex(pre % 10));
                s.push_str(&var_tex(kind, idx));
                match kind {
                    1 => s.push_str(&format!("={val}pt ")),
                    2 => s.push_str(&format!("={val}pt\\relax ")),
                    3 => s.push_str(&format!("={{{val}}}")),
                    _ => s.push_str(&format!("={val} ")),
                }
            }
            Op::Define { pre, tk, tn, dk, a, b } => {
                s.push_str(&run_tex(&prefix_run(pre).unwrap_or_default()));
                let t = target_tex(tk, tn);
                match dk {
                    0 => s.push_str(&format!("\\def {t}{{m{a}}}")),
                    1 => s.push_str(&format!("\\gdef {t}{{m{a}}}")),
                    2 => s.push_str(&format!("\\chardef {t}={a} ")),
                    3 => s.push_str(&format!("\\mathchardef {t}={a} ")),
                    4 => s.push_str(&format!("\\countdef {t}={a} ")),
                    5 => s.push_str(&format!("\\toksdef {t}={a} ")),
                    6 => s.push_str(&format!("\\let {t}={}", a as u8 as char)),
                    7 => s.push_str(&format!("\\let {t}=\\relax ")),
                    8 => s.push_str(&format!("\\let {t}=\\{} ", FONT_NAMES[a as usize])),
                    _ => s.push_str(&format!("\\let {t}={}", target_tex(a, b))),
                }
            }
            Op::Font { pre, f } if pre >= 10 => {
                // the same selection through a `\let`-alias of the selector (`\fx` is no target)
                s.push_str(&format!("\\let \\fx =\\{} {}\\fx ", FONT_NAMES[f as usize], pre_tex(pre % 10)));
            }
            Op::Font { pre, f } => {
                s.push_str(&pre_tex(pre));
                s.push_str(&format!("\\{} ", FONT_NAMES[f as usize]));
            }
            Op::ReadVar { kind, idx } => match (kind >= 10).then(|| alias_tex(annots, opi, kind / 10 - 1)).flatten() {
                Some(v) => s.push_str(&format!("\\the {v};")),
                None => s.push_str(&format!("\\the {};", var_tex(kind % 10, idx))),
            },
            Op::ReadCmd { tk, tn } => s.push_str(&format!("\\rd {};", target_tex(tk, tn))),
            Op::ReadFont => s.push_str("\\curfont ;"),
            // a character as typed; what it does is up to its current category code
            Op::Chr { c } => {
                s.push(c as u8 as char);
                s.push(';');
            }
            // a name used as a command: written when the specification says it is a character-token alias
            // or a font-selector alias (annotation other than `S`)
            Op::Exec { tk, tn } => {
                if annots.get(opi).map(|a| *a != "S").unwrap_or(false) {
                    s.push_str(&format!("{};", target_tex(tk, tn)));
                }
            }
            Op::LetChr { pre, tk, tn, c } => {
                s.push_str(&format!("{}\\let {}={}", pre_tex(pre), target_tex(tk, tn), c as u8 as char));
            }
        }
    }
    s
}

// ------------------------------------------------------------------------------------------
// The real code
// ------------------------------------------------------------------------------------------

/// `\rd<token>`: print the meaning of a command name (see the module doc).
fn rd_fn<S: TexlangState>(rd_token: token::Token, input: &mut texlang::vm::ExpansionInput<S>) -> txl::Result<()> {
    let Some(t) = input.unexpanded().next()? else {
        input.push_string_tokens(rd_token, "!eof");
        return Ok(());
    };
    let token::Value::CommandRef(cr) = t.value() else {
        input.push_string_tokens(rd_token, "!char");
        return Ok(());
    };
    enum How {
        Text(String),
        Back(&'static str),
        The(&'static str),
    }
    let how = match input.commands_map().get_command(&cr) {
        None => How::Text("?".into()),
        Some(command::Command::Macro(_)) => How::Back(""),
        // printed, not executed (it may be a brace)
        Some(command::Command::CharacterTokenAlias(v)) => match v.char_and_cat_code() {
            Some((c, cat)) => How::Text(format!("t{}:{}", c, cat as u8)),
            None => How::Text("t?".into()),
        },
        Some(command::Command::Character(_)) => How::The("c"),
        Some(command::Command::MathCharacter(_)) => How::The("M"),
        Some(command::Command::Variable(_)) => How::The("v"),
        Some(command::Command::Font(f)) => How::Text(format!("F{}", f.0)),
        Some(command::Command::Execution(..)) | Some(command::Command::Expansion(..)) => How::Text("P".into()),
    };
    match how {
        How::Text(s) => input.push_string_tokens(rd_token, &s),
        How::Back(p) => {
            input.expansions_mut().push(t);
            input.push_string_tokens(rd_token, p);
        }
        How::The(p) => {
            let the = input.vm().cs_name_interner().get("the").expect("\\the is a built-in");
            input.expansions_mut().push(t);
            input.expansions_mut().push(token::Token::new_control_sequence(the, rd_token.trace_key()));
            input.push_string_tokens(rd_token, p);
        }
    }
    Ok(())
}

/// `\curfont`: print `f<current font>`.
fn curfont_fn<S: TexlangState>(tok: token::Token, input: &mut texlang::vm::ExpansionInput<S>) -> txl::Result<()> {
    let f = input.vm().current_font().0;
    input.push_string_tokens(tok, &format!("f{f}"));
    Ok(())
}

struct SharedBuf(Rc<RefCell<Vec<u8>>>);
impl std::io::Write for SharedBuf {
    fn write(&mut self, b: &[u8]) -> std::io::Result<usize> {
        self.0.borrow_mut().extend_from_slice(b);
        Ok(b.len())
    }
    fn flush(&mut self) -> std::io::Result<()> {
        Ok(())
    }
}

#[derive(Debug, Clone, PartialEq, Eq)]
struct Obs {
    /// what each segment is (for messages and signatures; filled for expected observations only)
    classes: Vec<String>,
    /// the `;`-terminated output segments, whitespace removed
    reads: Vec<String>,
    /// "" = ran to the end; `EG`, `EP`, `E:<title>` a fatal error; `PANIC:<where>`
    end: String,
    /// pending-`\global` flag after a normal end (`Local`/`Global`), "" otherwise
    bit: String,
}

fn run_real(src: &str) -> Obs {
    let buf = Rc::new(RefCell::new(Vec::<u8>::new()));
    let buf2 = buf.clone();
    let r = caught(move || {
        let mut cmds = texlang_stdlib::built_in_commands::<StdLibState>();
        cmds.insert("nullfont", command::BuiltIn::new_font(types::Font::NULL_FONT));
        cmds.insert("fA", command::BuiltIn::new_font(types::Font(1)));
        cmds.insert("fB", command::BuiltIn::new_font(types::Font(2)));
        cmds.insert("fC", command::BuiltIn::new_font(types::Font(3)));
        cmds.insert("rd", command::BuiltIn::new_expansion(rd_fn));
        cmds.insert("curfont", command::BuiltIn::new_expansion(curfont_fn));
        let mut vm = VM::<StdLibState>::new_with_built_in_commands(cmds);
        vm.push_source("c01.tex", src).unwrap();
        texlang_stdlib::script::set_io_writer(&mut vm, SharedBuf(buf2));
        match texlang_stdlib::script::run(&mut vm) {
            Ok(()) => {
                let v = serde_json::to_value(&vm.state.prefix).unwrap();
                let bit = v.get("scope").and_then(|s| s.as_str()).unwrap_or("?").to_string();
                (String::new(), bit)
            }
            Err(e) => {
                let t = e.error.title();
                let code = if t.contains("no group to end") {
                    "EG".to_string()
                } else if t.contains("cannot be prefixed by") {
                    "EP".to_string()
                } else {
                    format!("E:{t}")
                };
                (code, String::new())
            }
        }
    });
    let out = String::from_utf8_lossy(&buf.borrow()).to_string();
    let mut reads: Vec<String> = out.split(';').map(|s| s.chars().filter(|c| !c.is_whitespace()).collect()).collect();
    reads.pop(); // what follows the last `;` (end-of-line character, nothing)
    match r {
        Ok((end, bit)) => Obs { classes: vec![], reads, end, bit },
        Err(p) => Obs { classes: vec![], reads, end: format!("PANIC:{}", strip_msg(&p)), bit: String::new() },
    }
}

// ------------------------------------------------------------------------------------------
// Expected observations from the driver's words
// ------------------------------------------------------------------------------------------

struct C01 {
    defaults: HashMap<(i64, i64), String>,
    programs: u64,
    exhaustive: u64,
    reads_compared: u64,
}

fn fmt_val(kind: i64, x: i64) -> String {
    match kind {
        1 | 2 => format!("{x}.0pt"),
        _ => format!("{x}"),
    }
}

impl C01 {
    /// The initial value of a variable, as printed by `\the` on a fresh VM.
    fn default_of(&mut self, kind: i64, idx: i64) -> String {
        if let Some(s) = self.defaults.get(&(kind, idx)) {
            return s.clone();
        }
        let o = run_real(&format!("\\the {};", var_tex(kind, idx)));
        let s = o.reads.first().cloned().unwrap_or_else(|| "<no default>".into());
        self.defaults.insert((kind, idx), s.clone());
        s
    }

    /// Turn the driver's output words into the expected observation.
    fn expected(&mut self, ops: &[Op], words: &str) -> Obs {
        let mut reads = vec![];
        let mut classes = vec![];
        let mut end = String::new();
        for (op, w) in ops.iter().zip(words.split_ascii_whitespace()) {
            match w {
                // a character / a written name that begins or ends a group or selects a font: an empty segment
                "u" if matches!(op, Op::Chr { .. } | Op::Exec { .. }) => {
                    reads.push(String::new());
                    classes.push(target_class(op));
                    continue;
                }
                "u" | "sk" => continue,
                "EG" | "EP" => {
                    end = w.to_string();
                    break;
                }
                "PANIC" => {
                    end = "PANIC:model".into();
                    break;
                }
                _ => {}
            }
            let s = match *op {
                Op::ReadVar { kind, idx } => {
                    let kind = kind % 10;
                    if w == "d" {
                        self.default_of(kind, idx)
                    } else {
                        fmt_val(kind, w[1..].parse().unwrap())
                    }
                }
                Op::ReadCmd { .. } => {
                    let (h, rest) = w.split_at(1);
                    match h {
                        "?" => "?".to_string(),
                        "m" | "M" | "F" => w.to_string(),
                        "c" => w.to_string(),
                        "t" => {
                            let code: u32 = rest.parse().unwrap();
                            format!("t{}:{}", (code % 256) as u8 as char, code / 256)
                        }
                        "P" => "P".to_string(),
                        "v" => {
                            // v<kind>.<idx>=<d|x>
                            let (ki, val) = rest.split_once('=').unwrap();
                            let (k, i) = ki.split_once('.').unwrap();
                            let (k, i): (i64, i64) = (k.parse().unwrap(), i.parse().unwrap());
                            if val == "d" {
                                format!("v{}", self.default_of(k, i))
                            } else {
                                format!("v{}", fmt_val(k, val.parse().unwrap()))
                            }
                        }
                        _ => format!("<bad word {w}>"),
                    }
                }
                Op::ReadFont => w.to_string(),
                // a typeset character: `t<char + 256 * catcode>`
                Op::Chr { .. } | Op::Exec { .. } if w.starts_with('t') => {
                    ((w[1..].parse::<u32>().unwrap() % 256) as u8 as char).to_string()
                }
                _ => format!("<unexpected word {w}>"),
            };
            reads.push(s);
            classes.push(target_class(op));
        }
        Obs { classes, reads, end, bit: String::new() }
    }
}

fn target_class(op: &Op) -> String {
    match *op {
        Op::ReadVar { kind, .. } => KIND_NAMES[(kind % 10) as usize].to_string(),
        Op::ReadCmd { tk, .. } => if tk == 0 { "control sequence" } else { "active character" }.to_string(),
        Op::ReadFont => "current font".to_string(),
        Op::Chr { .. } => "character (group delimiter or typeset, by its category code)".to_string(),
        Op::Exec { .. } => "name used as a command (alias of a character token / font selector)".to_string(),
        _ => "?".into(),
    }
}

/// First difference between what the real code printed and what was expected.
fn diff(ops: &[Op], real: &Obs, want: &Obs) -> Option<(String, String)> {
    let _ = ops;
    let n = real.reads.len().min(want.reads.len());
    for i in 0..n {
        if real.reads[i] != want.reads[i] {
            let cls = want.classes.get(i).cloned().unwrap_or_default();
            return Some((
                format!("wrong value read: {cls}"),
                format!("read #{i} ({cls}): real `{}`, expected `{}`", real.reads[i], want.reads[i]),
            ));
        }
    }
    if real.end != want.end || real.reads.len() != want.reads.len() {
        let class = |e: &str| -> String {
            if e.is_empty() {
                "ok".into()
            } else if e.starts_with("E:") {
                "other error".into()
            } else if e.starts_with("PANIC") {
                "panic".into()
            } else {
                e.to_string()
            }
        };
        return Some((
            format!("wrong outcome: real {}, expected {}", class(&real.end), class(&want.end)),
            format!(
                "real ended `{}` after {} reads, expected `{}` after {} reads",
                real.end,
                real.reads.len(),
                want.end,
                want.reads.len()
            ),
        ));
    }
    None
}

// ------------------------------------------------------------------------------------------
// Tags
// ------------------------------------------------------------------------------------------

#[derive(Clone, Copy, PartialEq, Eq, Hash, PartialOrd, Ord, Debug)]
enum Tgt {
    Var(i64, i64),
    Cmd(i64, i64),
    Font,
}

fn op_target(op: &Op) -> Option<Tgt> {
    match *op {
        Op::Assign { kind, idx, .. } => Some(Tgt::Var(kind, idx)),
        Op::Define { tk, tn, .. } => Some(Tgt::Cmd(tk, tn)),
        Op::Font { .. } => Some(Tgt::Font),
        _ => None,
    }
}

fn tags(ops: &[Op], annots: &str, spec_words: &str, out: &mut CaseOutcome) -> bool {
    let ann: Vec<&str> = annots.split_ascii_whitespace().collect();
    let words: Vec<&str> = spec_words.split_ascii_whitespace().collect();
    // per open group: targets assigned locally / globally in it
    let mut stack: Vec<(BTreeSet<Tgt>, BTreeSet<Tgt>)> = vec![];
    let mut t: BTreeSet<String> = BTreeSet::new();
    let mut assigned_in_group = false;
    let mut nontrivial = false;
    for (i, op) in ops.iter().enumerate() {
        let a_full = ann.get(i).copied().unwrap_or("-");
        if a_full.starts_with('D') {
            break;
        }
        let (a, aliases) = a_full.split_once(':').unwrap_or((a_full, ""));
        let n_aliases = aliases.split(',').filter(|x| !x.is_empty()).count();
        match *op {
            Op::Assign { pre, kind, .. } if pre / 10 % 10 >= 2 => {
                t.insert(if n_aliases == 0 {
                    "alias:requested-but-none-defined(direct name used)".to_string()
                } else {
                    format!(
                        "assign-via-alias:{}:{}{}",
                        KIND_NAMES[kind as usize],
                        a,
                        if pre / 10 % 10 == 3 { ":\\multiply+\\advance" } else { "" }
                    )
                });
                if n_aliases >= 2 {
                    t.insert("alias:several-aliases-of-one-register".into());
                }
            }
            Op::Assign { kind, .. } if n_aliases > 0 => {
                t.insert(format!("assign-direct-while-aliased:{}:{}", KIND_NAMES[kind as usize], a));
            }
            Op::ReadVar { kind, .. } if kind >= 10 && n_aliases > 0 => {
                t.insert("read:variable-via-alias".into());
            }
            _ => {}
        }
        let depth = stack.len();
        // surface items: what they turned out to be (annotation of the driver)
        let brace = |c: i64| c == 123 || c == 125;
        let eff: Option<Op> = match *op {
            Op::Chr { c } => {
                t.insert(format!(
                    "item:character:{}:{}",
                    if brace(c) { "brace" } else { "bracket" },
                    match a {
                        "B" => "begins-group",
                        "Z" => "ends-group",
                        _ => "typeset",
                    }
                ));
                match a {
                    "B" => Some(Op::Begin),
                    "Z" => Some(Op::End),
                    _ => None,
                }
            }
            Op::Exec { .. } => {
                t.insert(format!(
                    "item:name-as-command:{}",
                    match a {
                        "B" => "alias-of-begin-group-token",
                        "Z" => "alias-of-end-group-token",
                        "T" => "alias-of-other-character",
                        "F" => "alias-of-font-selector",
                        _ => "other-meaning(not written)",
                    }
                ));
                match a {
                    "B" => Some(Op::Begin),
                    "Z" => Some(Op::End),
                    "F" => Some(Op::Font { pre: 0, f: 0 }),
                    _ => None,
                }
            }
            Op::LetChr { pre, tk, tn, c } => {
                t.insert(format!("item:let-to-character:{}", if brace(c) { "brace" } else { "bracket" }));
                Some(Op::Define { pre, tk, tn, dk: 6, a: 65, b: 0 })
            }
            o => Some(o),
        };
        let Some(op) = eff.as_ref() else { continue };
        match *op {
            Op::Begin => {
                stack.push(Default::default());
                t.insert("op:{".into());
            }
            Op::End => {
                t.insert("op:}".into());
                match stack.pop() {
                    None => {
                        t.insert("end-group:none-open(fatal)".into());
                    }
                    Some((l, g)) => {
                        if !l.is_empty() {
                            t.insert("end-group:undoes-local".into());
                        }
                        if !g.is_empty() {
                            t.insert("end-group:keeps-global".into());
                        }
                        if l.is_empty() && g.is_empty() {
                            t.insert("end-group:empty".into());
                        }
                    }
                }
            }
            Op::Assign { .. } | Op::Define { .. } | Op::Font { .. } => {
                let tgt = op_target(op).unwrap();
                if let Op::Assign { pre, kind, .. } = *op {
                    if pre / 10 % 10 == 1 {
                        t.insert(format!("assign-via-\\multiply+\\advance:{}", KIND_NAMES[kind as usize]));
                    }
                }
                let (name, pre) = match *op {
                    Op::Assign { kind, idx, pre, .. } => {
                        let pre = pre % 10;
                        if kind == 6 {
                            (format!("assign:{}", PARAM_NAMES[idx as usize]), pre)
                        } else {
                            (format!("assign:{}", KIND_NAMES[kind as usize]), pre)
                        }
                    }
                    Op::Define { dk, tk, pre, .. } => {
                        if pre / 10 != 0 {
                            let run = prefix_run(pre).unwrap_or_default();
                            let has_g = run.contains(&1);
                            let has_lo = run.iter().any(|&x| x != 1);
                            t.insert(
                                match (has_g, has_lo) {
                                    (false, _) => "prefix-run:\\long/\\outer only",
                                    (true, false) => "prefix-run:\\global only",
                                    (true, true) if run[0] == 1 => "prefix-run:\\global first, then \\long/\\outer",
                                    (true, true) if *run.last().unwrap() == 1 => "prefix-run:\\global last, after \\long/\\outer",
                                    (true, true) => "prefix-run:\\global between \\long/\\outer",
                                }
                                .into(),
                            );
                        }
                        (format!("{}:{}", DEF_NAMES[dk as usize], if tk == 0 { "cs" } else { "active" }), pre % 10)
                    }
                    Op::Font { pre, .. } => {
                        if pre >= 10 {
                            t.insert("font-selector-via-\\let-alias".into());
                        }
                        ("font-selector".to_string(), pre % 10)
                    }
                    _ => unreachable!(),
                };
                let d = match depth {
                    0 => "depth0",
                    1 => "depth1",
                    _ => "depth2+",
                };
                t.insert(format!("{name}:{a}:{d}"));
                if pre >= 2 {
                    t.insert("prefix:\\global repeated".into());
                }
                if a == "G" && pre == 0 && !matches!(op, Op::Define { dk: 1, .. }) {
                    t.insert("scope:global-by-globaldefs>0".into());
                }
                if a == "L" && pre > 0 {
                    t.insert("scope:\\global-overridden-by-globaldefs<0".into());
                }
                if a == "N" {
                    t.insert("finding-C01-d:let-from-undefined-name".into());
                }
                if depth > 0 {
                    assigned_in_group = true;
                }
                if a == "G" {
                    if depth >= 2 {
                        t.insert("global:at-depth>=2".into());
                    }
                    if let Some(top) = stack.last() {
                        if top.0.contains(&tgt) {
                            t.insert("same-group:local-then-global".into());
                        }
                    }
                    if stack.iter().rev().skip(1).any(|g| g.0.contains(&tgt)) {
                        t.insert("global:purges-outer-group-entry".into());
                    }
                    // a global assignment is in effect for every open group
                    for g in stack.iter_mut() {
                        g.0.remove(&tgt);
                        g.1.insert(tgt);
                    }
                } else if a == "L" {
                    if let Some(top) = stack.last_mut() {
                        if top.1.contains(&tgt) && !top.0.contains(&tgt) {
                            t.insert("same-group:global-then-local".into());
                        }
                        if top.0.contains(&tgt) {
                            t.insert("same-group:local-twice".into());
                        }
                        top.0.insert(tgt);
                    }
                }
            }
            Op::ReadVar { .. } | Op::ReadCmd { .. } | Op::ReadFont => {
                if assigned_in_group {
                    nontrivial = true;
                }
                let w = words.get(i).copied().unwrap_or("");
                let k = match w.chars().next() {
                    Some('d') => "read:variable-initial-value",
                    Some('i') => "read:variable",
                    Some('?') => "read:undefined-command",
                    Some('m') => "read:macro",
                    Some('c') => "read:chardef",
                    Some('M') => "read:mathchardef",
                    Some('v') => "read:register-alias",
                    Some('t') => "read:let-char",
                    Some('F') => "read:font-selector-alias",
                    Some('P') => "read:primitive-alias",
                    Some('f') => "read:current-font",
                    _ => "read:?",
                };
                t.insert(k.into());
            }
            Op::Chr { .. } | Op::Exec { .. } | Op::LetChr { .. } => {}
        }
    }
    if let Some(d) = ann.last().and_then(|a| a.strip_prefix('D')) {
        let d: usize = d.parse().unwrap_or(0);
        t.insert(format!("maxdepth:{}", if d >= 5 { "5-8".to_string() } else { d.to_string() }));
    }
    for x in t {
        out.tag(x);
    }
    nontrivial
}

// ------------------------------------------------------------------------------------------
// Generators
// ------------------------------------------------------------------------------------------

/// An abstract target with a way to assign it value number `j` (0/1) locally or globally.
#[derive(Clone, Copy, Debug)]
enum GT {
    Var(i64, i64),
    /// command target defined by primitive `style`: 0 `\def`, 1 `\def`/`\gdef` for global, 2 `\chardef`,
    /// 3 `\countdef` (registers 1/2), 4 `\let`=char, 5 `\mathchardef`, 6 `\toksdef`, 7 `\let`=font selector,
    /// 8 `\let` = `\ta`/`\tb`… (other targets), 9 `\long[\global]\def`, 10 `\outer[\global]\long\def`
    Cmd(i64, i64, i64),
    Font,
}

fn gt_value(kind: i64, idx: i64, j: i64) -> i64 {
    match kind {
        4 => [11, 12, 7, 8][j as usize % 4],
        5 => 100 + j,
        6 if idx == 1 => [-1, 13, 65, 32][j as usize % 4],
        6 if idx == 0 => [0, 1, -1, 0][j as usize % 4],
        _ => 5 + j,
    }
}

fn gt_assign(t: GT, j: i64, global: bool) -> Op {
    let pre = if global { 1 } else { 0 };
    match t {
        GT::Var(kind, idx) => Op::Assign { pre, kind, idx, val: gt_value(kind, idx, j) },
        GT::Font => Op::Font { pre, f: 1 + j },
        GT::Cmd(tk, tn, style) => match style {
            0 => Op::Define { pre, tk, tn, dk: 0, a: 1 + j, b: 0 },
            1 => Op::Define { pre: 0, tk, tn, dk: if global { 1 } else { 0 }, a: 1 + j, b: 0 },
            2 => Op::Define { pre, tk, tn, dk: 2, a: 65 + j, b: 0 },
            3 => Op::Define { pre, tk, tn, dk: 4, a: 1 + j, b: 0 },
            4 => Op::Define { pre, tk, tn, dk: 6, a: 88 + j, b: 0 },
            5 => Op::Define { pre, tk, tn, dk: 3, a: 300 + j, b: 0 },
            6 => Op::Define { pre, tk, tn, dk: 5, a: 1 + j, b: 0 },
            7 => Op::Define { pre, tk, tn, dk: 8, a: 1 + j, b: 0 },
            8 => Op::Define { pre, tk, tn, dk: 9, a: 0, b: 4 + j },
            // `\long\def` / `\long\global\def`
            9 => Op::Define { pre: run_code(if global { &[2, 1] } else { &[2] }), tk, tn, dk: 0, a: 1 + j, b: 0 },
            // `\outer\long\def` / `\outer\global\long\def`
            _ => Op::Define { pre: run_code(if global { &[3, 1, 2] } else { &[3, 2] }), tk, tn, dk: 0, a: 1 + j, b: 0 },
        },
    }
}

fn gt_read(t: GT) -> Op {
    match t {
        GT::Var(kind, idx) => Op::ReadVar { kind, idx },
        GT::Cmd(tk, tn, _) => Op::ReadCmd { tk, tn },
        GT::Font => Op::ReadFont,
    }
}

/// Ops placed before an exhaustive / random program so that aliases have distinguishable values.
fn setup_ops() -> Vec<Op> {
    vec![
        Op::Assign { pre: 0, kind: 0, idx: 1, val: 11 },
        Op::Assign { pre: 0, kind: 0, idx: 2, val: 12 },
        Op::Assign { pre: 0, kind: 3, idx: 1, val: 31 },
        Op::Assign { pre: 0, kind: 3, idx: 2, val: 32 },
        Op::Define { pre: 0, tk: 0, tn: 4, dk: 0, a: 44, b: 0 },
        Op::Define { pre: 0, tk: 0, tn: 5, dk: 2, a: 90, b: 0 },
    ]
}

fn exhaustive_pairs() -> Vec<(&'static str, GT, GT, bool)> {
    vec![
        ("count,count", GT::Var(0, 1), GT::Var(0, 2), false),
        ("cs-def,cs-def", GT::Cmd(0, 0, 0), GT::Cmd(0, 1, 0), false),
        ("active-def,active-def", GT::Cmd(1, 0, 0), GT::Cmd(1, 1, 0), false),
        ("font,count", GT::Font, GT::Var(0, 1), false),
        ("active-gdef,cs-chardef", GT::Cmd(1, 0, 1), GT::Cmd(0, 0, 2), false),
        ("catcode c, catcode c+256", GT::Var(4, 124), GT::Var(4, 380), false),
        ("toks,dimen", GT::Var(3, 1), GT::Var(1, 1), false),
        ("skip,catcode", GT::Var(2, 3), GT::Var(4, 124), false),
        ("globaldefs,count", GT::Var(6, 0), GT::Var(0, 1), false),
        ("countdef,count", GT::Cmd(0, 0, 3), GT::Var(0, 1), true),
        ("active-let-char,cs-let-cs", GT::Cmd(1, 1, 4), GT::Cmd(0, 1, 8), true),
        ("mathcode,endlinechar", GT::Var(5, 33), GT::Var(6, 1), false),
        ("cs-mathchardef,active-toksdef", GT::Cmd(0, 2, 5), GT::Cmd(1, 0, 6), true),
        ("cs-let-font,year", GT::Cmd(0, 3, 7), GT::Var(6, 2), false),
        ("cs-long-def,active-outer-long-def", GT::Cmd(0, 0, 9), GT::Cmd(1, 0, 10), false),
        ("count i, count i+256", GT::Var(0, 1), GT::Var(0, 257), false),
        ("mathcode c, mathcode c+65536", GT::Var(5, 33), GT::Var(5, 65569), false),
        ("catcode U+10FFFE, catcode U+10FFFE-65536", GT::Var(4, 0x10FFFE), GT::Var(4, 0x10FFFE - 65536), false),
        ("dimen i, dimen i+512", GT::Var(1, 2), GT::Var(1, 514), false),
    ]
}

fn alphabet(t1: GT, t2: GT) -> Vec<Op> {
    let mut a = vec![Op::Begin, Op::End];
    for t in [t1, t2] {
        for j in 0..2 {
            for g in [false, true] {
                a.push(gt_assign(t, j, g));
            }
        }
    }
    a
}

fn all_seqs(n: usize, len: usize) -> Vec<Vec<usize>> {
    let mut out: Vec<Vec<usize>> = vec![vec![]];
    for _ in 0..len {
        let mut next = Vec::with_capacity(out.len() * n);
        for s in &out {
            for i in 0..n {
                let mut s2 = s.clone();
                s2.push(i);
                next.push(s2);
            }
        }
        out = next;
    }
    out
}

struct Pool {
    vars: Vec<(i64, i64)>,
    cmds: Vec<(i64, i64)>,
}

fn random_program(r: &mut Rng) -> Vec<Op> {
    // a small pool of hot targets so that the same target is hit again and again
    let all_vars: Vec<(i64, i64)> = vec![
        (0, 1), (0, 2), (0, 300), (1, 1), (1, 2), (2, 1), (2, 9), (3, 1), (3, 2), (3, 255), (4, 124), (4, 33), (5, 58), (5, 124),
        (6, 1), (6, 2), (6, 3), (0, 32767), (0, 0), (3, 0), (1, 0), (2, 32767), (4, 380), (4, 65660), (5, 289), (4, 0x10FFFE), (5, 0x10FF00), (0, 257), (1, 256),
    ];
    let all_cmds: Vec<(i64, i64)> = vec![(0, 0), (0, 1), (0, 2), (0, 3), (1, 0), (1, 1)];
    let mut pool = Pool { vars: vec![], cmds: vec![] };
    for _ in 0..r.range(1, 3) {
        pool.vars.push(*r.pick(&all_vars));
    }
    if r.chance(1, 3) {
        // congruence mode: variables of one kind whose indices differ by multiples of 256 / 65536 (any key that
        // keeps only part of the index confuses them), hot together in the same groups
        let kind = *r.pick(&[0i64, 1, 2, 4, 4, 5]);
        let (base, max) = match kind {
            0..=2 => (*r.pick(&[0i64, 1, 2, 44, 255]), 32767i64),
            _ => (*r.pick(&[124i64, 33, 58, 380, 200, 255]), 0x10FFFEi64),
        };
        pool.vars.clear();
        pool.vars.push((kind, base));
        for _ in 0..r.range(1, 3) {
            let step = *r.pick(&[256i64, 256, 512, 65536, 65536 + 256, 0x100000, 4096]);
            let idx = base + step * r.range(1, 3);
            let idx = if idx > max { base + 256 * r.range(1, 100) } else { idx };
            if var_ok(kind, idx) && !pool.vars.contains(&(kind, idx)) {
                pool.vars.push((kind, idx));
            }
        }
        if kind >= 4 && r.chance(1, 2) {
            pool.vars.push((kind, 0x10FFFE - 256 * r.range(0, 2)));
        }
    }
    for _ in 0..r.range(1, 3) {
        pool.cmds.push(*r.pick(&all_cmds));
    }
    // alias mode: registers are addressed through `\countdef` / `\toksdef` names as often as directly
    let alias_mode = r.chance(1, 2);
    if alias_mode && !pool.vars.iter().any(|v| v.0 == 0 || v.0 == 3) {
        pool.vars.push(*r.pick(&[(0, 1), (0, 2), (3, 1), (0, 300), (3, 255)]));
    }
    let alias_num: u64 = if alias_mode { 4 } else { 1 }; // of 6
    // delimiter mode: characters and names whose role as group delimiters depends on scoped state
    let delim_mode = r.chance(1, 4);
    let mut last_alias: Option<(i64, i64)> = None; // the last name \let to a character or a font selector
    let use_globaldefs = r.chance(1, 4);
    let use_font = r.chance(1, 2);
    let len = r.range(8, 60) as usize;
    let maxdepth = r.range(1, 8) as usize;
    let global_bias = r.range(2, 6) as u64; // of 10
    let mut ops = if r.chance(1, 2) { setup_ops() } else { vec![] };
    if alias_mode {
        // one or two aliases per count / toks register of the pool, defined at the outer level
        let regs: Vec<(i64, i64)> = pool.vars.iter().copied().filter(|v| v.0 == 0 || v.0 == 3).collect();
        for (k, i) in regs {
            for _ in 0..r.range(1, 2) {
                let (tk, tn) = if r.chance(2, 3) { *r.pick(&pool.cmds) } else { *r.pick(&all_cmds) };
                if !pool.cmds.contains(&(tk, tn)) {
                    pool.cmds.push((tk, tn));
                }
                ops.push(Op::Define { pre: 0, tk, tn, dk: if k == 0 { 4 } else { 5 }, a: i, b: 0 });
            }
        }
    }
    let mut depth = 0usize;
    let mut last: Option<Op> = None; // the last assignment, to repeat its target
    let pick_pre = |r: &mut Rng| -> i64 {
        if r.below(10) < global_bias {
            if r.chance(1, 12) {
                r.range(2, 3)
            } else {
                1
            }
        } else {
            0
        }
    };
    let reads_for = |pool: &Pool, use_font: bool, r: &mut Rng, ops: &mut Vec<Op>, all: bool| {
        for &(k, i) in &pool.vars {
            if all || r.chance(1, 3) {
                ops.push(Op::ReadVar { kind: k, idx: i });
            }
            if (k == 0 || k == 3) && r.chance(alias_num, 12) {
                ops.push(Op::ReadVar { kind: k + 10 * r.range(1, 4), idx: i });
            }
        }
        for &(tk, tn) in &pool.cmds {
            if all || r.chance(1, 3) {
                ops.push(Op::ReadCmd { tk, tn });
            }
        }
        if use_font && (all || r.chance(1, 3)) {
            ops.push(Op::ReadFont);
        }
    };
    while ops.len() < len {
        if delim_mode && r.chance(1, 3) {
            let (tk, tn) = *r.pick(&pool.cmds);
            match r.below(10) {
                0..=3 => {
                    ops.push(Op::Chr { c: *r.pick(&DELIMS) });
                    let all = r.chance(1, 2);
                    reads_for(&pool, use_font, r, &mut ops, all);
                }
                4 => ops.push(Op::Assign { pre: pick_pre(r), kind: 4, idx: *r.pick(&[91, 93]), val: *r.pick(&[1, 2, 2, 1, 12, 11]) }),
                5 => {
                    // a name \let to a font selector, to be used as a command later
                    ops.push(Op::Define { pre: pick_pre(r), tk, tn, dk: 8, a: r.range(0, 3), b: 0 });
                    last_alias = Some((tk, tn));
                }
                6 | 7 => {
                    ops.push(Op::LetChr { pre: pick_pre(r), tk, tn, c: *r.pick(&DELIMS) });
                    last_alias = Some((tk, tn));
                    if r.chance(1, 2) {
                        ops.push(Op::ReadCmd { tk, tn });
                    }
                }
                _ => {
                    let (tk, tn) = match last_alias {
                        Some(x) if r.chance(3, 4) => x,
                        _ => (tk, tn),
                    };
                    ops.push(Op::Exec { tk, tn });
                    let all = r.chance(1, 2);
                    reads_for(&pool, use_font, r, &mut ops, all);
                }
            }
            continue;
        }
        let c = r.below(100);
        if c < 14 && depth < maxdepth {
            ops.push(Op::Begin);
            depth += 1;
        } else if c < 26 && depth > 0 {
            ops.push(Op::End);
            depth -= 1;
            let all = r.chance(2, 3);
            reads_for(&pool, use_font, r, &mut ops, all);
        } else if c < 27 && depth == 0 && r.chance(1, 40) {
            ops.push(Op::End); // stray `}`: fatal error, the rest is not run
        } else if c < 60 {
            // assignment to a variable
            let (kind, idx) = match last {
                Some(Op::Assign { kind, idx, .. }) if r.chance(1, 2) => (kind, idx),
                _ => *r.pick(&pool.vars),
            };
            let val = match kind {
                4 => *r.pick(&CATCODE_VALUES),
                5 => r.range(0, 32767),
                6 if idx == 1 => *r.pick(&ENDLINECHAR_VALUES),
                1 | 2 => r.range(-99, 99),
                0 if r.chance(1, 10) => interesting_i32(r).max(-2147483647) as i64,
                _ => r.range(-99, 99),
            };
            let mut pre = pick_pre(r);
            if (kind == 0 || kind == 3) && r.chance(alias_num, 6) {
                // through one of the names that currently alias the register
                pre += 20 + 100 * r.range(0, 3);
                if kind == 0 && r.chance(1, 4) {
                    pre += 10;
                }
            } else if kind <= 2 && r.chance(1, 5) {
                pre += 10;
            }
            let op = Op::Assign { pre, kind, idx, val };
            ops.push(op);
            last = Some(op);
            if r.chance(1, 2) {
                let via = if (kind == 0 || kind == 3) && r.chance(alias_num, 8) { 10 * r.range(1, 4) } else { 0 };
                ops.push(Op::ReadVar { kind: kind + via, idx });
            }
        } else if c < 88 {
            // definition
            let (tk, tn) = match last {
                Some(Op::Define { tk, tn, .. }) if r.chance(1, 2) => (tk, tn),
                _ => *r.pick(&pool.cmds),
            };
            let dk = if alias_mode && r.chance(1, 3) {
                *r.pick(&[4, 4, 5, 9])
            } else {
                *r.pick(&[0, 0, 0, 1, 1, 2, 2, 3, 4, 4, 5, 6, 7, 8, 9, 9])
            };
            let (a, b) = match dk {
                0 | 1 => (r.range(0, 99), 0),
                2 | 6 => (r.range(65, 90), 0),
                3 => (r.range(0, 32767), 0),
                4 => {
                    if r.chance(2, 3) && !pool.vars.is_empty() {
                        (pool.vars.iter().find(|v| v.0 == 0).map(|v| v.1).unwrap_or(1), 0)
                    } else {
                        (r.range(1, 2), 0)
                    }
                }
                5 => {
                    if r.chance(2, 3) {
                        (pool.vars.iter().find(|v| v.0 == 3).map(|v| v.1).unwrap_or(1), 0)
                    } else {
                        (r.range(1, 2), 0)
                    }
                }
                7 => (0, 0),
                8 => (r.range(0, 3), 0),
                _ => {
                    // `\let` from another target of the pool, or from an always-defined name
                    if r.chance(2, 3) {
                        *r.pick(&pool.cmds)
                    } else {
                        (0, r.range(4, 5))
                    }
                }
            };
            let mut pre = pick_pre(r);
            if (dk == 0 || dk == 1) && r.chance(1, 2) {
                // any run of `\global` `\long` `\outer`, the `\global`s anywhere in it
                let mut run: Vec<u8> = (0..r.range(if pre == 0 { 1 } else { 0 }, 3)).map(|_| if r.chance(1, 2) { 2 } else { 3 }).collect();
                for _ in 0..pre.min(2) {
                    let at = r.below(run.len() as u64 + 1) as usize;
                    run.insert(at, 1);
                }
                pre = run_code(&run);
            }
            let op = Op::Define { pre, tk, tn, dk, a, b };
            ops.push(op);
            last = Some(op);
            if r.chance(1, 2) {
                ops.push(Op::ReadCmd { tk, tn });
            }
        } else if c < 94 && use_font {
            let mut pre = pick_pre(r);
            if r.chance(1, 4) {
                pre += 10;
            }
            ops.push(Op::Font { pre, f: r.range(0, 3) });
            if r.chance(1, 2) {
                ops.push(Op::ReadFont);
            }
        } else if c < 97 && use_globaldefs {
            let val = *r.pick(&[1, -1, 0, 0, 2, -7]);
            ops.push(Op::Assign { pre: if r.chance(1, 4) { 1 } else { 0 }, kind: 6, idx: 0, val });
            if r.chance(1, 2) {
                ops.push(Op::ReadVar { kind: 6, idx: 0 });
            }
        } else {
            reads_for(&pool, use_font, r, &mut ops, false);
        }
    }
    // close what is open, reading everything after each `}`
    if !r.chance(1, 10) {
        while depth > 0 {
            ops.push(Op::End);
            depth -= 1;
            reads_for(&pool, use_font, r, &mut ops, true);
        }
    }
    reads_for(&pool, use_font, r, &mut ops, true);
    if use_globaldefs {
        ops.push(Op::ReadVar { kind: 6, idx: 0 });
    }
    ops
}

// ------------------------------------------------------------------------------------------
// Property
// ------------------------------------------------------------------------------------------

impl Property for C01 {
    fn id(&self) -> &'static str {
        "C01"
    }

    fn rule(&self) -> String {
        "case = one TeX program (ops `{`, `}`, local/\\global assignments to \\count \\dimen \\skip \\toks \\catcode \\mathcode \
         \\endlinechar \\globaldefs \\year \\month, \\def \\gdef \\let \\countdef \\toksdef \\chardef \\mathchardef of control sequences \
         and active characters, font selectors, reads). Order: corpus files, built-in witnesses, exhaustive (every sequence up to length \
         4 (quick; 3 for the last 7 pairs) / 5 (thorough; 4 for the last 7 pairs) over 2 targets x 2 values x {local, global} + `{` + `}` \
         with both targets read after every op, for 19 pairs of target kinds (among them pairs of one kind whose indices are congruent mod 256 / 65536: \\count, \\dimen, \\catcode and \\mathcode up to U+10FFFE); and every sequence up to length 5 (quick) / 6 (thorough; 7 for \
         \\count) over 1 target x 2 values x {local, global} + `{` + `}` for 8 target kinds; every sequence up to length 5 (4) / 6 over 1 register x {direct name, alias} x {local, global} + `{` + `}` for \\count via \\countdef, \\toks via \\toksdef on an active character, \\count via \\multiply/\\advance; a `}` with no group open only as the last op), surface items (every sequence up to length 4 over 12 items, thorough also length 5 over 9 of them: `{ } [ ]`, local/global \\catcode of the brackets to 1/2/12, \\let of a name to a bracket, that name used as a command; \\count1 read and locally reassigned after each); random programs (8..60 ops + reads, depth <= 8, a pool of 2-6 hot targets (in a third of the programs: variables of one kind with indices congruent mod 256 / 65536, code tables over the whole character range), \
         20-60% of assignments \\global (1-3 times), half of the \\def/\\gdef with a random run of \\global \\long \\outer in any order, \\globaldefs assigned in a quarter of them; in half of them (alias mode) the \\count/\\toks registers of the pool get 1-2 aliases up front, more \\countdef/\\toksdef/\\let-copies during the run (local and global, redefined to other registers), and 2/3 of the assignments and many reads go through a current alias; in a quarter (delimiter mode) a third of the items are characters `{ } [ ]` typed as such, \\catcode assignments that make the brackets group delimiters or not, \\let of names to those characters, and names used as commands). Non-trivial: an assignment inside a group is \
         followed by a read."
            .into()
    }

    fn builtin_corpus(&self) -> Vec<String> {
        let a = |pre, idx, val| Op::Assign { pre, kind: 0, idx, val };
        let rd = |idx| Op::ReadVar { kind: 0, idx };
        let def = |pre, tk, tn, a| Op::Define { pre, tk, tn, dk: 0, a, b: 0 };
        let mut v = vec![
            // C01-a  \count1=1 {{\count1=2 \global\count1=3}}\the\count1
            vec![a(0, 1, 1), Op::Begin, Op::Begin, a(0, 1, 2), a(1, 1, 3), Op::End, rd(1), Op::End, rd(1)],
            // C01-b  \def~{A}{\def~{B}~}~
            vec![def(0, 1, 0, 1), Op::Begin, def(0, 1, 0, 2), Op::ReadCmd { tk: 1, tn: 0 }, Op::End, Op::ReadCmd { tk: 1, tn: 0 }],
            // C01-c  {\global\chardef\ta=65 }\ta   and \global\mathchardef
            vec![Op::Begin, Op::Define { pre: 1, tk: 0, tn: 0, dk: 2, a: 65, b: 0 }, Op::End, Op::ReadCmd { tk: 0, tn: 0 }],
            vec![Op::Begin, Op::Define { pre: 1, tk: 0, tn: 0, dk: 3, a: 7, b: 0 }, Op::End, Op::ReadCmd { tk: 0, tn: 0 }],
            // stray `}`
            vec![rd(1), Op::End, rd(1)],
            // \globaldefs
            vec![
                Op::Begin,
                Op::Assign { pre: 0, kind: 6, idx: 0, val: 1 },
                a(0, 1, 8),
                Op::Assign { pre: 0, kind: 6, idx: 0, val: -1 },
                a(1, 2, 9),
                Op::End,
                rd(1),
                rd(2),
                Op::ReadVar { kind: 6, idx: 0 },
            ],
        ];
        // one register under two names (seeded/C01-r3-1): \countdef\ta=5 {\ta=1 \global\count5=2}\the\count5, mirrored, \toksdef
        let cd = |dk, i| Op::Define { pre: 0, tk: 0, tn: 0, dk, a: i, b: 0 };
        let asg = |pre, kind, val| Op::Assign { pre, kind, idx: 5, val };
        v.push(vec![cd(4, 5), Op::Begin, asg(20, 0, 1), asg(1, 0, 2), Op::End, Op::ReadVar { kind: 0, idx: 5 }, Op::ReadVar { kind: 10, idx: 5 }]);
        v.push(vec![cd(4, 5), Op::Begin, asg(0, 0, 1), asg(21, 0, 2), Op::End, Op::ReadVar { kind: 0, idx: 5 }, Op::ReadVar { kind: 10, idx: 5 }]);
        v.push(vec![cd(5, 5), Op::Begin, Op::Begin, asg(20, 3, 1), asg(1, 3, 2), Op::End, Op::ReadVar { kind: 3, idx: 5 }, Op::End, Op::ReadVar { kind: 13, idx: 5 }]);
        v.push(vec![cd(4, 5), Op::Begin, asg(30, 0, 1), asg(11, 0, 2), Op::End, Op::ReadVar { kind: 0, idx: 5 }]);
        // surface items: `[` made a group delimiter inside a group only; `\let\ta=[` keeps the category code it
        // saw; `]` typeset; names used as commands; a stray `}`
        let cnt = |val| Op::Assign { pre: 0, kind: 0, idx: 1, val };
        let cat = |pre, idx, val| Op::Assign { pre, kind: 4, idx, val };
        let rc = Op::ReadVar { kind: 0, idx: 1 };
        v.push(vec![
            cnt(1), Op::Chr { c: 123 }, cat(0, 91, 1), Op::Chr { c: 91 }, cnt(2), Op::LetChr { pre: 1, tk: 0, tn: 0, c: 91 }, Op::Chr { c: 125 }, rc,
            Op::Chr { c: 125 }, Op::Chr { c: 91 }, Op::Exec { tk: 0, tn: 0 }, cnt(3), Op::Chr { c: 93 }, Op::Chr { c: 125 }, rc,
            Op::ReadCmd { tk: 0, tn: 0 }, Op::Chr { c: 125 }, Op::Exec { tk: 0, tn: 1 },
        ]);
        v.push(vec![cat(1, 91, 1), cat(0, 93, 2), cnt(1), Op::Chr { c: 91 }, cnt(2), cat(0, 93, 12), Op::Chr { c: 93 }, rc, Op::Chr { c: 125 }, rc, Op::Chr { c: 93 }, rc]);
        v.push(vec![
            Op::LetChr { pre: 0, tk: 1, tn: 0, c: 123 }, Op::LetChr { pre: 0, tk: 0, tn: 1, c: 125 }, cnt(1), Op::Exec { tk: 1, tn: 0 }, cnt(2),
            Op::LetChr { pre: 0, tk: 0, tn: 1, c: 93 }, Op::Exec { tk: 0, tn: 1 }, rc, Op::Chr { c: 125 }, rc, Op::Exec { tk: 0, tn: 1 }, rc,
        ]);
        v.push(vec![Op::Define { pre: 0, tk: 0, tn: 2, dk: 8, a: 2, b: 0 }, Op::Chr { c: 123 }, Op::Exec { tk: 0, tn: 2 }, Op::ReadFont, Op::Chr { c: 125 }, Op::ReadFont]);
        // every kind of target once: local in a group at depth 2, global at depth 2, read at every level
        let mut kinds: Vec<GT> = vec![GT::Font];
        for (k, i) in [(0, 1), (1, 1), (2, 1), (3, 1), (4, 124), (5, 124), (6, 1), (6, 2), (6, 3), (6, 0)] {
            kinds.push(GT::Var(k, i));
        }
        for tk in 0..2 {
            for style in 0..11 {
                kinds.push(GT::Cmd(tk, 0, style));
            }
        }
        for t in kinds {
            let mut p = setup_ops();
            p.extend([gt_assign(t, 0, false), Op::Begin, Op::Begin, gt_assign(t, 1, false), gt_read(t), gt_assign(t, 0, true), gt_read(t)]);
            p.extend([gt_assign(t, 1, false), gt_read(t), Op::End, gt_read(t), Op::End, gt_read(t)]);
            v.push(p);
        }
        v.iter().map(|p| enc(p)).collect()
    }

    fn generate(&mut self, ctx: &Ctx, rng: &mut Rng) -> Vec<String> {
        let mut cases = vec![];
        // exhaustive small scope
        let push_all = |alpha: &[Op], reads: &[Op], setup: bool, maxlen: usize, cases: &mut Vec<String>, count: &mut u64| {
            for len in 1..=maxlen {
                'seq: for s in all_seqs(alpha.len(), len) {
                    // a `}` with no group open ends the run: keep it only as the last op
                    let mut depth = 0i64;
                    for (k, &i) in s.iter().enumerate() {
                        match alpha[i] {
                            Op::Begin => depth += 1,
                            Op::End => {
                                depth -= 1;
                                if depth < 0 && k + 1 < s.len() {
                                    continue 'seq;
                                }
                            }
                            _ => {}
                        }
                    }
                    let mut p = if setup { setup_ops() } else { vec![] };
                    for i in s {
                        p.push(alpha[i]);
                        p.extend_from_slice(reads);
                    }
                    cases.push(enc(&p));
                    *count += 1;
                }
            }
        };
        // two targets
        for (pi, (_, t1, t2, setup)) in exhaustive_pairs().into_iter().enumerate() {
            let alpha = alphabet(t1, t2);
            let maxlen = match (ctx.thorough, pi < 7) {
                (true, true) => 5,
                (true, false) => 4,
                (false, true) => 4,
                (false, false) => 3,
            };
            push_all(&alpha, &[gt_read(t1), gt_read(t2)], setup, maxlen, &mut cases, &mut self.exhaustive);
        }
        // one target, deeper
        for (ti, t) in [GT::Var(0, 1), GT::Cmd(0, 0, 0), GT::Cmd(1, 0, 0), GT::Font, GT::Var(3, 1), GT::Cmd(1, 1, 2), GT::Cmd(0, 1, 9), GT::Cmd(1, 1, 10)].into_iter().enumerate() {
            let alpha: Vec<Op> = alphabet(t, t).into_iter().take(6).collect();
            let maxlen = match (ctx.thorough, ti < 1) {
                (true, true) => 7,
                (true, false) => 6,
                (false, _) => 5,
            };
            push_all(&alpha, &[gt_read(t)], false, maxlen, &mut cases, &mut self.exhaustive);
        }
        // one register addressed directly and through an alias: {direct, alias} x {local, global} + `{` `}`,
        // each of the four assignments with its own value, register read both ways after every op
        for (si, (kind, idx, tk, tn, arith)) in [(0i64, 1i64, 0i64, 0i64, false), (3, 1, 1, 0, false), (0, 2, 1, 1, true)].into_iter().enumerate() {
            let (sd, sa) = if arith { (10, 30) } else { (0, 20) };
            let alpha = vec![
                Op::Begin,
                Op::End,
                Op::Assign { pre: sd, kind, idx, val: 5 },
                Op::Assign { pre: sd + 1, kind, idx, val: 6 },
                Op::Assign { pre: sa, kind, idx, val: 7 },
                Op::Assign { pre: sa + 1, kind, idx, val: 8 },
            ];
            let maxlen = match (ctx.thorough, si) {
                (true, _) => 6,
                (false, 0) => 5,
                (false, _) => 4,
            };
            let before = cases.len();
            push_all(&alpha, &[Op::ReadVar { kind, idx }, Op::ReadVar { kind: kind + 10, idx }], false, maxlen, &mut cases, &mut self.exhaustive);
            // the alias is defined first, at the outer level
            let def = enc(&[Op::Define { pre: 0, tk, tn, dk: if kind == 0 { 4 } else { 5 }, a: idx, b: 0 }]);
            for c in cases[before..].iter_mut() {
                *c = format!("{} {}", def, c.strip_prefix("p ").unwrap_or(""));
            }
        }
        // surface items: which characters / names open and close groups is itself scoped state.
        // After every item: read \count1, then assign it the position (locally), so that every close shows.
        {
            let cat = |pre, idx, val| Op::Assign { pre, kind: 4, idx, val };
            let alpha = vec![
                Op::Chr { c: 123 },
                Op::Chr { c: 125 },
                Op::Chr { c: 91 },
                Op::Chr { c: 93 },
                cat(0, 91, 1),
                cat(0, 93, 2),
                Op::LetChr { pre: 0, tk: 0, tn: 0, c: 91 },
                Op::LetChr { pre: 1, tk: 0, tn: 0, c: 125 },
                Op::Exec { tk: 0, tn: 0 },
                cat(1, 91, 1),
                cat(0, 91, 12),
                Op::LetChr { pre: 0, tk: 0, tn: 0, c: 123 },
            ];
            // all 12 items up to length 4; thorough: also length 5 over the first 9
            for len in 1..=(if ctx.thorough { 5 } else { 4 }) {
                let n = if len == 5 { 9 } else { alpha.len() };
                for sq in all_seqs(n, len) {
                    let mut p = vec![];
                    for (k, i) in sq.into_iter().enumerate() {
                        p.push(alpha[i]);
                        p.push(Op::ReadVar { kind: 0, idx: 1 });
                        p.push(Op::Assign { pre: 0, kind: 0, idx: 1, val: 1 + k as i64 });
                    }
                    p.push(Op::ReadCmd { tk: 0, tn: 0 });
                    cases.push(enc(&p));
                    self.exhaustive += 1;
                }
            }
        }
        // random
        let n = if ctx.thorough { 150_000 } else { 6_000 };
        let mut r = rng.fork();
        for _ in 0..n {
            cases.push(enc(&random_program(&mut r)));
        }
        cases
    }

    fn run_case(&mut self, case: &str, drv: &mut Driver) -> CaseOutcome {
        let mut out = CaseOutcome::default();
        let Some(ops) = dec(case) else {
            out.fail(Kind::ImplVsModel, "case", "malformed case", format!("cannot decode `{case}`"));
            return out;
        };
        if !ops.iter().all(op_ok) {
            out.tag("skipped:not-renderable");
            return out;
        }
        self.programs += 1;
        let reply = drv.ask(case);
        let parts: Vec<&str> = reply.split(" | ").map(|s| s.trim()).collect();
        if parts.len() != 11 {
            out.fail(Kind::ImplVsModel, "driver", "driver rejected the case", format!("reply `{reply}`"));
            return out;
        }
        let annots: Vec<&str> = parts[1].split_ascii_whitespace().collect();
        let src = render(&ops, &annots);
        let real = run_real(&src);
        // S = TeX's own semantics (parts[10]); parts[0] is the same with finding C01-d built in (= M by theorem)
        let spec = self.expected(&ops, parts[10]);
        let undef_let = annots.iter().any(|a| *a == "N");
        let model = self.expected(&ops, parts[9]);
        self.reads_compared += real.reads.len() as u64;
        out.nontrivial = tags(&ops, parts[1], parts[0], &mut out);

        // S vs M (sanity: impossible while `vm_refines_run` holds)
        if parts[0] != parts[9] {
            out.fail(Kind::ModelVsSpec, "program", "model and spec differ", format!("S `{}` M `{}`", parts[0], parts[9]));
        }
        // `vm_refines_run_partial`: without a \let from an undefined name the two specifications coincide
        if !undef_let && parts[0] != parts[10] {
            out.fail(Kind::ModelVsSpec, "program", "TeX spec and code-compatible spec differ", format!("S `{}` TeX `{}`", parts[0], parts[10]));
        }
        // I vs S
        if let Some((sig, detail)) = diff(&ops, &real, &spec) {
            // is it exactly what the code did before one of the recorded repairs?
            let mut best: Option<(u32, usize)> = None;
            for v in 0..7usize {
                let want = self.expected(&ops, parts[2 + v]);
                if diff(&ops, &real, &want).is_none() {
                    let unfixed = 3 - (v as u32).count_ones();
                    if best.map(|b| unfixed < b.0).unwrap_or(true) {
                        best = Some((unfixed, v));
                    }
                }
            }
            let (kind, sig) = if undef_let && diff(&ops, &real, &model).is_none() {
                // exactly the model = TeX except for the recorded deviation, and the program did run such a \let
                (Kind::ImplVsSpec, "let from an undefined name keeps the old meaning".to_string())
            } else if let Some((_, v)) = best {
                let mut s = String::from("pre-fix:");
                for (bit, l) in [(0, 'a'), (1, 'b'), (2, 'c')] {
                    if v & (1 << bit) == 0 {
                        s.push(l);
                    }
                }
                (Kind::ImplVsSpec, s)
            } else if real.end.starts_with("PANIC") {
                (Kind::ImplPanic, format!("panic {}", real.end.trim_start_matches("PANIC:")))
            } else {
                (Kind::ImplVsSpec, sig)
            };
            out.fail(kind, "program", sig, format!("{detail}\n  TeX: {src}\n  real reads {:?} end `{}`\n  spec reads {:?} end `{}`", real.reads, real.end, spec.reads, spec.end));
        } else if let Some((sig, detail)) = diff(&ops, &real, &model) {
            out.fail(Kind::ImplVsModel, "program", sig, format!("{detail}\n  TeX: {src}"));
        }
        // the pending-\global flag is consumed by the assignment it prefixes
        if real.end.is_empty() && real.bit != "Local" {
            out.fail(
                Kind::ImplVsSpec,
                "scope-bit",
                "pending \\global flag still set at the end of the program",
                format!("prefix component scope = `{}` after\n  TeX: {src}", real.bit),
            );
        }
        out
    }

    fn shrink(&self, case: &str) -> Vec<String> {
        let Some(ops) = dec(case) else { return vec![] };
        let mut c = vec![];
        let n = ops.len();
        if n > 1 {
            c.push(enc(&ops[..n / 2]));
            c.push(enc(&ops[n / 2..]));
            for k in [8usize, 4, 2] {
                if n > k {
                    let mut i = 0;
                    while i + k <= n {
                        let mut o = ops[..i].to_vec();
                        o.extend_from_slice(&ops[i + k..]);
                        c.push(enc(&o));
                        i += k;
                    }
                }
            }
        }
        for i in 0..n {
            let mut o = ops.clone();
            o.remove(i);
            c.push(enc(&o));
        }
        // simplify single ops: drop a doubled prefix
        for i in 0..n {
            let mut o = ops.clone();
            match &mut o[i] {
                Op::Assign { pre, .. } | Op::Define { pre, .. } | Op::Font { pre, .. } if *pre == 2 || *pre == 3 => {
                    *pre = 1;
                    c.push(enc(&o));
                }
                Op::Define { pre, .. } if *pre >= 10 => {
                    // drop one prefix of the run; then the run altogether
                    let run = prefix_run(*pre).unwrap_or_default();
                    let keep = *pre;
                    for k in 0..run.len() {
                        let mut r2 = run.clone();
                        r2.remove(k);
                        let code = if r2.iter().all(|&x| x == 1) { r2.len() as i64 } else { run_code(&r2) };
                        if let Op::Define { pre, .. } = &mut o[i] {
                            *pre = code;
                        }
                        c.push(enc(&o));
                    }
                    if let Op::Define { pre, .. } = &mut o[i] {
                        *pre = keep;
                    }
                }
                Op::Assign { pre, .. } | Op::Font { pre, .. } if *pre >= 10 => {
                    *pre %= 10;
                    c.push(enc(&o));
                }
                Op::ReadVar { kind, .. } if *kind >= 10 => {
                    *kind %= 10;
                    c.push(enc(&o));
                }
                _ => {}
            }
        }
        c
    }

    fn extra_evidence(&self) -> Option<String> {
        Some(format!(
            "\"programs_run\": {}, \"exhaustive_programs\": {}, \"reads_compared\": {}",
            self.programs, self.exhaustive, self.reads_compared
        ))
    }
}

fn main() {
    if let Some(i) = std::env::args().position(|a| a == "--raw") {
        // debugging aid: run TeX source through the real runner
        let src = std::env::args().nth(i + 1).unwrap();
        install_panic_hook();
        println!("{:?}", run_real(&src));
        return;
    }
    if let Some(i) = std::env::args().position(|a| a == "--render") {
        let case = std::env::args().nth(i + 1).unwrap();
        println!("{}", render(&dec(&case).unwrap(), &[]));
        return;
    }
    run(C01 { defaults: HashMap::new(), programs: 0, exhaustive: 0, reads_compared: 0 });
}
