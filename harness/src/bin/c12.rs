//! C12 — typesetting a paragraph conserves its content and honours the geometry.
//!
//! Two case formats (one ASCII line each):
//!
//! * `L <ints>` — a hand-built horizontal list with every parameter (see `Inst::encode`), broken by
//!   the real `LineBreaker::break_line` (no hyphenator).
//! * `T <ints> | <text>` — a text over cmr10's characters, turned into a list by the real
//!   `TextPreprocessorImpl::add_text` (real lig/kern program of cmr10.tfm), then broken by the real
//!   `break_line` with or without the real plain-TeX hyphenator.
//!
//! * `P <ints> | <previous paragraph> | <text>` — as `T`, after the same preprocessor has typeset an earlier paragraph.
//! * `B <ints> | [<previous paragraph> |] <text>` — the text through the command line `box linebreak` (crates/boxworks-bin/src/box.rs)
//!   of the tree under test, built on first use into `/verif/.work/C12/boxbin-<hash>`; `D` — `plain_tex_defaults()` vs plain.tex.
//!
//! For every case the break positions are obtained from `break_line_all_attempts` on a copy of the
//! list; the list as `break_line` left it (paragraph end appended, possibly hyphenated), the break
//! positions and the decoded `Vec<ds::Vertical>` go to the Lean driver, which (M) runs the
//! transcription `postLineBreak`/`finishPar`/`baselineSkips`/`interWordGlue`, and (S) evaluates
//! `specVerdict` (reassembly, geometry, §890 penalties, no leading discardable) on the REAL lines
//! and TeX §1041–§1044 on the REAL inter-word glue.

use boxworks::ds;
use boxworks::{LineBreaker as _, TextPreprocessor as _};
use boxworks_knuthplass as kp;
use boxworks_text as bwt;
use common::{Glue, GlueOrder, Scaled};
use std::collections::HashMap;
use vh::*;

const CMR10: &str = "crates/tfm/corpus/computer-modern/cmr10.tfm";

// ------------------------------------------------------------------------------------------
// Font repositories and hyphenators
// ------------------------------------------------------------------------------------------

/// Hand-built lists: width = code·1000sp, height = code·300sp, depth = code·100sp.
struct Repo;
impl boxworks::FontRepo for Repo {
    fn width(&self, c: char, _font: u32) -> Option<Scaled> {
        Some(Scaled((c as u32 as i32) * 1000))
    }
    fn height(&self, c: char, _font: u32) -> Option<Scaled> {
        Some(Scaled((c as u32 as i32) * 300))
    }
    fn depth(&self, c: char, _font: u32) -> Option<Scaled> {
        Some(Scaled((c as u32 as i32) * 100))
    }
}
struct NoHyph;
impl boxworks::Hyphenator for NoHyph {
    fn hyphenate(&self, _list: &mut Vec<ds::Horizontal>) {}
}

// ------------------------------------------------------------------------------------------
// Cases
// ------------------------------------------------------------------------------------------

#[derive(Clone, Debug, PartialEq)]
enum El {
    Box(i64, i64),
    Kern(i64, i64),
}

#[derive(Clone, Debug, PartialEq)]
enum It {
    /// kind 0 char, 1 hbox, 2 rule, 3 ligature, 4 vbox; width in sp (chars: multiple of 1000)
    Box(i64, i64),
    /// kind 0 mark, 1 adjust, 2 insertion
    Inert(i64),
    Glue(i64, [i64; 5]),
    Kern(i64, i64),
    Pen(i64),
    Disc(Vec<El>, Vec<El>, i64),
    Math(bool),
}

#[derive(Clone, Debug)]
struct Common {
    vinit: i64,
    tol: i64,
    pretol: i64,
    emerg: i64,
    loose: i64,
    hyphpen: i64,
    exhyphpen: i64,
    linepen: i64,
    parfill: [i64; 5],
    left: [i64; 5],
    right: [i64; 5],
    il: i64,
    cl: i64,
    wd: i64,
    br: i64,
    widths: Vec<i64>,
    indents: Vec<i64>,
}

impl Common {
    fn encode(&self, v: &mut Vec<i64>) {
        v.extend([self.vinit, self.tol, self.pretol, self.emerg, self.loose, self.hyphpen, self.exhyphpen, self.linepen]);
        v.extend(self.parfill);
        v.extend(self.left);
        v.extend(self.right);
        v.extend([self.il, self.cl, self.wd, self.br]);
        v.push(self.widths.len() as i64);
        v.extend(&self.widths);
        v.push(self.indents.len() as i64);
        v.extend(&self.indents);
    }
    fn decode(nx: &mut dyn FnMut() -> i64) -> Common {
        let (vinit, tol, pretol, emerg, loose, hyphpen, exhyphpen, linepen) = (nx(), nx(), nx(), nx(), nx(), nx(), nx(), nx());
        let parfill = [nx(), nx(), nx(), nx(), nx()];
        let left = [nx(), nx(), nx(), nx(), nx()];
        let right = [nx(), nx(), nx(), nx(), nx()];
        let (il, cl, wd, br) = (nx(), nx(), nx(), nx());
        let n = nx();
        let widths = (0..n).map(|_| nx()).collect();
        let n = nx();
        let indents = (0..n).map(|_| nx()).collect();
        Common { vinit, tol, pretol, emerg, loose, hyphpen, exhyphpen, linepen, parfill, left, right, il, cl, wd, br, widths, indents }
    }
    /// The `params` of the Lean requests.
    fn lean_params(&self) -> Vec<i64> {
        let mut v = vec![];
        v.extend(self.left);
        v.extend(self.right);
        v.extend([self.il, self.cl, self.wd, self.br]);
        v.push(self.widths.len() as i64);
        v.extend(&self.widths);
        v.push(self.indents.len() as i64);
        v.extend(&self.indents);
        v
    }
    fn kp_params(&self) -> kp::Params {
        kp::Params {
            broken_penalty: self.br as i32,
            club_penalty: self.cl as i32,
            emergency_stretch: Scaled(self.emerg as i32),
            ex_hyphen_penalty: self.exhyphpen as i32,
            final_widow_penalty: self.wd as i32,
            hyphen_penalty: self.hyphpen as i32,
            inter_line_penalty: self.il as i32,
            left_skip: glue(self.left),
            line_penalty: self.linepen as i32,
            looseness: self.loose as i32,
            par_fill_skip: glue(self.parfill),
            pre_tolerance: self.pretol as i32,
            right_skip: glue(self.right),
            tolerance: self.tol as i32,
            ..kp::Params::plain_tex_defaults()
        }
    }
    fn plain(widths: Vec<i64>) -> Common {
        Common {
            vinit: 0, tol: 200, pretol: 100, emerg: 0, loose: 0, hyphpen: 50, exhyphpen: 50, linepen: 10,
            parfill: [0, 65536, 1, 0, 0], left: [0; 5], right: [0; 5], il: 0, cl: 150, wd: 150, br: 100,
            widths, indents: vec![],
        }
    }
}

fn enc_el(e: &El, v: &mut Vec<i64>) {
    match e {
        El::Box(k, w) => v.extend([0, *k, *w]),
        El::Kern(k, w) => v.extend([1, *k, *w]),
    }
}
fn enc_items(items: &[It], v: &mut Vec<i64>) {
    v.push(items.len() as i64);
    for it in items {
        match it {
            It::Box(k, w) => v.extend([0, *k, *w]),
            It::Inert(k) => v.extend([1, *k]),
            It::Glue(k, g) => {
                v.extend([2, *k]);
                v.extend(g);
            }
            It::Kern(k, w) => v.extend([3, *k, *w]),
            It::Pen(p) => v.extend([4, *p]),
            It::Disc(pre, post, r) => {
                v.push(5);
                v.push(pre.len() as i64);
                pre.iter().for_each(|e| enc_el(e, v));
                v.push(post.len() as i64);
                post.iter().for_each(|e| enc_el(e, v));
                v.push(*r);
            }
            It::Math(a) => v.extend([6, *a as i64]),
        }
    }
}
fn dec_el(nx: &mut dyn FnMut() -> i64) -> El {
    match nx() {
        0 => El::Box(nx(), nx()),
        _ => El::Kern(nx(), nx()),
    }
}
fn dec_items(nx: &mut dyn FnMut() -> i64) -> Vec<It> {
    let n = nx();
    let mut items = vec![];
    for _ in 0..n {
        items.push(match nx() {
            0 => It::Box(nx(), nx()),
            1 => It::Inert(nx()),
            2 => It::Glue(nx(), [nx(), nx(), nx(), nx(), nx()]),
            3 => It::Kern(nx(), nx()),
            4 => It::Pen(nx()),
            5 => {
                let np = nx();
                let pre = (0..np).map(|_| dec_el(nx)).collect();
                let nq = nx();
                let post = (0..nq).map(|_| dec_el(nx)).collect();
                It::Disc(pre, post, nx())
            }
            6 => It::Math(nx() != 0),
            t => panic!("bad item tag {t}"),
        });
    }
    items
}

fn order(o: i64) -> GlueOrder {
    match o {
        0 => GlueOrder::Normal,
        1 => GlueOrder::Fil,
        2 => GlueOrder::Fill,
        _ => GlueOrder::Filll,
    }
}
fn glue(g: [i64; 5]) -> Glue {
    Glue { width: Scaled(g[0] as i32), stretch: Scaled(g[1] as i32), stretch_order: order(g[2]), shrink: Scaled(g[3] as i32), shrink_order: order(g[4]) }
}
fn glue_kind(k: i64) -> ds::GlueKind {
    match k {
        0 => ds::GlueKind::Normal,
        1 => ds::GlueKind::ConditionalMath,
        2 => ds::GlueKind::Math,
        3 => ds::GlueKind::AlignedLeader,
        4 => ds::GlueKind::CenteredLeader,
        _ => ds::GlueKind::ExpandedLeader,
    }
}
fn kern_kind(k: i64) -> ds::KernKind {
    match k {
        0 => ds::KernKind::Normal,
        1 => ds::KernKind::Explicit,
        2 => ds::KernKind::Accent,
        _ => ds::KernKind::Math,
    }
}
fn code_char(w: i64) -> char {
    char::from_u32(((w / 1000).clamp(1, 0xD000)) as u32).unwrap_or('a')
}
fn boxlike(k: i64, w: i64) -> ds::Horizontal {
    match k {
        0 => ds::Horizontal::Char(ds::Char { char: code_char(w), font: 0 }),
        1 => ds::Horizontal::HBox(ds::HBox { width: Scaled(w as i32), height: Scaled((w / 3) as i32), depth: Scaled((w / 7) as i32), ..Default::default() }),
        2 => ds::Horizontal::Rule(ds::Rule { width: Scaled(w as i32), height: Scaled(26214), depth: Scaled(0) }),
        3 => ds::Horizontal::Ligature(ds::Ligature { char: code_char(w), font: 0, original_chars: "fi".into(), includes_left_boundary: false, includes_right_boundary: false }),
        _ => ds::Horizontal::VBox(ds::VBox { width: Scaled(w as i32), height: Scaled((w / 2) as i32), depth: Scaled((w / 5) as i32), ..Default::default() }),
    }
}
fn build_el(e: &El) -> ds::DiscretionaryElem {
    match e {
        El::Box(k, w) => boxlike(*k, *w).try_into().expect("box-like"),
        El::Kern(k, w) => ds::DiscretionaryElem::Kern(ds::Kern { width: Scaled(*w as i32), kind: kern_kind(*k) }),
    }
}
fn build_list(items: &[It]) -> Vec<ds::Horizontal> {
    items
        .iter()
        .map(|it| match it {
            It::Box(k, w) => boxlike(*k, *w),
            It::Inert(0) => ds::Horizontal::Mark(ds::Mark { list: vec![] }),
            It::Inert(1) => ds::Horizontal::Adjust(ds::Adjust { list: vec![] }),
            It::Inert(_) => ds::Horizontal::Insertion(ds::Insertion {
                box_number: 1,
                height: Scaled(0),
                split_max_depth: Scaled(0),
                split_top_skip: Glue::ZERO,
                float_penalty: 0,
                vbox: vec![],
            }),
            It::Glue(k, g) => ds::Horizontal::Glue(ds::Glue { kind: glue_kind(*k), value: glue(*g) }),
            It::Kern(k, w) => ds::Horizontal::Kern(ds::Kern { width: Scaled(*w as i32), kind: kern_kind(*k) }),
            It::Pen(p) => ds::Horizontal::Penalty(ds::Penalty(*p as i32)),
            It::Disc(pre, post, r) => ds::Horizontal::Discretionary(ds::Discretionary {
                pre_break: pre.iter().map(build_el).collect(),
                post_break: post.iter().map(build_el).collect(),
                replace_count: *r as u32,
            }),
            It::Math(a) => ds::Horizontal::Math(if *a { ds::Math::After } else { ds::Math::Before }),
        })
        .collect()
}

fn build_vinit(k: i64) -> Vec<ds::Vertical> {
    let hb = |d: i32| ds::Vertical::HBox(ds::HBox { depth: Scaled(d), height: Scaled(300000), ..Default::default() });
    match k {
        0 => vec![],
        1 => vec![hb(196608)],
        2 => vec![ds::Vertical::Penalty(ds::Penalty(5))],
        4 => vec![hb(65536), ds::Vertical::VBox(ds::VBox { depth: Scaled(98304), height: Scaled(400000), ..Default::default() }), ds::Vertical::Penalty(ds::Penalty(0))],
        _ => vec![
            hb(131072),
            ds::Vertical::Glue(ds::Glue { kind: ds::GlueKind::Normal, value: Glue::ZERO }),
            ds::Vertical::Penalty(ds::Penalty(7)),
        ],
    }
}
/// The preceding vertical material for the Lean `bsk` request: `<n> (0 | 1 depth)*`.
fn vinit_nodes(k: i64) -> Vec<i64> {
    let mut v = vec![];
    let mut n = 0;
    for e in build_vinit(k) {
        n += 1;
        match e {
            ds::Vertical::HBox(b) => v.extend([1, b.depth.0 as i64]),
            ds::Vertical::VBox(b) => v.extend([1, b.depth.0 as i64]),
            _ => v.push(0),
        }
    }
    v.insert(0, n);
    v
}

// ------------------------------------------------------------------------------------------
// Real nodes → the Lean encoding (box-like nodes are interned by their full content)
// ------------------------------------------------------------------------------------------

#[derive(Default)]
struct Intern(HashMap<String, i64>);
impl Intern {
    fn id(&mut self, s: String) -> i64 {
        let n = self.0.len() as i64;
        *self.0.entry(s).or_insert(n)
    }
}

fn enc_glue_val(g: &Glue, v: &mut Vec<i64>) {
    v.extend([g.width.0 as i64, g.stretch.0 as i64, g.stretch_order as i64, g.shrink.0 as i64, g.shrink_order as i64]);
}
fn enc_real_el(e: &ds::DiscretionaryElem, it: &mut Intern, v: &mut Vec<i64>) {
    use ds::DiscretionaryElem::*;
    match e {
        Char(x) => v.extend([0, it.id(format!("{x:?}"))]),
        HBox(x) => v.extend([0, it.id(format!("{x:?}"))]),
        VBox(x) => v.extend([0, it.id(format!("{x:?}"))]),
        Rule(x) => v.extend([0, it.id(format!("{x:?}"))]),
        Ligature(x) => v.extend([0, it.id(format!("{x:?}"))]),
        Kern(k) => v.extend([1, k.kind as i64, k.width.0 as i64]),
    }
}
fn enc_real(h: &ds::Horizontal, it: &mut Intern, v: &mut Vec<i64>) {
    use ds::Horizontal::*;
    match h {
        Char(x) => v.extend([0, it.id(format!("{x:?}"))]),
        HBox(x) => v.extend([0, it.id(format!("{x:?}"))]),
        VBox(x) => v.extend([0, it.id(format!("{x:?}"))]),
        Rule(x) => v.extend([0, it.id(format!("{x:?}"))]),
        Ligature(x) => v.extend([0, it.id(format!("{x:?}"))]),
        Mark(x) => v.extend([1, it.id(format!("{x:?}"))]),
        Insertion(x) => v.extend([1, it.id(format!("{x:?}"))]),
        Adjust(x) => v.extend([1, it.id(format!("{x:?}"))]),
        Glue(g) => {
            v.extend([2, g.kind.clone() as i64]);
            enc_glue_val(&g.value, v);
        }
        Kern(k) => v.extend([3, k.kind as i64, k.width.0 as i64]),
        Penalty(p) => v.extend([4, p.0 as i64]),
        Discretionary(d) => {
            v.push(5);
            v.push(d.pre_break.len() as i64);
            d.pre_break.iter().for_each(|e| enc_real_el(e, it, v));
            v.push(d.post_break.len() as i64);
            d.post_break.iter().for_each(|e| enc_real_el(e, it, v));
            v.push(d.replace_count as i64);
        }
        Math(m) => v.extend([6, (*m == ds::Math::After) as i64]),
        Whatsit(_) => panic!("whatsit in a list of the harness"),
    }
}
fn enc_real_list(l: &[ds::Horizontal], it: &mut Intern) -> Vec<i64> {
    let mut v = vec![l.len() as i64];
    l.iter().for_each(|h| enc_real(h, it, &mut v));
    v
}

// ------------------------------------------------------------------------------------------
// Running the real line breaker
// ------------------------------------------------------------------------------------------

struct RLine {
    list: Vec<ds::Horizontal>,
    width: i64,
    shift: i64,
    height: i64,
    depth: i64,
    pen: Option<i64>,
    glue_before: Option<i64>,
    /// glue order and ratio of the box
    set: (i64, i64, i64),
    /// natural width, total stretch per order, total shrink per order (filled in where a font repo is at hand)
    sums: Option<(i64, [i64; 4], [i64; 4])>,
}

/// Natural width and glue totals of a line, as `HBox::pack` sees its nodes.
fn line_sums<F: boxworks::FontRepo>(repo: &F, list: &[ds::Horizontal]) -> (i64, [i64; 4], [i64; 4]) {
    use ds::Horizontal::*;
    let (mut nat, mut st, mut sh) = (0i64, [0i64; 4], [0i64; 4]);
    for h in list {
        match h {
            Char(c) => nat += repo.width(c.char, c.font).map(|w| w.0 as i64).unwrap_or(0),
            Ligature(l) => nat += repo.width(l.char, l.font).map(|w| w.0 as i64).unwrap_or(0),
            HBox(b) => nat += b.width.0 as i64,
            VBox(b) => nat += b.width.0 as i64,
            Rule(r) => nat += r.width.0 as i64,
            Kern(k) => nat += k.width.0 as i64,
            Glue(g) => {
                nat += g.value.width.0 as i64;
                st[g.value.stretch_order as usize] += g.value.stretch.0 as i64;
                sh[g.value.shrink_order as usize] += g.value.shrink.0 as i64;
            }
            _ => {}
        }
    }
    (nat, st, sh)
}

struct RealBreak {
    list_after: Vec<ds::Horizontal>,
    bps: Vec<usize>,
    /// `Err` = `break_line` panicked (after the breakpoints had been found on the copy).
    lines: Result<Vec<RLine>, String>,
    shape_error: Option<String>,
}

/// `[glue] hbox [penalty]` … → lines; anything else is a shape error.
fn decode_vlist(v: &[ds::Vertical]) -> (Vec<RLine>, Option<String>) {
    let mut shape_error = None;
    let mut lines: Vec<RLine> = vec![];
    let mut pending_glue: Option<i64> = None;
    for e in v {
        match e {
            ds::Vertical::Glue(g) => {
                if pending_glue.is_some() || !g.value.stretch.is_zero() || !g.value.shrink.is_zero() {
                    shape_error = Some("unexpected glue between lines".into());
                }
                pending_glue = Some(g.value.width.0 as i64);
            }
            ds::Vertical::HBox(b) => {
                lines.push(RLine {
                    list: b.list.clone(),
                    width: b.width.0 as i64,
                    shift: b.shift_amount.0 as i64,
                    height: b.height.0 as i64,
                    depth: b.depth.0 as i64,
                    pen: None,
                    glue_before: pending_glue.take(),
                    set: (b.glue_order as i64, b.glue_ratio.num.0 as i64, b.glue_ratio.den.0 as i64),
                    sums: None,
                });
            }
            ds::Vertical::Penalty(p) => match lines.last_mut() {
                Some(l) if l.pen.is_none() && pending_glue.is_none() => l.pen = Some(p.0 as i64),
                _ => shape_error = Some("unexpected penalty in the vertical list".into()),
            },
            _ => shape_error = Some("unexpected node in the vertical list".into()),
        }
    }
    if pending_glue.is_some() {
        shape_error = Some("trailing glue in the vertical list".into());
    }
    (lines, shape_error)
}

/// `Err((stage, panic))`: stage "attempts" = the search for breakpoints panicked.
fn run_break<F: boxworks::FontRepo>(
    repo: &F,
    hyph: &dyn boxworks::Hyphenator,
    c: &Common,
    list: &[ds::Horizontal],
) -> Result<RealBreak, String> {
    let params = c.kp_params();
    let widths: Vec<Scaled> = c.widths.iter().map(|w| Scaled(*w as i32)).collect();
    let indents: Vec<Scaled> = c.indents.iter().map(|w| Scaled(*w as i32)).collect();
    // the copy: TeX.2021.816 by hand, then the public search for breakpoints
    let mut h2 = list.to_vec();
    if matches!(h2.last(), Some(ds::Horizontal::Glue(_))) {
        h2.pop();
    }
    h2.push(ds::Horizontal::Penalty(ds::Penalty(10000)));
    h2.push(ds::Horizontal::Glue(ds::Glue { kind: ds::GlueKind::Normal, value: params.par_fill_skip }));
    let bps = caught(|| {
        let mut lb = kp::LineBreaker { params: &params, line_widths: &widths, line_indents: &indents, debug_logger: None, hyphenator: hyph };
        lb.break_line_all_attempts(repo, hyph, &mut vec![], &mut h2)
    })?;
    // the real thing
    let vinit = build_vinit(c.vinit);
    let mut v = vinit.clone();
    let mut h = list.to_vec();
    let r = caught(|| {
        let lb = kp::LineBreaker { params: &params, line_widths: &widths, line_indents: &indents, debug_logger: None, hyphenator: hyph };
        lb.break_line(repo, &mut v, &mut h)
    });
    let mut shape_error = None;
    let lines = match r {
        Err(p) => Err(p),
        Ok(()) => {
            if h != h2 {
                shape_error = Some("break_line and break_line_all_attempts leave different lists".to_string());
            }
            if v.len() < vinit.len() || v[..vinit.len()] != vinit[..] {
                shape_error = Some("break_line changed the vertical material before the paragraph".to_string());
            }
            let (mut lines, e) = decode_vlist(&v[vinit.len().min(v.len())..]);
            if e.is_some() {
                shape_error = e;
            }
            for ln in lines.iter_mut() {
                ln.sums = Some(line_sums(repo, &ln.list));
            }
            Ok(lines)
        }
    };
    Ok(RealBreak { list_after: if lines.is_ok() { h } else { h2 }, bps, lines, shape_error })
}

fn panic_class(p: &str) -> i64 {
    if p.contains("not yet implemented") {
        5
    } else if p.contains("with overflow") {
        6
    } else if p.contains("non-empty line widths") {
        4
    } else if p.contains("cannot appear as a breakpoint") {
        3
    } else if p.contains("index out of bounds") {
        2
    } else if p.contains("slice index") || p.contains("range end index") || p.contains("range start index") {
        1
    } else {
        0
    }
}

/// Inside the property's quantifier: no nodes `HBox::pack` answers with `todo!()`, valid
/// replacement counts, at least one line width, penalties whose sums fit `i32`.
fn in_domain(list: &[ds::Horizontal], c: &Common) -> bool {
    use ds::Horizontal::*;
    if c.widths.is_empty() {
        return false;
    }
    if [c.il, c.cl, c.wd, c.br].iter().map(|x| x.abs()).sum::<i64>() > i32::MAX as i64 {
        return false;
    }
    for (i, h) in list.iter().enumerate() {
        match h {
            Mark(_) | Insertion(_) | Adjust(_) | Math(_) | Whatsit(_) => return false,
            Discretionary(d) => {
                let r = d.replace_count as usize;
                if i + r >= list.len() {
                    return false;
                }
                for j in 1..=r {
                    if !matches!(list[i + j], Char(_) | Ligature(_) | HBox(_) | VBox(_) | Rule(_) | Kern(_)) {
                        return false;
                    }
                }
            }
            _ => {}
        }
    }
    true
}

/// Everything after the list exists: compare `break_line` with M and S.
fn check_break(out: &mut CaseOutcome, drv: &mut Driver, c: &Common, orig: &[ds::Horizontal], rb: &RealBreak, hyph_on: bool) {
    let mut it = Intern::default();
    let l_enc = enc_real_list(&rb.list_after, &mut it);
    let dom = in_domain(orig, c);
    if !dom {
        out.tag("domain:outside");
    }
    if let Some(e) = &rb.shape_error {
        out.fail(Kind::ImplVsModel, "vlist", format!("vlist shape: {e}"), e.clone());
    }
    // --- TeX.2021.816 (the specification determines the result: `finish_par_shape`) ---
    if !hyph_on && rb.lines.is_ok() {
        let mut req = String::from("fin ");
        req.push_str(&join(&c.parfill));
        req.push(' ');
        req.push_str(&join(&enc_real_list(orig, &mut it)));
        let want = drv.ask(&req);
        out.tag(if matches!(orig.last(), Some(ds::Horizontal::Glue(_))) { "816:glue-removed" } else { "816:no-trailing-glue" });
        if matches!(orig, [.., ds::Horizontal::Glue(_), ds::Horizontal::Glue(_)]) {
            out.tag("816:two-trailing-glues");
        }
        if want != join(&l_enc) {
            out.fail(
                Kind::ImplVsSpec,
                "finish",
                "paragraph end differs from TeX 816 (one trailing glue removed, \\penalty10000, \\parfillskip)",
                format!("TeX: {want}\nreal: {}", join(&l_enc)),
            );
            return;
        }
    }
    let mut base = join(&c.lean_params());
    base.push(' ');
    base.push_str(&join(&l_enc));
    base.push(' ');
    base.push_str(&rb.bps.len().to_string());
    for b in &rb.bps {
        base.push(' ');
        base.push_str(&b.to_string());
    }
    // --- M ---
    let mut model = drv.ask(&format!("plb {base}"));
    if let Some(rest) = model.strip_prefix("ok! ") {
        out.fail(Kind::ModelVsSpec, "model", "the specification rejects the model's own lines", format!("model lines: {rest}"));
        model = format!("ok {rest}");
    }
    match &rb.lines {
        Err(p) => {
            let cls = panic_class(p);
            if let Some(code) = model.strip_prefix("err ") {
                out.tag(format!("panic:model-err-{code}"));
                if code.trim().parse::<i64>().ok() != Some(cls) {
                    out.fail(Kind::ImplVsModel, "panic", format!("panic class: model err {code}, real class {cls}"), format!("real panic: {p}"));
                }
            } else {
                out.fail(Kind::ImplVsModel, "panic", "real panic, model returns lines", format!("real panic: {p}"));
            }
            if dom {
                // is the break sequence the breaker chose valid at all? (`spec` with no lines)
                let verdict = drv.ask(&format!("spec {base} 0"));
                let sig = if verdict.ends_with(" invalid") && cls == 1 {
                    out.tag("breaks:invalid");
                    "panic: line broken inside the replacement list of the discretionary that ended the previous line".to_string()
                } else {
                    format!("panic {}", strip_msg(p))
                };
                out.fail(Kind::ImplPanic, "break_line", sig, format!("break_line panicked on an in-domain list: {p}; breaks {:?}", rb.bps));
            }
            return;
        }
        Ok(lines) => {
            let mut real = vec![lines.len() as i64];
            for ln in lines {
                real.extend(enc_real_list(&ln.list, &mut it));
                real.extend([ln.width, ln.shift, ln.pen.is_some() as i64, ln.pen.unwrap_or(0)]);
            }
            let real_s = join(&real);
            // --- S on the real lines ---
            let verdict = drv.ask(&format!("spec {base} {real_s}"));
            let mut spec_failed = false;
            let (clauses, valid) = verdict.split_once(' ').unwrap_or((&verdict, ""));
            if valid != "valid" {
                out.tag("breaks:invalid");
                if dom {
                    out.fail(Kind::ImplVsSpec, "spec", "break sequence handed to post_line_break is not valid", format!("breaks {:?}: {verdict}", rb.bps));
                    spec_failed = true;
                }
            }
            if clauses != "ok" && dom {
                spec_failed = true;
                out.fail(Kind::ImplVsSpec, "spec", format!("violates: {clauses}"), format!("breaks {:?}; spec verdict on the real lines: {verdict}", rb.bps));
            }
            match model.strip_prefix("ok ") {
                Some(m) => {
                    if m != real_s && !spec_failed {
                        out.fail(Kind::ImplVsModel, "lines", "lines differ from the model", format!("model: {m}\nreal:  {real_s}"));
                    }
                }
                None => out.fail(Kind::ImplVsModel, "lines", format!("model says {model}, real returns lines"), format!("real: {real_s}")),
            }
            // --- every line is SET to its width (Lean `lineSetVerdict` on the totals of the real line) ---
            for (k, ln) in lines.iter().enumerate() {
                if let Some((nat, st, sh)) = ln.sums {
                    let v = drv.ask(&format!("lsw {nat} {} {} {} {} {} {}", ln.width, join(&st), join(&sh), ln.set.0, ln.set.1, ln.set.2));
                    let x = ln.width - nat;
                    if x < 0 {
                        let inf = sh[1] != 0 || sh[2] != 0 || sh[3] != 0;
                        out.tag(if inf { "set:shrinks, infinite shrink" } else if sh[0] < -x { "set:overfull" } else { "set:shrinks, finite" });
                        if inf && (sh[1] + sh[2] + sh[3]).abs() < -x {
                            out.tag("set:infinite shrink smaller than the overflow");
                        }
                    } else if x > 0 {
                        out.tag(if st.iter().all(|t| *t == 0) { "set:underfull" } else { "set:stretches" });
                    }
                    if v != "ok" && dom {
                        out.fail(Kind::ImplVsSpec, "set", format!("a line is not set to its width: {v}"), format!("line {k}: natural {nat}, width {}, stretch {st:?}, shrink {sh:?}, box order {} ratio {}/{}", ln.width, ln.set.0, ln.set.1, ln.set.2));
                        break;
                    }
                }
            }
            // --- interline glue: M (`interline`) and S (TeX §679, \baselineskip=12pt, \lineskiplimit=0pt) ---
            let mut req = format!("bsk {} {}", join(&vinit_nodes(c.vinit)), lines.len());
            let mut real_b = vec![];
            for ln in lines {
                req.push_str(&format!(" {} {} {}", ln.height, ln.depth, ln.pen.is_some() as i64));
                real_b.extend([ln.glue_before.is_some() as i64, ln.glue_before.unwrap_or(0)]);
            }
            let reply = parse_i64s(&drv.ask(&req));
            let (want_m, want_s) = reply.split_at(reply.len() / 2);
            // TeX's rule applies as coded when the list before the paragraph is empty or has a box, and no
            // line is so tall that \lineskip would be used (hypotheses of `interline_glue_spec`)
            let has_box_or_empty = c.vinit != 2;
            let no_lineskip = want_s.chunks(2).all(|t| t[0] != 2);
            let mut flagged = false;
            if has_box_or_empty && no_lineskip {
                out.tag("interline:TeX 679 applies");
                if want_s != &real_b[..] {
                    flagged = true;
                    out.fail(Kind::ImplVsSpec, "interline", "interline glue differs from TeX 679 (baselineskip - prev_depth - height)", format!("TeX:  {}\nreal: {}", join(want_s), join(&real_b)));
                }
            } else {
                out.tag(if no_lineskip { "interline:outside (no box before the paragraph)" } else { "interline:outside (lineskip)" });
            }
            if !flagged && want_m != &real_b[..] {
                out.fail(Kind::ImplVsModel, "baseline", "baseline glue differs from the model", format!("model: {}\nreal:  {}", join(want_m), join(&real_b)));
            }
            // --- tags ---
            let n = rb.bps.len();
            out.tag(format!("lines:{}", if n >= 4 { "4+".to_string() } else { n.to_string() }));
            out.tag(format!("vinit:{}", c.vinit));
            out.tag(if glue(c.left).is_zero() { "leftskip:zero" } else { "leftskip:nonzero" });
            if n > c.widths.len() {
                out.tag("width:last-repeats");
            }
            out.tag(if c.indents.is_empty() { "indent:none" } else if n > c.indents.len() { "indent:last-repeats" } else { "indent:own" });
            for (k, b) in rb.bps.iter().enumerate() {
                use ds::Horizontal::*;
                let next = rb.bps.get(k + 1).copied();
                let mut after = b + 1;
                match rb.list_after.get(*b) {
                    None => out.tag("break:final"),
                    Some(Glue(_)) => out.tag("break:glue"),
                    Some(Kern(_)) => out.tag("break:kern"),
                    Some(Penalty(_)) => out.tag("break:penalty"),
                    Some(Math(_)) => out.tag("break:math"),
                    Some(Discretionary(d)) => {
                        out.tag(format!(
                            "break:disc pre={} post={} replace={}",
                            if d.pre_break.is_empty() { "0" } else { "+" },
                            if d.post_break.is_empty() { "0" } else { "+" },
                            if d.replace_count == 0 { "0" } else { "+" }
                        ));
                        after += d.replace_count as usize;
                        if !d.post_break.is_empty() {
                            after = usize::MAX;
                        }
                    }
                    _ => out.tag("break:other"),
                }
                if let (Some(nb), true) = (next, after != usize::MAX) {
                    let mut pruned = 0;
                    while after < nb && after < rb.list_after.len() && !rb.list_after[after].non_discardable() {
                        after += 1;
                        pruned += 1;
                    }
                    out.tag(format!("pruned:{}", if pruned >= 3 { "3+".to_string() } else { pruned.to_string() }));
                    if pruned > 0 && after == nb {
                        out.tag("pruned:up-to-next-break");
                    }
                }
            }
            for (k, ln) in lines.iter().enumerate() {
                if k + 1 == n {
                    continue;
                }
                out.tag(match (k == 0, k + 2 == n) {
                    (true, true) => "pen:club+widow",
                    (true, false) => "pen:club",
                    (false, true) => "pen:widow",
                    (false, false) => "pen:interline",
                });
                if ln.pen.is_none() {
                    out.tag("pen:zero-no-node");
                }
            }
            out.nontrivial = dom && n >= 2;
        }
    }
}

// ------------------------------------------------------------------------------------------
// L cases
// ------------------------------------------------------------------------------------------

struct LCase {
    c: Common,
    items: Vec<It>,
}
impl LCase {
    fn encode(&self) -> String {
        let mut v = vec![];
        self.c.encode(&mut v);
        enc_items(&self.items, &mut v);
        format!("L {}", join(&v))
    }
    fn decode(s: &str) -> LCase {
        let v = parse_i64s(s);
        let mut i = 0;
        let mut nx = || {
            let x = v[i];
            i += 1;
            x
        };
        let c = Common::decode(&mut nx);
        let items = dec_items(&mut nx);
        LCase { c, items }
    }
}

fn is_replaceable(it: &It) -> bool {
    matches!(it, It::Box(..) | It::Kern(..))
}
/// Keep `replace_count`s valid after items were removed.
fn fix_replace(items: &mut [It]) {
    for i in 0..items.len() {
        if let It::Disc(_, _, r) = &items[i] {
            let mut ok = 0;
            while ok < *r as usize && i + 1 + ok < items.len() && is_replaceable(&items[i + 1 + ok]) {
                ok += 1;
            }
            if let It::Disc(_, _, r) = &mut items[i] {
                *r = ok as i64;
            }
        }
    }
}

fn gen_glue(rng: &mut Rng, u: i64) -> [i64; 5] {
    if rng.chance(2, 3) {
        [0; 5]
    } else {
        [u * *rng.pick(&[0, 1, 3, -1]), u * *rng.pick(&[0, 2, 5]), *rng.pick(&[0, 0, 0, 1, 2]), u * *rng.pick(&[0, 1, 1, 3]), *rng.pick(&[0, 0, 1, 1, 2, 3])]
    }
}

fn gen_common(rng: &mut Rng, u: i64, base: i64) -> Common {
    let nw = 1 + rng.below(3) as usize;
    let widths = (0..nw).map(|k| base + if k > 0 { u * rng.range(-10, 10) } else { 0 }).collect();
    let ni = *rng.pick(&[0usize, 0, 1, 2, 3, 6]);
    let indents = (0..ni).map(|_| u * rng.range(-5, 20)).collect();
    let pen = |rng: &mut Rng, d: i64| -> i64 {
        match rng.below(8) {
            0 => 0,
            1 => -d,
            2 => *rng.pick(&[10000, -10000, 1, -1, 9999]),
            3 => rng.range(-300, 300),
            _ => d,
        }
    };
    Common {
        vinit: *rng.pick(&[0, 0, 0, 1, 2, 3, 4]),
        tol: *rng.pick(&[-1, 0, 100, 200, 200, 200, 1000, 10000, 10000, 20000]),
        pretol: *rng.pick(&[-1, 100, 100, 200, 10000]),
        emerg: if rng.chance(1, 6) { u * *rng.pick(&[1, 5, 20]) } else { 0 },
        loose: *rng.pick(&[0, 0, 0, 0, 0, 0, 1, -1, 2]),
        hyphpen: *rng.pick(&[50, 50, 0, -50, 500, -10000]),
        exhyphpen: *rng.pick(&[50, 50, 0, 300, -10000]),
        linepen: *rng.pick(&[10, 10, 10, 0, 50]),
        parfill: if rng.chance(4, 5) { [0, 65536, 1, 0, 0] } else { [u * *rng.pick(&[0, 2]), u * *rng.pick(&[0, 10]), *rng.pick(&[0, 1, 2]), 0, 0] },
        left: gen_glue(rng, u),
        right: gen_glue(rng, u),
        il: pen(rng, 0),
        cl: pen(rng, 150),
        wd: pen(rng, 150),
        br: pen(rng, 100),
        widths,
        indents,
    }
}

fn gen_box(rng: &mut Rng, u: i64) -> It {
    let k = *rng.pick(&[0, 0, 1, 1, 2, 3, 4]);
    let w = if k == 0 || k == 3 {
        // a char: width = code·1000
        let code = if u > 1 { *rng.pick(&[262, 393, 400, 459, 590, 786]) } else { *rng.pick(&[4, 6, 7, 9, 12]) };
        if u > 1 {
            code * 1000
        } else {
            // unit 1: widths of a few sp are not expressible as chars; use hbox instead
            return It::Box(1, code);
        }
    } else {
        u * *rng.pick(&[4, 6, 6, 7, 9, 12, 20]) + if u > 1 && rng.chance(1, 3) { rng.range(-500, 500) } else { 0 }
    };
    It::Box(k, w)
}

fn gen_list(rng: &mut Rng, u: i64, max_items: usize, exotic: bool) -> Vec<It> {
    let mut items = vec![];
    let n_words = 1 + rng.below(12) as usize;
    let sp = |rng: &mut Rng| -> It { It::Glue(0, [u * *rng.pick(&[3, 4, 5]), u * *rng.pick(&[1, 2, 3]), 0, u * *rng.pick(&[0, 1, 1, 2]), 0]) };
    let el = |rng: &mut Rng| -> El {
        if rng.chance(1, 6) {
            El::Kern(*rng.pick(&[0, 1]), u)
        } else {
            match gen_box(rng, u) {
                It::Box(k, w) => El::Box(k, w.min(u * 5).max(1000)),
                _ => unreachable!(),
            }
        }
    };
    for wi in 0..n_words {
        if items.len() + 8 > max_items {
            break;
        }
        if exotic && rng.chance(1, 10) {
            items.push(It::Math(false));
        }
        let n_boxes = 1 + rng.below(3) as usize;
        for bi in 0..n_boxes {
            items.push(gen_box(rng, u));
            if bi + 1 < n_boxes && rng.chance(2, 5) {
                let pre = match rng.below(5) {
                    0 => vec![],
                    1 => vec![el(rng), el(rng)],
                    _ => vec![el(rng)],
                };
                let post = match rng.below(6) {
                    0 | 1 => vec![el(rng)],
                    2 => vec![el(rng), el(rng)],
                    _ => vec![],
                };
                let r = *rng.pick(&[0, 0, 0, 1, 1, 2]);
                items.push(It::Disc(pre, post, r));
                // sometimes a discretionary directly followed by discardable material or by a kern
                if rng.chance(1, 8) {
                    items.push(It::Pen(*rng.pick(&[0, 100, 10000])));
                } else if rng.chance(1, 8) {
                    items.push(It::Kern(*rng.pick(&[0, 1, 2, 3]), u));
                }
            } else if bi + 1 < n_boxes && rng.chance(1, 6) {
                items.push(It::Kern(*rng.pick(&[0, 0, 2, 3]), u * *rng.pick(&[-1, 1])));
            }
            if exotic && rng.chance(1, 12) {
                items.push(It::Inert(rng.below(3) as i64));
            }
        }
        if exotic && rng.chance(1, 10) {
            items.push(It::Math(true));
        }
        if wi + 1 == n_words {
            if rng.chance(1, 3) {
                items.push(sp(rng));
            }
            if rng.chance(1, 10) {
                items.push(sp(rng));
            }
            break;
        }
        // inter-word material: mostly one glue; often runs of discardable items
        match rng.below(14) {
            0 => {
                items.push(It::Pen(*rng.pick(&[0, 50, -50, 200, 9999, 10000, -9999, -10000, 500])));
                items.push(sp(rng));
            }
            1 => {
                items.push(sp(rng));
                items.push(It::Pen(*rng.pick(&[0, -100, 300, -10000])));
                items.push(sp(rng));
            }
            2 => {
                items.push(It::Kern(1, u * *rng.pick(&[2, 5, -2])));
                items.push(sp(rng));
            }
            3 => {
                items.push(sp(rng));
                items.push(It::Kern(1, u * 3));
                items.push(sp(rng));
            }
            4 => {
                items.push(It::Pen(-10000));
                items.push(It::Pen(*rng.pick(&[-10000, 0])));
                if rng.chance(1, 2) {
                    items.push(sp(rng));
                }
            }
            5 => items.push(It::Pen(*rng.pick(&[0, 100, -100, -10000]))),
            6 => {
                items.push(sp(rng));
                items.push(sp(rng));
                if rng.chance(1, 2) {
                    items.push(It::Kern(1, u));
                    items.push(It::Pen(0));
                    items.push(sp(rng));
                }
            }
            8 => {
                // a font/accent/math kern right after the glue: not discardable, must start the next line
                items.push(sp(rng));
                items.push(It::Kern(*rng.pick(&[0, 2, 3]), u * *rng.pick(&[1, -1, 2])));
            }
            9 => items.push(It::Glue(0, [u * *rng.pick(&[3, 5]), u * *rng.pick(&[0, 2]), 0, u * *rng.pick(&[1, 2]), *rng.pick(&[1, 1, 2, 3])])), // \hss-like
            7 => items.push(It::Glue(*rng.pick(&[0, 0, 2, 3]), [u * 4, u * *rng.pick(&[0, 1, 10]), *rng.pick(&[0, 0, 1, 2, 3]), u * *rng.pick(&[0, 2]), *rng.pick(&[0, 0, 1])])),
            _ => items.push(sp(rng)),
        }
    }
    fix_replace(&mut items);
    items
}

// ------------------------------------------------------------------------------------------
// T cases
// ------------------------------------------------------------------------------------------

struct TCase {
    hyph: bool,
    c: Common,
    space_skip: [i64; 5],
    xspace_skip: [i64; 5],
    /// every code that is not 1000
    codes: Vec<(i64, i64)>,
    text: String,
}
impl TCase {
    fn encode(&self) -> String {
        let mut v = vec![self.hyph as i64];
        self.c.encode(&mut v);
        v.extend(self.space_skip);
        v.extend(self.xspace_skip);
        v.push(self.codes.len() as i64);
        for (c, x) in &self.codes {
            v.extend([*c, *x]);
        }
        format!("T {} | {}", join(&v), esc(&self.text))
    }
    fn decode(s: &str) -> TCase {
        let (ints, text) = s.split_once(" | ").or_else(|| s.split_once(" |").map(|(a, _)| (a, ""))).expect("T case has a | separator");
        let v = parse_i64s(ints);
        let mut i = 0;
        let mut nx = || {
            let x = v[i];
            i += 1;
            x
        };
        let hyph = nx() != 0;
        let c = Common::decode(&mut nx);
        let space_skip = [nx(), nx(), nx(), nx(), nx()];
        let xspace_skip = [nx(), nx(), nx(), nx(), nx()];
        let n = nx();
        let codes = (0..n).map(|_| (nx(), nx())).collect();
        TCase { hyph, c, space_skip, xspace_skip, codes, text: unesc(text) }
    }
}

/// Texts in case lines: every blank other than the space character (and the backslash) is written as an
/// escape, so that a case stays one ASCII line.
fn esc(t: &str) -> String {
    let mut o = String::new();
    for c in t.chars() {
        match c {
            '\\' => o.push_str("\\\\"),
            '\n' => o.push_str("\\n"),
            '\r' => o.push_str("\\r"),
            '\t' => o.push_str("\\t"),
            '\x0c' => o.push_str("\\f"),
            c => o.push(c),
        }
    }
    o
}
fn unesc(t: &str) -> String {
    let mut o = String::new();
    let mut it = t.chars();
    while let Some(c) = it.next() {
        if c == '\\' {
            match it.next() {
                Some('n') => o.push('\n'),
                Some('r') => o.push('\r'),
                Some('t') => o.push('\t'),
                Some('f') => o.push('\x0c'),
                Some(d) => o.push(d),
                None => o.push('\\'),
            }
        } else {
            o.push(c);
        }
    }
    o
}

fn plain_codes() -> Vec<(i64, i64)> {
    let d = bwt::SpaceFactorCodes::plain_tex_defaults();
    (0..256).filter(|c| d.0[*c] != 1000).map(|c| (c as i64, d.0[c] as i64)).collect()
}

const WORDS: &[&str] = &[
    "the", "of", "a", "in", "difficult", "efficient", "office", "fluffy", "affliction", "AVAST", "WAVE", "Type", "To", "Yo-yo", "well-known",
    "mother-in-law", "pages 3--5", "so---yes", "end.", "Mr.", "NASA.", "why?", "stop!", "thus:", "here;", "well,", "(see)", "`quoted'", "``double''",
    "hyphenation", "typesetting", "paragraph", "conserves", "geometry", "discretionary", "fi", "ff", "ffl", "Knuth", "TeX", "I", "A.", "B)", "x.)", "e.g.,",
    "supercalifragilistic", "macro", "algorithm", "table", "record", "present", "VA", "Ay", "fj", "f'", "f!", "?`", "!`", "-", "--", "a-", "-b",
];

/// A run of blanks: mostly one space, otherwise 1–3 characters drawn from all of ASCII white space.
fn gen_blank(rng: &mut Rng) -> String {
    if rng.chance(3, 5) {
        return " ".into();
    }
    let n = 1 + rng.below(3);
    (0..n).map(|_| *rng.pick(&[' ', '\t', '\n', '\r', '\x0c', ' ', '\t'])).collect()
}

fn gen_text(rng: &mut Rng) -> String {
    let cap = if rng.chance(1, 4) { 40 } else { 14 };
    let n = 1 + rng.below(cap) as usize;
    let mut s = String::new();
    if rng.chance(1, 5) {
        s.push_str(&gen_blank(rng));
    }
    for k in 0..n {
        if k > 0 {
            s.push_str(&gen_blank(rng));
        }
        if rng.chance(1, 6) {
            // a random word over cmr10's printable characters
            let len = 1 + rng.below(8);
            for _ in 0..len {
                let c = *rng.pick(&[
                    'a', 'b', 'e', 'f', 'f', 'i', 'l', 'o', 't', 'y', 'A', 'V', 'W', 'T', 'o', '.', ',', ';', ':', '?', '!', ')', '\'', ']', '-', '`', '1', '7',
                ]);
                s.push(c);
            }
        } else {
            s.push_str(*rng.pick(WORDS));
        }
    }
    if rng.chance(1, 5) {
        s.push_str(&gen_blank(rng));
    }
    // a chunk of a longer text: cut at an arbitrary point (inside a word or inside a run of blanks)
    if rng.chance(1, 4) {
        let chars: Vec<char> = s.chars().collect();
        let a = rng.below(chars.len() as u64 + 1) as usize;
        let b = a + rng.below((chars.len() - a) as u64 + 1) as usize;
        s = if rng.chance(1, 2) { chars[a..].iter().collect() } else { chars[a..b].iter().collect() };
    }
    s
}

struct Cmr {
    bytes: Vec<u8>,
}
impl Cmr {
    fn file(&self) -> tfm::File {
        tfm::File::deserialize(&self.bytes).0.expect("cmr10.tfm parses")
    }
}

// ------------------------------------------------------------------------------------------
// The property
// ------------------------------------------------------------------------------------------

struct C12 {
    cmr: Option<Cmr>,
    box_bin: Option<Result<String, String>>,
}

fn repo_path() -> String {
    std::env::var("VERIF_REPO").unwrap_or_else(|_| {
        let mut r = "/repo".to_string();
        let mut it = std::env::args();
        while let Some(a) = it.next() {
            if a == "--repo" {
                if let Some(v) = it.next() {
                    r = v;
                }
            }
        }
        r
    })
}

impl C12 {
    fn cmr(&mut self) -> &Cmr {
        if self.cmr.is_none() {
            let repo = repo_path();
            let bytes = std::fs::read(format!("{repo}/{CMR10}")).or_else(|_| std::fs::read(format!("/repo/{CMR10}"))).expect("cmr10.tfm");
            self.cmr = Some(Cmr { bytes });
        }
        self.cmr.as_ref().unwrap()
    }

    /// The `box` binary of the repository under test (crates/boxworks-bin), built on first use
    /// into a target directory of our own (never into the repository).
    fn box_bin(&mut self) -> Result<String, String> {
        if self.box_bin.is_none() {
            let repo = repo_path();
            let verif = std::env::var("VERIF_DIR").unwrap_or_else(|_| "/verif".into());
            let target = format!("{verif}/.work/C12/boxbin-{:016x}", fxhash(&repo));
            let r = std::process::Command::new("cargo")
                .args(["build", "--offline", "-q", "-p", "boxworks-bin", "--bin", "box", "--manifest-path"])
                .arg(format!("{repo}/Cargo.toml"))
                .env("CARGO_TARGET_DIR", &target)
                .env("CARGO_NET_OFFLINE", "true")
                .env_remove("RUSTFLAGS")
                .output();
            self.box_bin = Some(match r {
                Ok(o) if o.status.success() => Ok(format!("{target}/debug/box")),
                Ok(o) => Err(format!("cargo build -p boxworks-bin failed: {}", String::from_utf8_lossy(&o.stderr).chars().rev().take(600).collect::<String>().chars().rev().collect::<String>())),
                Err(e) => Err(format!("cannot run cargo: {e}")),
            });
        }
        self.box_bin.clone().unwrap()
    }

    fn run_l(&mut self, case: &str, drv: &mut Driver) -> CaseOutcome {
        let mut out = CaseOutcome::default();
        let lc = LCase::decode(case);
        let list = build_list(&lc.items);
        let dom = in_domain(&list, &lc.c);
        match run_break(&Repo, &NoHyph, &lc.c, &list) {
            Err(p) => {
                if dom {
                    out.fail(Kind::ImplPanic, "attempts", format!("panic {}", strip_msg(&p)), format!("break_line_all_attempts panicked on an in-domain list: {p}"));
                } else {
                    out.tag("skip:search-panics-outside-domain");
                }
            }
            Ok(rb) => check_break(&mut out, drv, &lc.c, &list, &rb, false),
        }
        out
    }

    /// `D`: the `plain_tex_defaults()` of the three parameter sets against plain.tex (Lean constants).
    fn run_d(&mut self, drv: &mut Driver) -> CaseOutcome {
        let mut out = CaseOutcome::default();
        let want = drv.ask("dfl");
        let k = kp::Params::plain_tex_defaults();
        let t = bwt::Params::plain_tex_defaults();
        let mut real: Vec<i64> = vec![];
        let codes = plain_codes();
        real.push(codes.len() as i64);
        for (c, v) in &codes {
            real.extend([*c, *v]);
        }
        real.extend([k.inter_line_penalty as i64, k.club_penalty as i64, k.final_widow_penalty as i64, k.broken_penalty as i64]);
        for g in [&k.left_skip, &k.right_skip, &k.par_fill_skip, &t.space_skip, &t.extra_space_skip] {
            enc_glue_val(g, &mut real);
        }
        if want != join(&real) {
            out.fail(Kind::ImplVsSpec, "defaults", "plain_tex_defaults() differ from plain.tex", format!("plain.tex: {want}\nreal:      {}", join(&real)));
        }
        out.tag("defaults:checked");
        out.nontrivial = true;
        out
    }

    /// `B <ints as in T> | <text>`: the paragraph through the command line `box linebreak`
    /// (crates/boxworks-bin/src/box.rs: option handling, glue parsing, width lists), compared with
    /// the library call with the intended parameters, and judged by the same Lean verdict.
    fn run_b(&mut self, case: &str, prev: Option<&str>, drv: &mut Driver) -> CaseOutcome {
        let mut out = CaseOutcome::default();
        let tc = TCase::decode(case);
        let bin = match self.box_bin() {
            Ok(b) => b,
            Err(e) => {
                out.fail(Kind::ImplVsModel, "cli", "cli: cannot build the box binary", e);
                return out;
            }
        };
        // --- the library call with the intended parameters ---
        let cmr_file = self.cmr().file();
        let mut f1 = self.cmr().file();
        let prog = tfm::ligkern::CompiledProgram::compile_from_tfm_file(&mut f1).0;
        let mut tp = bwt::TextPreprocessorImpl::new(bwt::Params {
            space_factor_codes: bwt::SpaceFactorCodes::plain_tex_defaults(),
            space_skip: glue(tc.space_skip),
            extra_space_skip: glue(tc.xspace_skip),
        });
        tp.register_font(0, &cmr_file, prog);
        tp.activate_font(0);
        let text = tc.text.clone();
        if let Some(prev) = prev {
            let prev = prev.to_string();
            let mut scratch: Vec<ds::Horizontal> = vec![];
            if caught(|| tp.add_text(&prev, &mut scratch)).is_err() {
                out.tag("cli:skip-library-panics");
                return out;
            }
        }
        let mut list: Vec<ds::Horizontal> = vec![];
        if caught(|| tp.add_text(&text, &mut list)).is_err() {
            out.tag("cli:skip-library-panics");
            return out;
        }
        let mut f2 = self.cmr().file();
        let prog2 = tfm::ligkern::CompiledProgram::compile_from_tfm_file(&mut f2).0;
        let mut repo = bwt::TfmFontRepo::default();
        repo.register_font(0, self.cmr().file());
        let real_h = boxworks_hyphenate::Hyphenator::plain_tex_en_us(prog2);
        let rb = match run_break(&repo, &real_h, &tc.c, &list) {
            Ok(rb) if rb.lines.is_ok() => rb,
            _ => {
                out.tag("cli:skip-library-panics");
                return out;
            }
        };
        let lib_lines = rb.lines.as_ref().unwrap();
        // --- the command line ---
        let c = &tc.c;
        let d = kp::Params::plain_tex_defaults();
        let sc = |x: i64| format!("{}", Scaled(x as i32));
        let inf = |x: i64, o: i64| -> String {
            let s = sc(x);
            match o {
                0 => s,
                1 => format!("{}fil", s.trim_end_matches("pt")),
                2 => format!("{}fill", s.trim_end_matches("pt")),
                _ => format!("{}filll", s.trim_end_matches("pt")),
            }
        };
        let gs = |g: [i64; 5]| -> String {
            let mut s = sc(g[0]);
            if g[1] != 0 || g[2] != 0 {
                s.push_str(&format!(" plus {}", inf(g[1], g[2])));
            }
            if g[3] != 0 || g[4] != 0 {
                s.push_str(&format!(" minus {}", inf(g[3], g[4])));
            }
            s
        };
        let mut args: Vec<String> = vec!["linebreak".into()];
        if c.widths.len() == 1 && c.il % 2 == 0 {
            args.push(format!("--width={}", sc(c.widths[0])));
        } else {
            let value = c.widths.iter().map(|w| sc(*w)).collect::<Vec<_>>().join(", ");
            // M: the fields the model of `split(',')` + `trim` hands to `parse_from_string` are the widths as written
            let codes: Vec<i64> = value.chars().map(|ch| ch as i64).collect();
            let fields = parse_i64s(&drv.ask(&format!("wfs {} {}", codes.len(), join(&codes))));
            let mut want = vec![c.widths.len() as i64];
            for w in &c.widths {
                let f = sc(*w);
                want.push(f.chars().count() as i64);
                want.extend(f.chars().map(|ch| ch as i64));
            }
            if fields != want {
                out.fail(Kind::ImplVsModel, "cli", "cli: the model's fields of --widths differ from the widths written", format!("option {value:?}: model {fields:?}"));
            }
            args.push(format!("--widths={value}"));
        }
        let mut opt = |name: &str, val: String, is_default: bool| {
            if !is_default {
                args.push(format!("--{name}={val}"));
            }
        };
        opt("left-skip", gs(c.left), glue(c.left) == d.left_skip);
        opt("right-skip", gs(c.right), glue(c.right) == d.right_skip);
        opt("par-fill-skip", gs(c.parfill), glue(c.parfill) == d.par_fill_skip);
        opt("space-skip", gs(tc.space_skip), tc.space_skip == [0; 5]);
        opt("extra-space-skip", gs(tc.xspace_skip), tc.xspace_skip == [0; 5]);
        opt("inter-line-penalty", c.il.to_string(), c.il == d.inter_line_penalty as i64);
        opt("club-penalty", c.cl.to_string(), c.cl == d.club_penalty as i64);
        opt("final-widow-penalty", c.wd.to_string(), c.wd == d.final_widow_penalty as i64);
        opt("broken-penalty", c.br.to_string(), c.br == d.broken_penalty as i64);
        opt("tolerance", c.tol.to_string(), c.tol == d.tolerance as i64);
        opt("pre-tolerance", c.pretol.to_string(), c.pretol == d.pre_tolerance as i64);
        opt("emergency-stretch", sc(c.emerg), c.emerg == 0);
        opt("looseness", c.loose.to_string(), c.loose == 0);
        opt("hyphen-penalty", c.hyphpen.to_string(), c.hyphpen == d.hyphen_penalty as i64);
        opt("ex-hyphen-penalty", c.exhyphpen.to_string(), c.exhyphpen == d.ex_hyphen_penalty as i64);
        opt("line-penalty", c.linepen.to_string(), c.linepen == d.line_penalty as i64);
        let text_mode = c.vinit == 1;
        if text_mode {
            args.push("--output-text".into());
        }
        let mut texts_file = None;
        if let Some(prev) = prev {
            // two paragraphs, one per line of a texts file: the second one is compared
            let verif = std::env::var("VERIF_DIR").unwrap_or_else(|_| "/verif".into());
            let path = format!("{verif}/.work/C12/texts-{}.txt", std::process::id());
            std::fs::write(&path, format!("{prev}\n\n{text}\n")).expect("write texts file");
            args.push(format!("--texts-file={path}"));
            texts_file = Some(path);
            out.tag("cli:texts-file, second paragraph");
        } else {
            args.push("--".into());
            args.push(text.clone());
        }
        let n_par = if prev.is_some() { 2 } else { 1 };
        let o = std::process::Command::new(&bin).args(&args).env_remove("RUST_BACKTRACE").output();
        if let Some(p) = &texts_file {
            let _ = std::fs::remove_file(p);
        }
        let stdout = match o {
            Ok(o) if o.status.success() => String::from_utf8_lossy(&o.stdout).to_string(),
            Ok(o) => {
                let err = format!("{}{}", String::from_utf8_lossy(&o.stdout), String::from_utf8_lossy(&o.stderr));
                out.fail(Kind::ImplPanic, "cli", "cli: box linebreak fails where the library call succeeds", format!("args {args:?}: {}", err.chars().take(400).collect::<String>()));
                return out;
            }
            Err(e) => {
                out.fail(Kind::ImplVsModel, "cli", "cli: cannot run the box binary", e.to_string());
                return out;
            }
        };
        if text_mode {
            // `--output-text`: one line of text per line box. Reading the lines in order, without
            // the hyphens inserted at the line ends, must spell the text (Lean `spell`).
            out.tag("cli:output-text");
            let all_lines: Vec<&str> = stdout.lines().collect();
            // the lines of the last paragraph
            let out_lines: Vec<&str> = if n_par == 2 && all_lines.len() > lib_lines.len() { all_lines[all_lines.len() - lib_lines.len()..].to_vec() } else { all_lines.clone() };
            if out_lines.len() != lib_lines.len() || (n_par == 2 && all_lines.len() <= lib_lines.len()) {
                out.fail(Kind::ImplVsSpec, "cli", "cli: --output-text prints a different number of lines", format!("args {args:?}: {} lines, library {}", out_lines.len(), lib_lines.len()));
                return out;
            }
            let mut req = String::new();
            for (k, l) in out_lines.iter().enumerate() {
                let mut cs: String = l.chars().filter(|ch| *ch != ' ').collect();
                // a line broken at a hyphen inserted by the hyphenator ends with that hyphen
                if let Some(ds::Horizontal::Discretionary(d)) = rb.bps.get(k).and_then(|b| rb.list_after.get(*b)) {
                    if matches!(d.pre_break.last(), Some(ds::DiscretionaryElem::Char(ch)) if ch.char == '-') && cs.ends_with('-') {
                        cs.pop();
                    }
                }
                req.push_str(&format!(" 1 {}", cs.chars().count()));
                for ch in cs.chars() {
                    req.push_str(&format!(" {}", ch as u32));
                }
            }
            let all: String = text.split_ascii_whitespace().collect();
            let mut wreq = format!(" 1 {}", all.chars().count());
            for ch in all.chars() {
                wreq.push_str(&format!(" {}", ch as u32));
            }
            if drv.ask(&format!("spl {}{req}{wreq}", out_lines.len())) != "1" {
                out.fail(Kind::ImplVsSpec, "cli", "cli: the lines printed by --output-text do not spell the text", format!("args {args:?}\noutput: {stdout:?}"));
            }
            // spaces: every glue item of the line is one space
            for (k, l) in out_lines.iter().enumerate() {
                let want = lib_lines[k].list.iter().filter(|h| matches!(h, ds::Horizontal::Glue(_))).count();
                if l.chars().filter(|ch| *ch == ' ').count() != want {
                    out.fail(Kind::ImplVsModel, "cli", "cli: --output-text spaces differ from the glue items of the line", format!("line {k}: {l:?}, {want} glue items"));
                    break;
                }
            }
            out.nontrivial = rb.bps.len() >= 2;
            return out;
        }
        // The glue setting of the line boxes is not part of this property (C15) and very large ratios do not
        // parse back (`glue_ratio="20000.0"` is rejected by the Box language, C18's territory): neutralise them.
        let stdout: String = stdout
            .lines()
            .map(|l| match l.find("glue_ratio=\"") {
                Some(i) => format!("{}glue_ratio=\"0.0\",", &l[..i]),
                None => l.to_string(),
            })
            .collect::<Vec<_>>()
            .join("\n");
        let parsed = match boxworks::lang::parse_horizontal_list(&stdout) {
            Ok(p) => p,
            Err(_) => {
                out.fail(Kind::ImplVsModel, "cli", "cli: output is not box language", stdout.chars().take(300).collect::<String>());
                return out;
            }
        };
        let vlist: Vec<ds::Vertical> = match parsed.as_slice() {
            [ds::Horizontal::VBox(vb)] if n_par == 1 => vb.list.clone(),
            [ds::Horizontal::VBox(_), ds::Horizontal::VBox(vb)] if n_par == 2 => vb.list.clone(),
            _ => {
                out.fail(Kind::ImplVsSpec, "cli", "cli: box linebreak does not print one vbox per paragraph", format!("args {args:?}: {} items for {n_par} paragraphs", parsed.len()));
                return out;
            }
        };
        let (cli_lines, shape) = decode_vlist(&vlist);
        if let Some(e) = shape {
            out.fail(Kind::ImplVsModel, "cli", format!("cli: vlist shape: {e}"), e);
        }
        let mut it = Intern::default();
        let l_enc = enc_real_list(&rb.list_after, &mut it);
        let mut base = join(&c.lean_params());
        base.push(' ');
        base.push_str(&join(&l_enc));
        base.push(' ');
        base.push_str(&rb.bps.len().to_string());
        for b in &rb.bps {
            base.push(' ');
            base.push_str(&b.to_string());
        }
        let enc_lines = |lines: &[RLine], it: &mut Intern| -> String {
            let mut real = vec![lines.len() as i64];
            for ln in lines {
                real.extend(enc_real_list(&ln.list, it));
                real.extend([ln.width, ln.shift, ln.pen.is_some() as i64, ln.pen.unwrap_or(0)]);
            }
            join(&real)
        };
        let cli_s = enc_lines(&cli_lines, &mut it);
        let lib_s = enc_lines(lib_lines, &mut it);
        let verdict = drv.ask(&format!("spec {base} {cli_s}"));
        let mut flagged = false;
        if verdict != "ok valid" {
            flagged = true;
            let clauses = verdict.split(' ').next().unwrap_or("");
            out.fail(
                Kind::ImplVsSpec,
                "cli",
                format!("cli: box linebreak with the requested settings violates: {clauses}"),
                format!("args {args:?}; breaks of the library call {:?}; verdict {verdict}", rb.bps),
            );
        }
        let glues = |lines: &[RLine]| lines.iter().map(|l| l.glue_before).collect::<Vec<_>>();
        if !flagged && (cli_s != lib_s || glues(&cli_lines) != glues(lib_lines)) {
            out.fail(Kind::ImplVsModel, "cli", "cli: box linebreak differs from the library call with the same settings", format!("args {args:?}\ncli: {cli_s}\nlib: {lib_s}"));
        }
        out.tag("cli:run");
        out.tag(if c.widths.len() > 1 { "cli:several-widths" } else { "cli:one-width" });
        for (name, on) in [
            ("left-skip", glue(c.left) != d.left_skip),
            ("right-skip", glue(c.right) != d.right_skip),
            ("par-fill-skip", glue(c.parfill) != d.par_fill_skip),
            ("space-skip", tc.space_skip != [0; 5]),
            ("extra-space-skip", tc.xspace_skip != [0; 5]),
            ("glue with minus", c.left[3] != 0 || c.right[3] != 0 || tc.space_skip[3] != 0 || tc.xspace_skip[3] != 0),
            ("glue with fil/fill/filll", [c.left, c.right, c.parfill].iter().any(|g| g[2] != 0 || g[4] != 0)),
        ] {
            if on {
                out.tag(format!("cli:{name}"));
            }
        }
        out.nontrivial = rb.bps.len() >= 2;
        out
    }

    fn run_t(&mut self, case: &str, prev: Option<&str>, drv: &mut Driver) -> CaseOutcome {
        let mut out = CaseOutcome::default();
        let tc = TCase::decode(case);
        let cmr_file = self.cmr().file();
        let mut f1 = self.cmr().file();
        let prog = tfm::ligkern::CompiledProgram::compile_from_tfm_file(&mut f1).0;
        let mut codes = bwt::SpaceFactorCodes([1000; 256]);
        for (c, v) in &tc.codes {
            codes.0[*c as usize] = *v as i32;
        }
        let mut tp = bwt::TextPreprocessorImpl::new(bwt::Params { space_factor_codes: codes, space_skip: glue(tc.space_skip), extra_space_skip: glue(tc.xspace_skip) });
        tp.register_font(0, &cmr_file, prog);
        tp.activate_font(0);
        let text = tc.text.clone();
        if let Some(prev) = prev {
            // an earlier paragraph through the same preprocessor: its state must not leak
            let prev = prev.to_string();
            let mut scratch: Vec<ds::Horizontal> = vec![];
            if caught(|| tp.add_text(&prev, &mut scratch)).is_ok() {
                out.tag("text:second-paragraph");
            }
        }
        let mut list: Vec<ds::Horizontal> = vec![];
        let r = caught(|| tp.add_text(&text, &mut list));
        // --- the model's and the specification's inter-word glue ---
        let par = |p: tfm::NamedParameter| cmr_file.named_param_scaled(p).map(|s| s.0 as i64).unwrap_or(0);
        let words: Vec<&str> = text.split_ascii_whitespace().collect();
        let lead = text.chars().next().unwrap_or(' ').is_ascii_whitespace();
        let mut req = format!("txt {}", tc.codes.len());
        for (c, v) in &tc.codes {
            req.push_str(&format!(" {c} {v}"));
        }
        req.push_str(&format!(
            " {} {} {} {} {} {} {} {}",
            join(&tc.space_skip),
            join(&tc.xspace_skip),
            par(tfm::NamedParameter::Space),
            par(tfm::NamedParameter::Stretch),
            par(tfm::NamedParameter::Shrink),
            par(tfm::NamedParameter::ExtraSpace),
            lead as i64,
            words.len()
        ));
        for w in &words {
            req.push_str(&format!(" {}", w.chars().count()));
            for ch in w.chars() {
                req.push_str(&format!(" {}", ch as u32));
            }
        }
        let trace = parse_i64s(&drv.ask(&req));
        assert_eq!(trace.len(), words.len() * 20, "txt reply length");
        let model_panics = (0..words.len()).any(|k| trace[k * 20 + 1] == 1 && trace[k * 20 + 2] == 1);
        if let Err(p) = r {
            if model_panics {
                out.tag("text:overflow-panic-as-model");
            } else {
                out.fail(Kind::ImplPanic, "add_text", format!("panic {}", strip_msg(&p)), format!("add_text panicked: {p}"));
            }
            return out;
        }
        let real_glues: Vec<[i64; 5]> = list
            .iter()
            .filter_map(|h| match h {
                ds::Horizontal::Glue(g) => {
                    let mut v = vec![];
                    enc_glue_val(&g.value, &mut v);
                    Some([v[0], v[1], v[2], v[3], v[4]])
                }
                _ => None,
            })
            .collect();
        let n_spaces = (0..words.len()).filter(|k| trace[k * 20 + 1] == 1).count();
        if real_glues.len() != n_spaces {
            out.fail(Kind::ImplVsModel, "spaces", "number of inter-word glue items differs from the model", format!("model {n_spaces}, real {}", real_glues.len()));
        } else {
            let mut gi = 0;
            for k in 0..words.len() {
                let t = &trace[k * 20..k * 20 + 20];
                if t[1] != 1 {
                    continue;
                }
                let real = real_glues[gi];
                gi += 1;
                let sf = t[0];
                let (new, old, spec) = (&t[2..8], &t[8..14], &t[14..20]);
                out.tag(format!(
                    "space:sf{} spaceskip={} xspaceskip={}",
                    if sf == 1000 { "=1000" } else if sf < 1000 { "<1000" } else if sf < 2000 { "<2000" } else { ">=2000" },
                    if glue(tc.space_skip).is_zero() { "0" } else { "+" },
                    if glue(tc.xspace_skip).is_zero() { "0" } else { "+" }
                ));
                let mut flagged = false;
                if spec[0] == 0 && spec[1..] != real[..] {
                    flagged = true;
                    let sig = if old[0] == 0 && old[1..] == real[..] {
                        "spaceskip is not scaled by the space factor (TeX 1043/1044)".to_string()
                    } else {
                        "inter-word glue differs from TeX 1041-1044".to_string()
                    };
                    out.fail(Kind::ImplVsSpec, "glue", sig, format!("space before word {k} ({:?}), space factor {sf}: real {real:?}, TeX {:?}", words[k], &spec[1..]));
                }
                if !flagged && (new[0] != 0 || new[1..] != real[..]) {
                    out.fail(Kind::ImplVsModel, "glue", "inter-word glue differs from the model", format!("space before word {k}, space factor {sf}: real {real:?}, model {new:?}"));
                }
            }
        }
        // --- spelling and explicit hyphens ---
        let mut req = String::new();
        let mut n_items = 0;
        let mut hyphen_rule_ok = true;
        let mut font_kerns_normal = true;
        for (i, h) in list.iter().enumerate() {
            let chars: Option<String> = match h {
                ds::Horizontal::Char(c) => Some(c.char.to_string()),
                ds::Horizontal::Ligature(l) => Some(l.original_chars.to_string()),
                _ => None,
            };
            match h {
                ds::Horizontal::Glue(_) => {
                    req.push_str(" 0");
                    n_items += 1;
                }
                ds::Horizontal::Kern(k) => {
                    // TeX.2021.1040: `new_kern`, subtype normal — font kerns are neither breakpoints nor discardable
                    if k.kind != ds::KernKind::Normal {
                        font_kerns_normal = false;
                    }
                }
                ds::Horizontal::Discretionary(d) => {
                    // TeX.2021.1039: only after a hyphen character, and empty
                    let prev_hyphen = i > 0
                        && match &list[i - 1] {
                            ds::Horizontal::Char(c) => c.char == '-',
                            ds::Horizontal::Ligature(l) => l.original_chars.ends_with('-'),
                            _ => false,
                        };
                    if !prev_hyphen || !d.pre_break.is_empty() || !d.post_break.is_empty() || d.replace_count != 0 {
                        hyphen_rule_ok = false;
                    }
                }
                _ => {}
            }
            if let Some(cs) = chars {
                if cs.ends_with('-') && !matches!(list.get(i + 1), Some(ds::Horizontal::Discretionary(_))) {
                    hyphen_rule_ok = false;
                }
                req.push_str(&format!(" 1 {}", cs.chars().count()));
                for ch in cs.chars() {
                    req.push_str(&format!(" {}", ch as u32));
                }
                n_items += 1;
            }
        }
        let mut wreq = format!(" {}", words.len());
        for w in &words {
            wreq.push_str(&format!(" {}", w.chars().count()));
            for ch in w.chars() {
                wreq.push_str(&format!(" {}", ch as u32));
            }
        }
        let spelled = drv.ask(&format!("spl {n_items}{req}{wreq}"));
        if spelled != "1" {
            out.fail(Kind::ImplVsSpec, "spell", "the list does not spell the words", format!("text {:?}: driver says {spelled}", text));
        }
        // --- the whole list against the model `addText` (the real lig/kern runs are its parameter),
        //     and the text verdict (spelling, one glue per blank run) with the words split by Lean ---
        {
            let enc_t = |h: &ds::Horizontal, v: &mut Vec<i64>| match h {
                ds::Horizontal::Char(c) => v.extend([0, c.char as i64]),
                ds::Horizontal::Ligature(l) => {
                    v.extend([1, l.char as i64, l.original_chars.chars().count() as i64]);
                    v.extend(l.original_chars.chars().map(|c| c as i64));
                    v.extend([l.includes_left_boundary as i64, l.includes_right_boundary as i64]);
                }
                ds::Horizontal::Kern(k) => v.extend([2, k.width.0 as i64]),
                ds::Horizontal::Discretionary(_) => v.push(3),
                ds::Horizontal::Glue(g) => {
                    v.extend([4, 0]);
                    enc_glue_val(&g.value, v);
                }
                _ => v.push(8),
            };
            let mut real_items: Vec<i64> = vec![];
            for h in &list {
                enc_t(h, &mut real_items);
            }
            let text_codes: Vec<i64> = text.chars().map(|c| c as i64).collect();
            // S on the real list
            let v = drv.ask(&format!("spt {} {} {} {}", list.len(), join(&real_items), text_codes.len(), join(&text_codes)));
            if v != "1 1" {
                let sig = if v.starts_with('0') { "the list does not spell the text (words split by Lean)" } else { "glue items do not match the blank runs of the text" };
                out.fail(Kind::ImplVsSpec, "text", sig, format!("text {:?}: verdict {v}", text));
            }
            // M
            let mut f3 = self.cmr().file();
            let prog3 = tfm::ligkern::CompiledProgram::compile_from_tfm_file(&mut f3).0;
            let mut distinct: Vec<&str> = words.clone();
            distinct.sort();
            distinct.dedup();
            let mut table = format!("{}", distinct.len());
            for w in &distinct {
                table.push_str(&format!(" {}", w.chars().count()));
                for ch in w.chars() {
                    table.push_str(&format!(" {}", ch as u32));
                }
                let items: Vec<tfm::ligkern::RunItem> = prog3.run(w).collect();
                table.push_str(&format!(" {}", items.len()));
                for it in &items {
                    match it {
                        tfm::ligkern::RunItem::Char(c) => table.push_str(&format!(" 0 {}", *c as u32)),
                        tfm::ligkern::RunItem::Kern(k) => table.push_str(&format!(" 1 {}", k.0)),
                        tfm::ligkern::RunItem::Ligature(l) => {
                            table.push_str(&format!(" 2 {} {}", l.c as u32, l.original.chars().count()));
                            for ch in l.original.chars() {
                                table.push_str(&format!(" {}", ch as u32));
                            }
                            table.push_str(&format!(" {} {}", l.includes_left_boundary as i64, l.includes_right_boundary as i64));
                        }
                    }
                }
            }
            let mut req = format!("adt {}", tc.codes.len());
            for (c, v) in &tc.codes {
                req.push_str(&format!(" {c} {v}"));
            }
            req.push_str(&format!(
                " {} {} {} {} {} {} {} {} {table}",
                join(&tc.space_skip),
                join(&tc.xspace_skip),
                par(tfm::NamedParameter::Space),
                par(tfm::NamedParameter::Stretch),
                par(tfm::NamedParameter::Shrink),
                par(tfm::NamedParameter::ExtraSpace),
                text_codes.len(),
                join(&text_codes)
            ));
            let model = drv.ask(&req);
            if model != join(&real_items) && out.failures.is_empty() {
                out.fail(Kind::ImplVsModel, "text", "add_text list differs from the model addText", format!("text {:?}\nmodel: {model}\nreal:  {}", text, join(&real_items)));
            }
        }
        if !font_kerns_normal {
            out.fail(Kind::ImplVsSpec, "spell", "a kern from the font's lig/kern program is not a normal kern (TeX 1040)", format!("text {:?}", text));
        }
        if !hyphen_rule_ok {
            out.fail(Kind::ImplVsSpec, "spell", "explicit hyphen: discretionary missing or misplaced (TeX 1039)", format!("text {:?}", text));
        }
        if list.iter().any(|h| matches!(h, ds::Horizontal::Ligature(_))) {
            out.tag("text:ligature");
        }
        if list.iter().any(|h| matches!(h, ds::Horizontal::Kern(_))) {
            out.tag("text:kern");
        }
        if list.iter().any(|h| matches!(h, ds::Horizontal::Discretionary(_))) {
            out.tag("text:explicit-hyphen");
        }
        // --- break it ---
        let mut f2 = self.cmr().file();
        let prog2 = tfm::ligkern::CompiledProgram::compile_from_tfm_file(&mut f2).0;
        let mut repo = bwt::TfmFontRepo::default();
        repo.register_font(0, self.cmr().file());
        let real_h = boxworks_hyphenate::Hyphenator::plain_tex_en_us(prog2);
        let rb = if tc.hyph { run_break(&repo, &real_h, &tc.c, &list) } else { run_break(&repo, &NoHyph, &tc.c, &list) };
        match rb {
            Err(p) => {
                out.fail(Kind::ImplPanic, "attempts", format!("panic {}", strip_msg(&p)), format!("break_line_all_attempts panicked on a text: {p}"));
            }
            Ok(rb) => {
                if tc.hyph && rb.list_after.len() != list.len() + 2 - matches!(list.last(), Some(ds::Horizontal::Glue(_))) as usize {
                    out.tag("text:hyphenated");
                }
                for b in &rb.bps {
                    if let Some(ds::Horizontal::Discretionary(d)) = rb.list_after.get(*b) {
                        if d.pre_break.is_empty() {
                            out.tag("text:break at explicit hyphen");
                        } else if d.replace_count > 0 {
                            out.tag("text:break at inserted hyphen inside a ligature");
                        } else {
                            out.tag("text:break at inserted hyphen");
                        }
                    }
                }
                // the list that was actually broken (paragraph end appended, possibly hyphenated:
                // discretionaries inserted, ligatures rebuilt) still spells the words
                let mut req = String::new();
                let mut n_items = 0;
                for h in &rb.list_after {
                    match h {
                        ds::Horizontal::Glue(_) => {
                            req.push_str(" 0");
                            n_items += 1;
                        }
                        ds::Horizontal::Char(_) | ds::Horizontal::Ligature(_) => {
                            let cs = match h {
                                ds::Horizontal::Char(c) => c.char.to_string(),
                                ds::Horizontal::Ligature(l) => l.original_chars.to_string(),
                                _ => unreachable!(),
                            };
                            req.push_str(&format!(" 1 {}", cs.chars().count()));
                            for ch in cs.chars() {
                                req.push_str(&format!(" {}", ch as u32));
                            }
                            n_items += 1;
                        }
                        _ => {}
                    }
                }
                if drv.ask(&format!("spl {n_items}{req}{wreq}")) != "1" {
                    out.fail(Kind::ImplVsSpec, "spell", "the broken (hyphenated) list does not spell the words", format!("text {:?}", text));
                }
                check_break(&mut out, drv, &tc.c, &list, &rb, tc.hyph);
            }
        }
        out
    }
}

impl Property for C12 {
    fn id(&self) -> &'static str {
        "C12"
    }
    fn rule(&self) -> String {
        "Cases: (a) boundary corpus (witnesses of C12-a/b/c, empty list, single box, trailing glue, forced breaks, every break kind); (b) every list of length ≤ 4 (quick) / ≤ 5 \
         (thorough) over an 8-item alphabet {box, glue, penalty 0, forced penalty, explicit kern, discretionary with pre-break, discretionary with post-break and replace \
         count 1, empty discretionary} at a narrow and a wide measure; (c) random hand-built paragraphs: 1–12 words of chars/hboxes/rules/ligatures/vboxes, discretionaries \
         (pre/post lists of boxes and kerns, replace 0–2), font/accent/math kerns, runs of consecutive discardable items (glue, penalties incl. forced, explicit kerns), \
         1–3 line widths, 0–6 indents, left/right/par-fill skips, all four inter-line penalties, tolerance/looseness/emergency settings, four shapes of the preceding vertical \
         list; a share with mark/adjust/insertion/math nodes (outside the quantifier: HBox::pack answers todo!(); only the model's panic prediction is compared); \
         (d) random texts over cmr10 (words with ligatures, kerns, punctuation of every space-factor class, explicit hyphens and dashes) through the real \
         TextPreprocessorImpl::add_text with random \\spaceskip/\\xspaceskip/space-factor codes, then the real break_line with and without the real plain-TeX hyphenator. \
         a quarter of them (`P`) after an earlier paragraph through the same preprocessor; (e) `B`: the same kind of text through the real command line \
         `box linebreak` of the tree under test (all skip/penalty/width options, glue strings with plus/minus and fil orders, text as argument or two paragraphs via \
         --texts-file, box output or --output-text), judged by the same Lean verdict with the intended settings; (f) `D`: plain_tex_defaults() against plain.tex. \
         Non-trivial = inside the quantifier and at least two lines; distinct = distinct case string."
            .into()
    }
    fn builtin_corpus(&self) -> Vec<String> {
        let mut v = vec![];
        let sp = || It::Glue(0, [5, 3, 0, 2, 0]);
        let b = |w: i64| It::Box(1, w);
        let mk = |items: Vec<It>, widths: Vec<i64>| LCase { c: Common { tol: 10000, pretol: 10000, ..Common::plain(widths) }, items }.encode();
        // C12-a: box glue penalty glue box, broken at the first glue
        v.push(mk(vec![b(10), sp(), It::Pen(0), sp(), b(10)], vec![12]));
        // C12-c: a kern at the end of a discretionary's replacement list, followed by glue
        v.push(mk(vec![b(10), It::Disc(vec![El::Box(1, 2)], vec![El::Box(1, 3)], 1), It::Kern(1, 2), sp(), b(10)], vec![12]));
        v.push(mk(vec![b(10), It::Disc(vec![El::Box(1, 2)], vec![], 1), It::Kern(1, 2), sp(), b(10), sp(), b(10)], vec![13]));
        // empty list, single box, trailing glue(s)
        v.push(mk(vec![], vec![12]));
        v.push(mk(vec![b(10)], vec![12]));
        v.push(mk(vec![b(10), sp()], vec![12]));
        v.push(mk(vec![b(10), sp(), sp()], vec![12]));
        // every break kind
        v.push(mk(vec![b(10), It::Kern(1, 2), sp(), b(10), It::Pen(-10000), b(10), It::Disc(vec![El::Box(1, 2)], vec![El::Box(1, 3)], 1), b(4), b(6), sp(), b(10)], vec![12]));
        v.push(mk(vec![b(10), It::Disc(vec![], vec![], 0), sp(), sp(), b(10), It::Pen(-10000), It::Pen(-10000), b(3)], vec![12]));
        // forced break directly before the paragraph end: the last line is pruned away entirely
        v.push(mk(vec![b(10), sp(), It::Pen(-10000), sp()], vec![12]));
        // math and inert nodes (outside the quantifier)
        v.push(mk(vec![b(10), It::Math(false), b(3), It::Math(true), sp(), b(10)], vec![12]));
        v.push(mk(vec![b(10), It::Inert(0), sp(), b(10)], vec![12]));
        // penalties: overflow of the sum
        let mut lc = LCase { c: Common { tol: 10000, pretol: 10000, cl: 2147483647, il: 1, ..Common::plain(vec![12]) }, items: vec![b(10), sp(), b(10), sp(), b(10)] };
        v.push(lc.encode());
        lc.c.cl = 0;
        lc.c.wd = 0;
        v.push(lc.encode());
        // C12-b: \spaceskip with stretch and shrink, space factors 1250 and 3000
        let t = TCase {
            hyph: false,
            c: Common::plain(vec![6553600]),
            space_skip: [196608, 65536, 0, 65536, 0],
            xspace_skip: [0; 5],
            codes: plain_codes(),
            text: "a, b. c".into(),
        };
        v.push(t.encode());
        v.push("D".into());
        v
    }
    fn generate(&mut self, ctx: &Ctx, rng: &mut Rng) -> Vec<String> {
        let mut v = vec![];
        // (b) exhaustive small scope
        let alpha = vec![
            It::Box(1, 10),
            It::Glue(0, [5, 3, 0, 2, 0]),
            It::Pen(0),
            It::Pen(-10000),
            It::Kern(1, 2),
            It::Disc(vec![El::Box(1, 3)], vec![], 0),
            It::Disc(vec![El::Box(1, 2)], vec![El::Box(1, 4)], 1),
            It::Disc(vec![], vec![], 0),
        ];
        let max_len = if ctx.thorough { 5 } else { 4 };
        let mut frontier: Vec<Vec<It>> = vec![vec![]];
        let mut lists: Vec<Vec<It>> = vec![];
        for _ in 0..max_len {
            let mut next = vec![];
            for l in &frontier {
                for a in &alpha {
                    let mut m = l.clone();
                    m.push(a.clone());
                    next.push(m);
                }
            }
            lists.extend(next.iter().cloned());
            frontier = next;
        }
        for mut items in lists {
            fix_replace(&mut items);
            for (w, left) in [(12, [0i64; 5]), (25, [1, 0, 0, 0, 0])] {
                let c = Common { tol: 10000, pretol: 10000, left, indents: vec![3], ..Common::plain(vec![w]) };
                v.push(LCase { c, items: items.clone() }.encode());
            }
        }
        // (c) random hand-built paragraphs
        let n = if ctx.thorough { 150_000 } else { 3_000 };
        let mut r = rng.fork();
        for _ in 0..n {
            let u: i64 = if r.chance(2, 3) { 65536 } else { 1 };
            let exotic = r.chance(1, 12);
            let items = gen_list(&mut r, u, 60, exotic);
            // measures from narrower than a single box (overfull and forced solutions) to comfortable
            let base = u * *r.pick(&[5, 8, 12, 20, 25, 30, 40, 40, 50, 60, 80, 120]);
            let c = gen_common(&mut r, u, base);
            v.push(LCase { c, items }.encode());
        }
        // (d) texts
        let n = if ctx.thorough { 40_000 } else { 1_200 };
        let mut r = rng.fork();
        for _ in 0..n {
            let u = 65536;
            let base = u * *r.pick(&[40, 60, 80, 100, 120, 150, 200, 345]);
            let mut c = gen_common(&mut r, u, base);
            if r.chance(1, 2) {
                c.tol = *r.pick(&[200, 1000, 10000]);
                c.pretol = *r.pick(&[100, -1]);
            }
            let sk = |r: &mut Rng| -> [i64; 5] {
                match r.below(6) {
                    0 | 1 | 2 => [0; 5],
                    3 => *r.pick(&[[218430, 0, 0, 0, 0], [0, 131072, 0, 0, 0], [0, 0, 0, 65536, 0], [0, 65536, 1, 0, 0]]),
                    4 => [196608, 65536, 0, 65536, 0],
                    _ => [r.range(0, 400000), r.range(0, 200000), *r.pick(&[0, 0, 1]), r.range(0, 100000), 0],
                }
            };
            let mut codes = plain_codes();
            if r.chance(1, 4) {
                for _ in 0..1 + r.below(4) {
                    let ch = *r.pick(&['a', 'e', 'f', '.', ',', ')', 'A', '-', 'o', '!']) as i64;
                    let val = *r.pick(&[0, 1, 500, 999, 1000, 1001, 1999, 2000, 2001, 3000, 32767, -5]);
                    codes.retain(|(c, _)| *c != ch);
                    if val != 1000 {
                        codes.push((ch, val));
                    }
                }
                codes.sort();
            }
            let t = TCase { hyph: r.chance(1, 2), c, space_skip: sk(&mut r), xspace_skip: sk(&mut r), codes, text: gen_text(&mut r) };
            if r.chance(1, 4) {
                // the same preprocessor has already typeset a paragraph (ending in any space-factor class)
                let prev = esc(&format!("{} {}", gen_text(&mut r).trim(), *r.pick(&["end.", "why?", "thus:", "here;", "well,", "NASA", "B)", "so"])));
                let e = t.encode();
                let (ints, text) = e[2..].split_once(" | ").unwrap_or((&e[2..], ""));
                v.push(format!("P {ints} | {prev} | {text}"));
            } else {
                v.push(t.encode());
            }
        }
        // (e) the command line: box linebreak
        let n = if ctx.thorough { 1_500 } else { 160 };
        let mut r = rng.fork();
        for _ in 0..n {
            let u = 65536;
            let base = u * *r.pick(&[60, 80, 100, 120, 150, 200, 345]);
            let mut c = gen_common(&mut r, u, base);
            c.vinit = r.chance(1, 4) as i64; // 1 = `--output-text`
            c.indents.clear();
            if r.chance(1, 2) {
                c.tol = *r.pick(&[200, 1000, 10000]);
                c.pretol = *r.pick(&[100, -1]);
            }
            let gl = |r: &mut Rng| -> [i64; 5] {
                match r.below(5) {
                    0 | 1 => [0; 5],
                    2 => [r.range(-100000, 400000), 0, 0, 0, 0],
                    3 => [r.range(0, 300000), r.range(0, 200000), *r.pick(&[0, 0, 1, 2, 3]), r.range(0, 100000), *r.pick(&[0, 0, 0, 1])],
                    _ => [0, r.range(1, 200000), *r.pick(&[0, 1, 2, 3]), r.range(0, 50000), 0],
                }
            };
            c.left = gl(&mut r);
            c.right = gl(&mut r);
            if r.chance(1, 3) {
                c.parfill = [r.range(0, 200000), r.range(0, 655360), *r.pick(&[0, 1, 2, 3]), 0, 0];
            }
            let sk = |r: &mut Rng| -> [i64; 5] {
                match r.below(4) {
                    0 | 1 => [0; 5],
                    2 => [r.range(0, 400000), r.range(0, 200000), 0, r.range(0, 100000), 0],
                    _ => *r.pick(&[[0, 131072, 0, 0, 0], [218430, 0, 0, 0, 0], [0, 0, 0, 65536, 0]]),
                }
            };
            let t = TCase { hyph: true, c, space_skip: sk(&mut r), xspace_skip: sk(&mut r), codes: plain_codes(), text: gen_text(&mut r) };
            let e = t.encode();
            if r.chance(1, 3) && !t.text.trim().is_empty() {
                let prev = esc(&format!("{} {}", gen_text(&mut r).trim(), *r.pick(&["end.", "why?", "thus:", "here;", "NASA", "so"])).replace(['\n', '\r'], " "));
                let (ints, text) = e[2..].split_once(" | ").unwrap_or((&e[2..], ""));
                v.push(format!("B {ints} | {prev} | {text}"));
            } else {
                v.push(format!("B{}", &e[1..]));
            }
        }
        v
    }

    fn run_case(&mut self, case: &str, drv: &mut Driver) -> CaseOutcome {
        if let Some(rest) = case.strip_prefix("L ") {
            self.run_l(rest, drv)
        } else if let Some(rest) = case.strip_prefix("T ") {
            self.run_t(rest, None, drv)
        } else if let Some(rest) = case.strip_prefix("P ") {
            // `P <ints> | <previous paragraph> | <text>`
            let (ints, texts) = rest.split_once(" | ").expect("P case has | separators");
            let (prev, text) = texts.split_once(" | ").unwrap_or((texts, ""));
            self.run_t(&format!("{ints} | {text}"), Some(&unesc(prev)), drv)
        } else if let Some(rest) = case.strip_prefix("B ") {
            // `B <ints> | <text>` or `B <ints> | <previous paragraph> | <text>` (both through --texts-file)
            let (ints, texts) = rest.split_once(" | ").unwrap_or((rest, ""));
            match texts.split_once(" | ") {
                // (a texts file has one paragraph per line: only texts without line ends go that way)
                Some((prev, text)) => {
                    let (p, t) = (unesc(prev), unesc(text));
                    if !p.trim().is_empty() && !t.is_empty() && !t.contains(['\n', '\r']) && !p.contains(['\n', '\r']) {
                        self.run_b(&format!("{ints} | {text}"), Some(&p), drv)
                    } else {
                        self.run_b(&format!("{ints} | {text}"), None, drv)
                    }
                }
                None => self.run_b(rest, None, drv),
            }
        } else if case == "D" {
            self.run_d(drv)
        } else {
            panic!("case must start with L, T, P or B")
        }
    }

    fn shrink(&self, case: &str) -> Vec<String> {
        let mut out = vec![];
        if let Some(rest) = case.strip_prefix("L ") {
            let lc = LCase::decode(rest);
            let n = lc.items.len();
            let mut push = |items: Vec<It>, c: &Common| {
                let mut items = items;
                fix_replace(&mut items);
                out.push(LCase { c: c.clone(), items }.encode());
            };
            if n > 1 {
                push(lc.items[..n / 2].to_vec(), &lc.c);
                push(lc.items[n / 2..].to_vec(), &lc.c);
            }
            for i in 0..n {
                let mut items = lc.items.clone();
                items.remove(i);
                push(items, &lc.c);
            }
            let mut c = lc.c.clone();
            if c.widths.len() > 1 {
                c.widths.pop();
                push(lc.items.clone(), &c);
            }
            let mut c = lc.c.clone();
            if !c.indents.is_empty() {
                c.indents.pop();
                push(lc.items.clone(), &c);
            }
            for f in 0..6 {
                let mut c = lc.c.clone();
                match f {
                    0 => c.left = [0; 5],
                    1 => c.right = [0; 5],
                    2 => c.vinit = 0,
                    3 => c.loose = 0,
                    4 => c.emerg = 0,
                    _ => {
                        c.il = 0;
                    }
                }
                push(lc.items.clone(), &c);
            }
        } else if let Some(rest) = case.strip_prefix("P ") {
            let (ints, texts) = rest.split_once(" | ").unwrap_or((rest, ""));
            let (prev, text) = texts.split_once(" | ").unwrap_or((texts, ""));
            for cand in self.shrink(&format!("T {ints} | {text}")) {
                let (i2, t2) = cand[2..].split_once(" | ").unwrap_or((&cand[2..], ""));
                out.push(format!("P {i2} | {prev} | {t2}"));
            }
            let pw: Vec<&str> = prev.split(' ').collect();
            if pw.len() > 1 {
                out.push(format!("P {ints} | {} | {text}", pw[pw.len() / 2..].join(" ")));
            }
        } else if let Some(rest) = case.strip_prefix("B ") {
            if rest.matches(" | ").count() >= 2 {
                // keep the previous paragraph, shrink the rest
                let (ints, texts) = rest.split_once(" | ").unwrap();
                let (prev, text) = texts.split_once(" | ").unwrap();
                for cand in self.shrink(&format!("B {ints} | {text}")) {
                    let (i2, t2) = cand[2..].split_once(" | ").unwrap_or((&cand[2..], ""));
                    if !t2.is_empty() {
                        out.push(format!("B {i2} | {prev} | {t2}"));
                    }
                }
                let pw: Vec<&str> = prev.split(' ').collect();
                if pw.len() > 1 {
                    out.push(format!("B {ints} | {} | {text}", pw[pw.len() / 2..].join(" ")));
                }
                return out;
            }
            for cand in self.shrink(&format!("T {rest}")) {
                out.push(format!("B{}", &cand[1..]));
            }
            let mut t2 = TCase::decode(rest);
            for f in 0..5 {
                let mut changed = true;
                match f {
                    0 if t2.c.left != [0; 5] => t2.c.left = [0; 5],
                    1 if t2.c.right != [0; 5] => t2.c.right = [0; 5],
                    2 if t2.space_skip != [0; 5] => t2.space_skip = [0; 5],
                    3 if t2.xspace_skip != [0; 5] => t2.xspace_skip = [0; 5],
                    4 if t2.c.parfill != [0, 65536, 1, 0, 0] => t2.c.parfill = [0, 65536, 1, 0, 0],
                    _ => changed = false,
                }
                if changed {
                    out.push(format!("B{}", &t2.encode()[1..]));
                    t2 = TCase::decode(rest);
                }
            }
        } else if let Some(rest) = case.strip_prefix("T ") {
            let tc = TCase::decode(rest);
            let words: Vec<&str> = tc.text.split(' ').collect();
            let mk = |text: String, tc: &TCase| TCase { hyph: tc.hyph, c: tc.c.clone(), space_skip: tc.space_skip, xspace_skip: tc.xspace_skip, codes: tc.codes.clone(), text }.encode();
            if words.len() > 1 {
                out.push(mk(words[..words.len() / 2].join(" "), &tc));
                out.push(mk(words[words.len() / 2..].join(" "), &tc));
                for i in 0..words.len() {
                    let mut w = words.clone();
                    w.remove(i);
                    out.push(mk(w.join(" "), &tc));
                }
            }
            // character level: halves, then single characters (keeps blanks of every kind where they are)
            let chars: Vec<char> = tc.text.chars().collect();
            if chars.len() > 1 {
                out.push(mk(chars[..chars.len() / 2].iter().collect(), &tc));
                out.push(mk(chars[chars.len() / 2..].iter().collect(), &tc));
                if chars.len() <= 40 {
                    for i in 0..chars.len() {
                        let mut c2 = chars.clone();
                        c2.remove(i);
                        out.push(mk(c2.into_iter().collect(), &tc));
                    }
                }
            }
            if tc.hyph {
                let mut t2 = TCase::decode(rest);
                t2.hyph = false;
                out.push(t2.encode());
            }
            let mut t2 = TCase::decode(rest);
            if !t2.c.indents.is_empty() || t2.c.widths.len() > 1 || t2.c.vinit != 0 {
                t2.c.indents.clear();
                t2.c.widths.truncate(1);
                t2.c.vinit = 0;
                out.push(t2.encode());
            }
        }
        out
    }
}

fn main() {
    run(C12 { cmr: None, box_bin: None });
}
