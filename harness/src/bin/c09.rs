//! C09 — interpreter totality: any input ends in success or a located error that renders.
//!
//! Case strings (one ASCII line each; programs are escaped, see `enc`/`dec`):
//!   `run <mode> <prog>`    the real texlang VM + every texlang-stdlib primitive (enumerated at
//!                          run time from `texlang_stdlib::built_in_commands`) over the program,
//!                          in interaction mode e|s|n|b (errorstop, scroll, nonstop, batch; the
//!                          mode primitive is prepended to the source), mock terminal, in-memory
//!                          file system, step budget through the `TexlangState` hooks of the
//!                          harness-owned state `H`. S: outcome is Ok or a `TracedTexError`
//!                          whose `Display` renders (inside `caught`) and shows a location;
//!                          every source excerpt of the error is compared with the Lean model
//!                          of `highlight_substring` (I vs M) and judged by the Lean spec.
//!   `proto <mode> <ev>*`   the shutdown protocol: harness-owned primitives that perform exactly
//!                          one protocol event each (ok, recoverable error, fatal error, normal
//!                          shutdown, and the two contract violations "signal ignored" and
//!                          "spurious signal") driven through the real `VM::run` and the real
//!                          `errormode::recoverable_error_hook`; compared with the Lean machine.
//!   `chr <n>`              `\catcode <n>=12` : code -> char conversion vs Lean `charFromCode`.
//!   `uint <N> <n>`         bounded unsigned scan (`\openin`, `\toks`, `\count`) vs Lean `uintBound`.
//!   `ifcase <n> <k>`       `\ifcase n` with k `\or` branches vs Lean `ifcaseSelect`.
//!   `deep <n>`             n consecutive empty expansions in a child process with the default
//!                          8 MiB main-thread stack (a stack overflow is not a panic; it kills
//!                          the process, so it is observed from outside).
//!
//! Every program runs on a *runner thread* behind an allocation guard (`GuardAlloc`): a single
//! request of `BIG_REQUEST` bytes or more made by the interpreter is never served. The guard
//! reports `Outcome::BigAlloc` for the program and parks the runner for good (nothing is
//! allocated, nothing unwinds through the allocator); the next program gets a new runner. So a
//! program like `\newIntArray\J\dimen0` with a large `\dimen0` (known finding C09-m) costs
//! nothing and is classified the same way on every machine, instead of taking as long as the
//! machine needs to fault in gigabytes (2 s here, more than the 45 s watchdog limit in a
//! freshly restored sandbox, where it was misreported as an endless loop).

use std::cell::{Cell, RefCell};
use std::collections::HashMap;
use std::rc::Rc;

use texlang::command;
use texlang::error;
use texlang::prelude as txl;
use texlang::token;
use texlang::traits::*;
use texlang::types;
use texlang::types::CatCode;
use texlang::vm;
use texlang_common as tc;
use texlang_stdlib as sl;
use vh::*;

// ------------------------------------------------------------------------------------------
// Escaping of programs into one ASCII line
// ------------------------------------------------------------------------------------------

/// `~n` newline, `~~` tilde, `~u<hex>;` any other non-printable or non-ASCII character,
/// `~.` terminator (protects trailing spaces).
fn enc_body(prog: &str) -> String {
    let mut o = String::new();
    for c in prog.chars() {
        match c {
            '\n' => o.push_str("~n"),
            '~' => o.push_str("~~"),
            ' '..='}' => o.push(c),
            c => o.push_str(&format!("~u{:x};", c as u32)),
        }
    }
    o
}
fn enc(prog: &str) -> String {
    format!("{}~.", enc_body(prog))
}
/// Statement list: parts are separated by `~|` (which decodes to nothing).
fn enc_parts(parts: &[String]) -> String {
    format!("{}~.", parts.iter().map(|p| enc_body(p)).collect::<Vec<_>>().join(SEP))
}
/// Split an encoded body at the `~|` separators (escape-aware).
fn split_parts(body: &str) -> Vec<String> {
    let mut out = vec![String::new()];
    let mut it = body.chars();
    while let Some(c) = it.next() {
        if c == '~' {
            match it.next() {
                Some('|') => out.push(String::new()),
                Some(d) => {
                    let l = out.last_mut().unwrap();
                    l.push('~');
                    l.push(d);
                }
                None => out.last_mut().unwrap().push('~'),
            }
        } else {
            out.last_mut().unwrap().push(c);
        }
    }
    out
}

fn dec(s: &str) -> String {
    let mut o = String::new();
    let mut it = s.chars().peekable();
    while let Some(c) = it.next() {
        if c != '~' {
            o.push(c);
            continue;
        }
        match it.next() {
            Some('n') => o.push('\n'),
            Some('~') => o.push('~'),
            Some('.') => break,
            Some('|') => {}
            Some('u') => {
                let mut h = String::new();
                for d in it.by_ref() {
                    if d == ';' {
                        break;
                    }
                    h.push(d);
                }
                if let Some(ch) = u32::from_str_radix(&h, 16).ok().and_then(char::from_u32) {
                    o.push(ch);
                }
            }
            _ => {}
        }
    }
    o
}

// ------------------------------------------------------------------------------------------
// Harness-owned state: the stdlib components + budget + mock world
// ------------------------------------------------------------------------------------------

const BUDGET_MSG: &str = "C09-STEP-BUDGET";
const DEPTH_MSG: &str = "C09-INPUT-DEPTH";

/// Largest `num_current_sources()` seen by the expansion hook during the last run.
static MAX_SOURCES: std::sync::atomic::AtomicUsize = std::sync::atomic::AtomicUsize::new(0);
/// Titles of the recoverable errors that the last run recovered from (from the log), in order.
static RECOVERED_TITLES: std::sync::Mutex<Vec<String>> = std::sync::Mutex::new(Vec::new());
/// The log of the last run (the renderings of the errors it recovered from), colour stripped.
static LAST_LOG: std::sync::Mutex<String> = std::sync::Mutex::new(String::new());

// ------------------------------------------------------------------------------------------
// Allocation guard
// ------------------------------------------------------------------------------------------

/// A single allocation request of this many bytes or more is refused on a runner thread.
/// (The step budget keeps every other object of a run far below: registers are 128-512 KiB per
/// kind, an expansion is cut at 20 000 tokens; in a quick run no request other than the resize of
/// `\newIntArray` reaches 1 MiB, see `allocation_guard` in the evidence.)
const BIG_REQUEST: usize = 64 << 20;

thread_local! {
    /// On a runner thread: where the guard reports a refused request.
    static RUNNER_OUT: RefCell<Option<std::sync::mpsc::Sender<Outcome>>> = const { RefCell::new(None) };
    /// Number of accesses to the state `H` (ticks and component borrows) on this thread.
    static ACCESS_SEQ: Cell<u64> = const { Cell::new(0) };
    /// `ACCESS_SEQ` at the last `component_mut::<alloc::Component>()`.
    static ALLOC_MUT_AT: Cell<u64> = const { Cell::new(u64::MAX) };
}
/// Evidence: the largest single request served on a runner thread, and the refused requests.
static MAX_SERVED: std::sync::atomic::AtomicUsize = std::sync::atomic::AtomicUsize::new(0);
static MAX_SERVED_OTHER: std::sync::atomic::AtomicUsize = std::sync::atomic::AtomicUsize::new(0);
static REFUSED_NEW_INT_ARRAY: std::sync::atomic::AtomicUsize = std::sync::atomic::AtomicUsize::new(0);
static REFUSED_OTHER: std::sync::atomic::AtomicUsize = std::sync::atomic::AtomicUsize::new(0);
/// Programs run on the calling thread (the `deepchild` process: default main-thread stack).
static INLINE: std::sync::atomic::AtomicBool = std::sync::atomic::AtomicBool::new(false);

#[inline]
fn access() -> u64 {
    ACCESS_SEQ.with(|a| {
        let n = a.get().wrapping_add(1);
        a.set(n);
        n
    })
}

struct GuardAlloc;

#[global_allocator]
static GLOBAL: GuardAlloc = GuardAlloc;

unsafe impl std::alloc::GlobalAlloc for GuardAlloc {
    unsafe fn alloc(&self, l: std::alloc::Layout) -> *mut u8 {
        if l.size() >= (1 << 20) {
            big_request(l.size());
        }
        std::alloc::System.alloc(l)
    }
    unsafe fn alloc_zeroed(&self, l: std::alloc::Layout) -> *mut u8 {
        if l.size() >= (1 << 20) {
            big_request(l.size());
        }
        std::alloc::System.alloc_zeroed(l)
    }
    unsafe fn realloc(&self, p: *mut u8, l: std::alloc::Layout, new_size: usize) -> *mut u8 {
        if new_size >= (1 << 20) {
            big_request(new_size);
        }
        std::alloc::System.realloc(p, l, new_size)
    }
    unsafe fn dealloc(&self, p: *mut u8, l: std::alloc::Layout) {
        std::alloc::System.dealloc(p, l)
    }
}

/// Called for requests of 1 MiB and more. On a runner thread a request of `BIG_REQUEST` bytes
/// or more is reported and the thread never returns from here (it is parked for good: the
/// allocator must not unwind, and returning null would abort the process).
#[cold]
fn big_request(n: usize) {
    let tx = RUNNER_OUT.try_with(|r| r.try_borrow().ok().and_then(|g| g.clone())).ok().flatten();
    let Some(tx) = tx else { return };
    // `newintarray_primitive_fn` borrows the alloc component and resizes its storage at once:
    // no other access to the state lies between the borrow and the request.
    let in_new_int_array = ACCESS_SEQ.with(|a| a.get()) == ALLOC_MUT_AT.with(|a| a.get());
    if n < BIG_REQUEST {
        (if in_new_int_array { &MAX_SERVED } else { &MAX_SERVED_OTHER }).fetch_max(n, std::sync::atomic::Ordering::Relaxed);
        return;
    }
    (if in_new_int_array { &REFUSED_NEW_INT_ARRAY } else { &REFUSED_OTHER }).fetch_add(1, std::sync::atomic::Ordering::Relaxed);
    let _ = tx.send(Outcome::BigAlloc { bytes: n, in_new_int_array });
    loop {
        std::thread::park();
    }
}

#[derive(Default)]
struct MemFs {
    files: HashMap<std::path::PathBuf, String>,
}
impl tc::FileSystem for MemFs {
    fn read_to_string(&self, path: &std::path::Path) -> std::io::Result<String> {
        let name = path.file_name().map(|n| n.to_string_lossy().to_string()).unwrap_or_default();
        match self.files.get(std::path::Path::new(&name)) {
            Some(s) => Ok(s.clone()),
            None => Err(std::io::Error::new(std::io::ErrorKind::NotFound, "not found")),
        }
    }
    fn read_to_bytes(&self, path: &std::path::Path) -> std::io::Result<Vec<u8>> {
        self.read_to_string(path).map(|s| s.into_bytes())
    }
    fn write_bytes(&self, _: &std::path::Path, _: &[u8]) -> std::io::Result<()> {
        Ok(())
    }
}

#[derive(Default)]
struct H {
    inner: sl::StdLibState,
    fs: Rc<RefCell<MemFs>>,
    term_out: Rc<RefCell<Vec<u8>>>,
    log: Rc<RefCell<Vec<u8>>>,
    steps: Cell<u64>,
    budget: u64,
}

impl H {
    #[inline]
    fn tick(&self, n: u64) {
        access();
        let s = self.steps.get() + n;
        self.steps.set(s);
        if s > self.budget {
            panic!("{}", BUDGET_MSG);
        }
    }
}

impl TexlangState for H {
    #[inline]
    fn cat_code(&self, c: char) -> CatCode {
        self.tick(1);
        sl::codes::cat_code(self, c)
    }
    #[inline]
    fn end_line_char(&self) -> Option<char> {
        sl::endlinechar::end_line_char(self)
    }
    fn post_macro_expansion_hook(
        token: token::Token,
        input: &vm::ExpansionInput<Self>,
        tex_macro: &texlang::texmacro::Macro,
        arguments: &[&[token::Token]],
        reversed_expansion: &[token::Token],
    ) {
        let st = input.state();
        st.tick(4 + (reversed_expansion.len() as u64) / 16);
        if reversed_expansion.len() > 20_000 || input.expansions().len() > 200_000 {
            panic!("{}", BUDGET_MSG);
        }
        sl::tracingmacros::hook(token, input, tex_macro, arguments, reversed_expansion)
    }
    fn expansion_override_hook(
        token: token::Token,
        input: &mut vm::ExpansionInput<Self>,
        tag: Option<command::Tag>,
    ) -> txl::Result<Option<token::Token>> {
        input.state().tick(4);
        if input.expansions().len() > 200_000 {
            panic!("{}", BUDGET_MSG);
        }
        // `\input` refuses to nest deeper than 100 levels ("too many input levels"); an input
        // stack beyond that means the recursion limit is gone and the run would only end by
        // exhausting memory (the step budget must not hide that).
        MAX_SOURCES.fetch_max(input.vm().num_current_sources(), std::sync::atomic::Ordering::Relaxed);
        if input.vm().num_current_sources() > 105 {
            panic!("{}", DEPTH_MSG);
        }
        sl::expansion::noexpand_hook(token, input, tag)
    }
    fn variable_assignment_scope_hook(
        state: &mut Self,
    ) -> texcraft_stdext::collections::groupingmap::Scope {
        state.tick(2);
        sl::prefix::variable_assignment_scope_hook(state)
    }
    fn recoverable_error_hook(
        &self,
        recoverable_error: error::TracedTexError,
    ) -> Result<(), Box<dyn error::TexError>> {
        self.tick(50);
        sl::errormode::recoverable_error_hook(self, recoverable_error)
    }
}

impl sl::the::TheCompatible for H {}

macro_rules! comp {
    ($( $field:ident : $t:ty ),+ $(,)?) => {
        $(
            impl vm::HasComponent<$t> for H {
                #[inline]
                fn component(&self) -> &$t {
                    access();
                    &self.inner.$field
                }
                #[inline]
                fn component_mut(&mut self) -> &mut $t {
                    let n = access();
                    if stringify!($field) == "alloc" {
                        ALLOC_MUT_AT.with(|a| a.set(n));
                    }
                    &mut self.inner.$field
                }
            }
        )+
    };
}
comp![
    alloc: sl::alloc::Component,
    codes_cat_code: sl::codes::Component<CatCode>,
    codes_math_code: sl::codes::Component<types::MathCode>,
    conditional: sl::conditional::Component,
    end_line_char: sl::endlinechar::Component,
    error_mode: sl::errormode::Component,
    input: sl::input::Component<16>,
    job: sl::job::Component,
    prefix: sl::prefix::Component,
    registers_i32: sl::registers::Component<i32, 32768>,
    registers_scaled: sl::registers::Component<common::Scaled, 32768>,
    registers_glue: sl::registers::Component<common::Glue, 32768>,
    registers_token_list: sl::registers::Component<Vec<token::Token>, 256>,
    repl: sl::repl::Component,
    script: sl::script::Component,
    time: sl::time::Component,
    tracing_macros: sl::tracingmacros::Component,
];

impl tc::HasLogging for H {
    fn terminal_out(&self) -> Rc<RefCell<dyn std::io::Write>> {
        self.term_out.clone()
    }
    fn log_file(&self) -> Rc<RefCell<dyn std::io::Write>> {
        self.log.clone()
    }
}
impl tc::HasFileSystem for H {
    fn file_system(&self) -> Rc<RefCell<dyn tc::FileSystem>> {
        self.fs.clone()
    }
}
impl tc::HasTerminalIn for H {
    fn terminal_in(&self) -> Rc<RefCell<dyn tc::TerminalIn>> {
        tc::HasTerminalIn::terminal_in(&self.inner.error_mode)
    }
}

// ------------------------------------------------------------------------------------------
// Protocol-event primitives (stream `proto`): each performs exactly one protocol event.
// ------------------------------------------------------------------------------------------

fn ev_ok(_: token::Token, _: &mut vm::ExecutionInput<H>) -> txl::Result<()> {
    Ok(())
}
fn ev_rec(t: token::Token, input: &mut vm::ExecutionInput<H>) -> txl::Result<()> {
    input.error(error::SimpleTokenError::new(t, "recoverable"))?;
    Ok(())
}
fn ev_fatal(t: token::Token, input: &mut vm::ExecutionInput<H>) -> txl::Result<()> {
    Err(input.fatal_error(error::SimpleTokenError::new(t, "fatal")))
}
fn ev_end(_: token::Token, input: &mut vm::ExecutionInput<H>) -> txl::Result<()> {
    Err(input.shutdown())
}
/// Contract violation 1: a transition is made but the signal is dropped.
fn ev_ign_fatal(t: token::Token, input: &mut vm::ExecutionInput<H>) -> txl::Result<()> {
    let _ = input.fatal_error(error::SimpleTokenError::new(t, "fatal, ignored"));
    Ok(())
}
fn ev_ign_end(_: token::Token, input: &mut vm::ExecutionInput<H>) -> txl::Result<()> {
    let _ = input.shutdown();
    Ok(())
}
/// Contract violation 1b: a recoverable error whose shutdown signal (if any) is dropped.
fn ev_ign_rec(t: token::Token, input: &mut vm::ExecutionInput<H>) -> txl::Result<()> {
    let _ = input.error(error::SimpleTokenError::new(t, "recoverable, ignored"));
    Ok(())
}
/// Contract violation 2: a signal without a transition.
fn ev_spur(_: token::Token, _: &mut vm::ExecutionInput<H>) -> txl::Result<()> {
    Err(vm::ShutdownSignal {})
}

const EVENTS: &[(&str, &str)] = &[
    ("ok", "evOk"),
    ("rec", "evRec"),
    ("fatal", "evFatal"),
    ("end", "evEnd"),
    ("ignfatal", "evIgnFatal"),
    ("ignend", "evIgnEnd"),
    ("ignrec", "evIgnRec"),
    ("spur", "evSpur"),
    ("e", "errorstopmode"),
    ("s", "scrollmode"),
    ("n", "nonstopmode"),
    ("b", "batchmode"),
];

// ------------------------------------------------------------------------------------------
// Building and running a VM
// ------------------------------------------------------------------------------------------

fn vocabulary() -> Vec<String> {
    let mut v: Vec<String> = built_ins(false).keys().map(|s| s.to_string()).collect();
    v.sort();
    v
}

fn built_ins(proto: bool) -> HashMap<&'static str, command::BuiltIn<H>> {
    let mut m = sl::built_in_commands::<H>();
    m.insert("par", sl::script::get_par());
    m.insert("newline", sl::script::get_newline());
    if proto {
        m.insert("evOk", command::BuiltIn::new_execution(ev_ok));
        m.insert("evRec", command::BuiltIn::new_execution(ev_rec));
        m.insert("evFatal", command::BuiltIn::new_execution(ev_fatal));
        m.insert("evEnd", command::BuiltIn::new_execution(ev_end));
        m.insert("evIgnFatal", command::BuiltIn::new_execution(ev_ign_fatal));
        m.insert("evIgnEnd", command::BuiltIn::new_execution(ev_ign_end));
        m.insert("evIgnRec", command::BuiltIn::new_execution(ev_ign_rec));
        m.insert("evSpur", command::BuiltIn::new_execution(ev_spur));
    }
    m
}

const FILES: &[(&str, &str)] = &[
    ("a.tex", "\\count7=7 file a\n"),
    ("b.tex", "{unbalanced\nsecond line}\n}third\n"),
    ("loop.tex", "\\input loop "),
    ("utf.tex", "h\u{e9}llo \u{4e16}\u{754c} \\count\n\u{e9}{x}\n"),
    ("empty.tex", ""),
    ("open.tex", "line {one\n"),
    ("end.tex", "before\\endinput after\nnext line\n"),
    ("err.tex", "\n\n  \u{e9}\u{e9} \\undefinedinfile\n"),
    ("chain.tex", "\\advance\\count1 by 1 \\ifnum\\count1<\\count2 \\input chain \\fi"),
];

const TERM_LINES: &[&str] = &["hello {world}\n", "\u{e9}{\n", "}\\count\n", "x"];

fn mode_prefix(mode: &str) -> &'static str {
    match mode {
        "s" => "\\scrollmode ",
        "n" => "\\nonstopmode ",
        "b" => "\\batchmode ",
        _ => "",
    }
}

fn make_vm(proto: bool, budget: u64) -> vm::VM<H> {
    let mut vm = vm::VM::<H>::new_with_built_in_commands(built_ins(proto));
    vm.state.budget = budget;
    // `H::default()` has read the real clock (`time::Component::default`, so that path runs for
    // every VM); the values a program sees are fixed, so that a case replays exactly and the
    // two runs of a `modes` case cannot differ by a minute: 2026-09-26 22:36.
    vm.state.inner.time = sl::time::Component::new_with_values(22 * 60 + 36, 26, 9, 2026);
    vm.working_directory = Some("/c09".into());
    {
        let mut fs = vm.state.fs.borrow_mut();
        for (n, c) in FILES {
            fs.files.insert(n.into(), c.to_string());
        }
    }
    {
        // files whose interesting line is line 2, 10, 100, 1000 (line numbers of different widths)
        let mut fs = vm.state.fs.borrow_mut();
        for n in [2usize, 10, 100, 1000] {
            let pad = "%\n".repeat(n - 1);
            fs.files.insert(format!("use{n}.tex").into(), format!("{pad}\\count1=\\x \\the\\relax \\y{{B}}\\undefinedinfile\n"));
            fs.files.insert(format!("def{n}.tex").into(), format!("{pad}\\def\\x{{A}}\\def\\y#1{{\\count1=#1 }}\\toks1={{\\fi}}\\def\\z{{\\undefinedinmacro}}\n"));
        }
    }
    let mut t = tc::MockTerminalIn::default();
    for l in TERM_LINES {
        t.add_line(*l);
    }
    vm.state.inner.error_mode.set_default_terminal(Rc::new(RefCell::new(t)));
    vm
}

/// A source excerpt of a rendered error: (line content, character index, token text).
type Excerpt = (String, usize, String);

enum Outcome {
    /// output, number of recoverable errors that were reported and recovered from
    Ok(String, usize),
    /// error title, rendered text, excerpts of the primary trace and the stack.
    Err {
        title: String,
        rendered: Result<String, String>,
        kind: &'static str,
        /// the trace `format_error` prints first: (excerpt, line number)
        primary: Option<(Excerpt, usize)>,
        excerpts: Vec<Excerpt>,
        n_recovered: usize,
    },
    Panic(String),
    Budget,
    /// a resource that the interpreter bounds (input nesting) grew beyond its bound
    Unbounded(String),
    /// the interpreter asked the allocator for `bytes` (>= `BIG_REQUEST`) in a single request;
    /// the request was refused by the guard and the run abandoned. `in_new_int_array`: the
    /// request came from `\newIntArray` resizing its storage (known finding C09-m).
    BigAlloc { bytes: usize, in_new_int_array: bool },
}

const SIG_NEW_INT_ARRAY: &str = "alloc: newIntArray size unbounded";

fn big_sig(in_new_int_array: bool) -> String {
    if in_new_int_array {
        SIG_NEW_INT_ARRAY.to_string()
    } else {
        format!("alloc: single request of >= {} MiB", BIG_REQUEST >> 20)
    }
}

fn big_detail(src: &str, bytes: usize, in_new_int_array: bool) -> String {
    format!(
        "{src:?}: the interpreter asked the allocator for {bytes} bytes in one request{}; the harness refuses single requests of {} MiB and more (on a machine without that much memory the process is aborted, with it the run takes as long as faulting in the pages takes); TeX reports 'capacity exceeded'",
        if in_new_int_array { " (\\newIntArray resizing its storage to the requested length)" } else { "" },
        BIG_REQUEST >> 20
    )
}

/// The thread that runs the programs of this (case) thread.
struct Runner {
    tx: std::sync::mpsc::Sender<(String, bool, u64)>,
    rx: std::sync::mpsc::Receiver<Outcome>,
}

thread_local! {
    static RUNNER: RefCell<Option<Runner>> = const { RefCell::new(None) };
}

/// `recv` that spins for a moment before it blocks: a program takes a few hundred
/// microseconds, two futex wake-ups per program would cost a third of that.
fn spin_recv<T>(rx: &std::sync::mpsc::Receiver<T>) -> Result<T, std::sync::mpsc::RecvError> {
    for _ in 0..20_000 {
        match rx.try_recv() {
            Ok(v) => return Ok(v),
            Err(std::sync::mpsc::TryRecvError::Disconnected) => return Err(std::sync::mpsc::RecvError),
            Err(std::sync::mpsc::TryRecvError::Empty) => std::hint::spin_loop(),
        }
    }
    rx.recv()
}

/// A parked runner keeps its (1 GiB, mostly untouched) stack mapping and its thread: the
/// unchanged tree parks ~50 runners in a quick and ~200 in a thorough run. Under a change that
/// makes many programs ask for huge blocks the `run` stream stops at `RUN_STREAM_PARK_CAP`
/// refused requests (one failure of its own; the other streams go on, their arrays are small
/// and a refused request there is never labelled C09-m), everything stops at `HARD_PARK_CAP`.
const RUN_STREAM_PARK_CAP: usize = 3000;
const HARD_PARK_CAP: usize = 12_000;

fn parked() -> usize {
    use std::sync::atomic::Ordering::Relaxed;
    REFUSED_NEW_INT_ARRAY.load(Relaxed) + REFUSED_OTHER.load(Relaxed)
}

fn spawn_runner() -> Option<Runner> {
    let (tx, job_rx) = std::sync::mpsc::channel::<(String, bool, u64)>();
    let (out_tx, rx) = std::sync::mpsc::channel::<Outcome>();
    std::thread::Builder::new()
        .name("c09-runner".into())
        // deep (but budgeted) recursion in the interpreter must not overflow the stack
        .stack_size(1 << 30)
        .spawn(move || {
            RUNNER_OUT.with(|r| *r.borrow_mut() = Some(out_tx.clone()));
            while let Ok((src, proto, budget)) = spin_recv(&job_rx) {
                let out = match caught(|| run_program_here(&src, proto, budget)) {
                    Ok(o) => o,
                    Err(m) => Outcome::Panic(m),
                };
                if out_tx.send(out).is_err() {
                    break;
                }
            }
            RUNNER_OUT.with(|r| *r.borrow_mut() = None);
        })
        .ok()?;
    Some(Runner { tx, rx })
}

/// Run a program on the runner thread of this thread (see the module documentation).
fn run_program(src: &str, proto: bool, budget: u64) -> Outcome {
    if INLINE.load(std::sync::atomic::Ordering::Relaxed) {
        return run_program_here(src, proto, budget);
    }
    RUNNER.with(|cell| {
        let mut slot = cell.borrow_mut();
        if slot.is_none() {
            if parked() >= HARD_PARK_CAP {
                return Outcome::Panic(format!("harness: {} allocation requests of {} MiB and more were refused in this run; no further program is run", parked(), BIG_REQUEST >> 20));
            }
            *slot = spawn_runner();
        }
        let Some(runner) = slot.as_ref() else {
            return Outcome::Panic("harness: the runner thread cannot be spawned".into());
        };
        let out = match runner.tx.send((src.to_string(), proto, budget)) {
            Ok(()) => spin_recv(&runner.rx).unwrap_or_else(|_| Outcome::Panic("harness: the runner thread died".into())),
            Err(_) => Outcome::Panic("harness: the runner thread is gone".into()),
        };
        if matches!(&out, Outcome::BigAlloc { .. }) || matches!(&out, Outcome::Panic(m) if m.starts_with("harness: the runner thread")) {
            // the runner is parked inside the allocator for good (or dead): forget it
            *slot = None;
        }
        out
    })
}

fn excerpts_of(e: &error::TracedTexError) -> Vec<Excerpt> {
    let mut v = vec![];
    let mut push = |t: &token::trace::SourceCodeTrace| v.push((t.line_content.clone(), t.index, t.value.clone()));
    for t in e.token_traces.values() {
        push(t);
    }
    if let Some(t) = &e.end_of_input_trace {
        push(t);
    }
    if let Some(t) = e.error.source_code_trace_override() {
        push(t);
    }
    for s in &e.stack_trace {
        push(&s.trace);
    }
    v.sort();
    v.dedup();
    v
}

fn run_program_here(src: &str, proto: bool, budget: u64) -> Outcome {
    MAX_SOURCES.store(0, std::sync::atomic::Ordering::Relaxed);
    RECOVERED_TITLES.lock().unwrap().clear();
    LAST_LOG.lock().unwrap().clear();
    let r = caught(|| {
        let mut vm = make_vm(proto, budget);
        let _ = vm.push_source("input.tex", src);
        let r = sl::script::run_to_string(&mut vm);
        // every recovered error is rendered into the log; its first line is `Error: <title>`
        let log = strip_ansi(&String::from_utf8_lossy(&vm.state.log.borrow()));
        let titles: Vec<String> = log.lines().filter_map(|l| l.strip_prefix("Error: ")).map(|t| t.to_string()).collect();
        let n_recovered = titles.len();
        *RECOVERED_TITLES.lock().unwrap() = titles;
        *LAST_LOG.lock().unwrap() = log;
        (r, n_recovered)
    });
    match r {
        Err(msg) if msg.contains(BUDGET_MSG) => Outcome::Budget,
        Err(msg) if msg.contains(DEPTH_MSG) => Outcome::Unbounded("input stack deeper than 105 levels".into()),
        Err(msg) => Outcome::Panic(msg),
        Ok((Ok(s), n)) => Outcome::Ok(s, n),
        Ok((Err(e), n_recovered)) => {
            let title = caught(|| e.error.title()).unwrap_or_else(|m| format!("<title panicked: {m}>"));
            let kind = match caught(|| e.error.kind()) {
                Ok(error::Kind::Token(_)) => "token",
                Ok(error::Kind::EndOfInput) => "eof",
                Ok(error::Kind::FailedPrecondition) => "precondition",
                Err(_) => "kind-panicked",
            };
            let excerpts = excerpts_of(&e);
            // the same choice as `error::display::format_error`
            let primary = caught(|| match e.error.kind() {
                error::Kind::Token(t) => e.token_traces.get(&t).cloned(),
                error::Kind::EndOfInput => e.end_of_input_trace.clone(),
                error::Kind::FailedPrecondition => match e.error.source_code_trace_override() {
                    Some(t) => Some(t.clone()),
                    None => e.stack_trace.last().map(|s| s.trace.clone()),
                },
            })
            .ok()
            .flatten()
            .map(|t| ((t.line_content.clone(), t.index, t.value.clone()), t.line_number));
            let rendered = caught(|| format!("{e}"));
            Outcome::Err { title, rendered, kind, primary, excerpts, n_recovered }
        }
    }
}

fn strip_ansi(s: &str) -> String {
    let mut o = String::new();
    let mut it = s.chars();
    while let Some(c) = it.next() {
        if c == '\u{1b}' {
            for d in it.by_ref() {
                if d.is_ascii_alphabetic() {
                    break;
                }
            }
        } else {
            o.push(c);
        }
    }
    o
}

// ------------------------------------------------------------------------------------------
// Generator
// ------------------------------------------------------------------------------------------

struct Gen<'a> {
    rng: &'a mut Rng,
    vocab: &'a [String],
    macros: Vec<(String, usize)>,
}

const UNITS: &[&str] = &[
    "pt", "pc", "in", "bp", "cm", "mm", "dd", "cc", "sp", "em", "ex", "true pt", "truein", "true cm", "PT", "fil",
    "fill", "filll", "fillll", "p", "",
];
const NONASCII: &[&str] = &["\u{e9}", "\u{4e16}", "\u{1f600}", "\u{df}", "\u{a0}", "\u{7f}", "\u{0}", "\u{2028}", "\u{feff}"];
const CS_USER: &[&str] = &["\\a", "\\b", "\\c", "\\x", "\\y", "\\\u{e9}t\u{e9}", "\\A", "~", "\\+"];
const FILE_NAMES: &[&str] = &[
    "a", "b", "loop", "utf", "empty", "open", "end", "err", "missing", "a.tex", "../a", "a b", "{a}", "\u{e9}", "./a", "a./b", "x:a", "x>a", ":", ">", ".", "..",
    "a.", "a.b.c", "/", "a/", "a:b.c", "a.b:c", "\u{e9}.\u{e9}", "a.t\u{e9}x", "\\relax", "a\\relax",
];

impl<'a> Gen<'a> {
    fn int_lit(&mut self) -> String {
        let r = &mut *self.rng;
        match r.below(14) {
            0 => format!("{}", interesting_i32(r)),
            1 => format!("{}", *r.pick(&[
                2147483647i64, 2147483648, -2147483647, -2147483648, 4294967295, 4294967296, 32767, 32768, -1, 0, 255, 256, 15, 16,
                17, 1114111, 1114112, 55295, 55296, 57343, 57344, 65535, 65536, 16383, 16384, 1073741823, 1073741824, 134217727,
                134217728, 9223372036854775807,
            ])),
            2 => format!("\"{:X}", r.next_u64() >> r.below(64)),
            3 => format!("'{:o}", r.next_u64() >> r.below(64)),
            4 => format!("`{}", *r.pick(&["a", "\\a", "\\%", "\\\\", "{", "}", "\u{e9}", "\u{1f600}", "\\\u{4e16}", " ", "^^M", "\\^^M", "#", "$"])),
            5 => format!("\\count{}", *r.pick(&["0", "1", "2", "255", "32767"])),
            6 => (*r.pick(&["\\year", "\\month", "\\day", "\\time", "\\endlinechar", "\\tracingmacros", "\\globaldefs", "\\dumpFormat", "\\dumpValidate"])).to_string(),
            7 => format!("\\catcode{}", *r.pick(&["`a", "65", "`\\\\", "0", "1114110"])),
            8 => format!("\\dimen{}", *r.pick(&["0", "1", "2"])),
            9 => format!("\\skip{}", *r.pick(&["0", "1"])),
            10 => format!("{}{}", "-".repeat(r.below(4) as usize), r.below(100000)),
            11 => format!("{}", "9".repeat(1 + r.below(25) as usize)),
            12 => (*r.pick(&["\\mathcode`a", "\\toks0", "\\X", "\\C", "\\M", "\\I", "\\J 1", "\\T"])).to_string(),
            _ => format!("{}", r.range(-20, 300)),
        }
    }
    fn frac(&mut self) -> String {
        let r = &mut *self.rng;
        let nd = r.below(21) as usize;
        let mut s = String::new();
        match r.below(4) {
            0 => s.push_str(&"9".repeat(nd)),
            1 => s.push_str(&"0".repeat(nd)),
            _ => {
                for _ in 0..nd {
                    s.push((b'0' + r.below(10) as u8) as char);
                }
            }
        }
        s
    }
    fn dimen(&mut self) -> String {
        let k = self.rng.below(10);
        let sign = *self.rng.pick(&["", "", "", "-", "+", "--", "- "]);
        let body = match k {
            0 => format!("{}.{}", *self.rng.pick(&["16383", "16384", "0", "1", "32767", "2147483647", "131071", "8191", ""]), self.frac()),
            1 => format!("{},{}", self.rng.below(20000), self.frac()),
            2 => self.int_lit(),
            3 => format!(".{}", self.frac()),
            4 => "16383.99999".into(),
            5 => "16383.99998".into(),
            6 => format!("{}.{}", self.rng.below(16385), self.frac()),
            7 => format!("\\dimen{}", self.rng.below(3)),
            8 => format!("\\skip{}", self.rng.below(2)),
            _ => format!("{}", self.rng.range(-5, 40)),
        };
        let unit = match self.rng.below(12) {
            0 => format!("\\dimen{}", self.rng.below(3)),
            1 => format!("\\count{}", self.rng.below(3)),
            2 => format!("\\skip{}", self.rng.below(2)),
            _ => (*self.rng.pick(UNITS)).to_string(),
        };
        format!("{sign}{body}{unit}")
    }
    fn glue(&mut self) -> String {
        let mut s = self.dimen();
        if self.rng.chance(1, 2) {
            s.push_str(" plus ");
            s.push_str(&self.dimen());
        }
        if self.rng.chance(1, 2) {
            s.push_str(" minus ");
            s.push_str(&self.dimen());
        }
        if self.rng.chance(1, 8) {
            s.push_str(" plus");
        }
        s
    }
    fn reg_idx(&mut self) -> String {
        let r = &mut *self.rng;
        match r.below(6) {
            0 => (*r.pick(&["32767", "32768", "-1", "255", "256", "65536", "2147483647", "-2147483648", "\\count0", "`a", "\"7FFF"])).to_string(),
            _ => format!("{}", r.below(3)),
        }
    }
    fn user_cs(&mut self) -> String {
        (*self.rng.pick(CS_USER)).to_string()
    }
    fn any_cs(&mut self) -> String {
        if self.rng.chance(1, 4) {
            self.user_cs()
        } else {
            let name = self.rng.pick(self.vocab).clone();
            if name == "sleep" {
                return "\\sleep 0 ".into();
            }
            if name == "newIntArray" {
                // the size is not bounded by the implementation: `\newIntArray\J 2147483647`
                // allocates 8 GiB (finding C09-k); keep the harness within small sizes
                return "\\newIntArray\\J 3 ".into();
            }
            format!("\\{name}")
        }
    }
    fn text(&mut self) -> String {
        let r = &mut *self.rng;
        match r.below(12) {
            0 => (*r.pick(NONASCII)).to_string(),
            1 => format!("{}x", *r.pick(NONASCII)),
            2 => (*r.pick(&["^^M", "^^41", "^^5c", "^^", "^^^", "^^\u{e9}", "^^?", "^^@", "^^Z", "^^I", "^^7b", "^^7d", "^^25"])).to_string(),
            3 => "%comment\n".into(),
            4 => "\n".into(),
            5 => "\n\n".into(),
            6 => (*r.pick(&["#", "##", "#1", "#2", "$", "&", "^", "_", "~", "\\", "\\ ", "\r", "\t", "  "])).to_string(),
            _ => (*r.pick(&["a", "b", "hello ", "x y", "1", "=", "-", "by", "to", "plus", "pt", ".", ",", " "])).to_string(),
        }
    }
    fn variable(&mut self) -> String {
        let k = self.rng.below(16);
        match k {
            0..=2 => format!("\\count{}", self.reg_idx()),
            3 | 4 => format!("\\dimen{}", self.reg_idx()),
            5 | 6 => format!("\\skip{}", self.reg_idx()),
            7 => format!("\\toks{}", self.reg_idx()),
            8 => format!("\\catcode{}", self.int_lit()),
            9 => format!("\\mathcode{}", self.int_lit()),
            10 => (*self.rng.pick(&["\\year", "\\month", "\\day", "\\time"])).to_string(),
            11 => (*self.rng.pick(&["\\endlinechar", "\\tracingmacros", "\\globaldefs", "\\dumpFormat", "\\dumpValidate"])).to_string(),
            12 => (*self.rng.pick(&["\\X", "\\C", "\\M", "\\I", "\\J 0", "\\J 5", "\\J -1", "\\T", "\\K", "\\K 0"])).to_string(),
            13 => self.any_cs(),
            _ => format!("\\count{}", self.rng.below(3)),
        }
    }
    fn value_for_anything(&mut self) -> String {
        match self.rng.below(6) {
            0 | 1 => self.int_lit(),
            2 => self.dimen(),
            3 => self.glue(),
            4 => format!("{{{}}}", self.body(2)),
            _ => self.variable(),
        }
    }
    fn prefix(&mut self) -> String {
        let mut s = String::new();
        while self.rng.chance(1, 6) {
            s.push_str(*self.rng.pick(&["\\global", "\\long", "\\outer", "\\global\\long"]));
        }
        s
    }
    fn params(&mut self) -> (String, usize) {
        let n = match self.rng.below(8) {
            0..=2 => 0,
            3 | 4 => 1,
            5 => 2,
            6 => 9,
            _ => 3,
        };
        let mut s = String::new();
        for i in 1..=n {
            if self.rng.chance(1, 6) {
                s.push_str(*self.rng.pick(&["a", ".", " ", "\\a", "\u{e9}"]));
            }
            s.push_str(&format!("#{i}"));
        }
        match self.rng.below(12) {
            0 => s.push('#'),
            1 => s.push_str("#3"),
            2 => s.push_str("##"),
            3 => s.push_str("."),
            4 => s.push_str("#10"),
            _ => {}
        }
        (s, n)
    }
    fn cond(&mut self) -> String {
        let head = match self.rng.below(9) {
            0 => "\\iftrue".to_string(),
            1 => "\\iffalse".to_string(),
            2 | 3 => format!("\\ifnum{}{}{} ", self.int_lit(), *self.rng.pick(&["<", "=", ">", " < ", "z", ""]), self.int_lit()),
            4 => format!("\\ifodd{} ", self.int_lit()),
            5 | 6 => format!("\\ifcase{} ", self.int_lit()),
            7 => format!("\\ifeof{} ", self.reg_idx()),
            _ => "\\ifnum".to_string(),
        };
        let mut s = head;
        s.push_str(&self.body(2));
        let n_or = if self.rng.chance(1, 2) { self.rng.below(4) } else { 0 };
        for _ in 0..n_or {
            s.push_str("\\or ");
            s.push_str(&self.body(1));
        }
        if self.rng.chance(1, 2) {
            s.push_str("\\else ");
            s.push_str(&self.body(2));
        }
        if self.rng.chance(1, 12) {
            s.push_str("\\else ");
        }
        if !self.rng.chance(1, 8) {
            s.push_str("\\fi ");
        }
        s
    }
    fn call(&mut self) -> String {
        if self.macros.is_empty() || self.rng.chance(1, 5) {
            let mut s = self.user_cs();
            for _ in 0..self.rng.below(3) {
                s.push_str(&format!("{{{}}}", self.text()));
            }
            return s;
        }
        let (name, n) = self.rng.pick(&self.macros).clone();
        let mut s = name;
        let n = if self.rng.chance(1, 6) { self.rng.below(4) as usize } else { n };
        for _ in 0..n {
            match self.rng.below(5) {
                0 => s.push_str(&self.text()),
                1 => s.push_str(&format!("{{{}}}", self.body(1))),
                _ => s.push_str(&format!("{{{}}}", self.text())),
            }
        }
        s
    }
    /// One statement.
    fn stmt(&mut self, depth: u32) -> String {
        let k = self.rng.below(44);
        match k {
            0..=2 => format!("{}\\count{}={} ", self.prefix(), self.reg_idx(), self.int_lit()),
            3 | 4 => format!("{}\\dimen{}={} ", self.prefix(), self.reg_idx(), self.dimen()),
            5 | 6 => format!("{}\\skip{}={} ", self.prefix(), self.reg_idx(), self.glue()),
            7 => format!("\\toks{}={{{}}}", self.reg_idx(), self.body(1)),
            8 => format!("\\toks{}=\\toks{} ", self.reg_idx(), self.reg_idx()),
            9..=11 => {
                let op = *self.rng.pick(&["\\advance", "\\multiply", "\\divide"]);
                let by = *self.rng.pick(&[" by ", " by", " ", "by-", " b ", " BY "]);
                format!("{}{}{}{}{} ", self.prefix(), op, self.variable(), by, self.value_for_anything())
            }
            12 => format!("\\catcode{}={} ", self.int_lit(), *self.rng.pick(&["0", "1", "2", "5", "6", "9", "10", "11", "12", "13", "14", "15", "16", "-1", "256"])),
            13 => format!("\\mathcode{}={} ", self.int_lit(), self.int_lit()),
            14 => format!("\\chardef{}={} ", *self.rng.pick(&["\\C", "\\X", "a", "\\count"]), self.int_lit()),
            15 => format!("\\mathchardef{}={} ", *self.rng.pick(&["\\M", "\\X", "\\relax"]), self.int_lit()),
            16 => format!("\\countdef{}={} ", *self.rng.pick(&["\\X", "\\I", "\\a"]), self.reg_idx()),
            17 => format!("\\toksdef{}={} ", *self.rng.pick(&["\\T", "\\X"]), self.reg_idx()),
            18..=20 => {
                let name = self.user_cs();
                let (p, n) = self.params();
                let body = if depth < 2 { self.body(2) } else { self.text() };
                let body = if n > 0 && self.rng.chance(2, 3) {
                    { let extra = if self.rng.chance(1, 8) { 1 } else { 0 }; let pi = self.rng.range(1, n as i64 + extra); format!("{body}#{pi}{}", self.text()) }
                } else {
                    body
                };
                let d = *self.rng.pick(&["\\def", "\\def", "\\gdef", "\\def"]);
                self.macros.push((name.clone(), n));
                let close = if self.rng.chance(1, 15) { "" } else { "}" };
                format!("{}{}{}{}{{{}{}", self.prefix(), d, name, p, body, close)
            }
            21 => format!("{}\\let{}{}{}", self.prefix(), self.user_cs(), *self.rng.pick(&["=", " = ", "", "== "]), if self.rng.chance(1, 2) { self.any_cs() } else { self.text() }),
            22..=24 => self.cond(),
            25 | 26 => format!("\\the{}", if self.rng.chance(3, 4) { self.variable() } else { self.text() }),
            27 => format!("\\expandafter{}{}", self.any_cs(), self.any_cs()),
            28 => format!("\\noexpand{}", self.any_cs()),
            29 => match self.rng.below(3) {
                0 => "\\relax ".into(),
                // copies of commands of every kind
                _ => format!(
                    "\\let\\K={} ",
                    *self.rng.pick(&["\\J", "\\I", "\\C", "\\M", "\\T", "\\X", "\\count", "\\the", "\\a", "\\year", "\\catcode", "\\par", "\\fi", "\\ifcase", "\\or", "\\else", "\\read", "\\global"])
                ),
            },
            30 => format!("\\input {} ", *self.rng.pick(FILE_NAMES)),
            31 => format!("\\openin{}={} ", self.reg_idx_small(), *self.rng.pick(FILE_NAMES)),
            32 | 33 => format!("{}\\read{} to{}", self.prefix(), self.reg_idx_small(), self.user_cs()),
            34 => format!("\\closein{} ", self.reg_idx_small()),
            35 => format!("{}={} ", self.variable(), self.value_for_anything()),
            36 => format!("\\newInt{} ", *self.rng.pick(&["\\I", "\\X", "a"])),
            37 => format!(
                "\\newIntArray{}{} ",
                *self.rng.pick(&["\\J", "\\X"]),
                *self.rng.pick(&["0", "1", "7", "1000", "65536", "-1", "-2147483647", "x", "\\dimen0", "`a", "\"FF"])
            ),
            38 => (*self.rng.pick(&["\\errorstopmode ", "\\scrollmode ", "\\nonstopmode ", "\\batchmode ", "\\jobname ", "\\endinput ", "\\par ", "\\newline ", "\\sleep 0 ", "\\sleep -1 ", "\\sleep x"])).to_string(),
            39 => format!("{{{}{}", self.body(2), if self.rng.chance(1, 10) { "" } else { "}" }),
            40 => self.call(),
            41 => self.any_cs(),
            42 => match self.rng.below(4) {
                0 => format!(
                    "\\catcode`{}={} ",
                    *self.rng.pick(&["a", "\\{", "\\}", "\\\\", "\\ ", "\\%", "\\#", "\\^", "1", "=", "\u{e9}", "\\^^M", "-", "`", "\\~", "x"]),
                    self.rng.below(16)
                ),
                1 => format!("\\endlinechar={} ", *self.rng.pick(&["-1", "13", "65", "233", "0", "127", "32", "37", "92", "123", "125", "35", "128", "94"])),
                _ => (*self.rng.pick(&["}", "{", "\\fi ", "\\else ", "\\or "])).to_string(),
            },
            _ => self.text(),
        }
    }
    fn reg_idx_small(&mut self) -> String {
        let r = &mut *self.rng;
        match r.below(5) {
            0 => (*r.pick(&["15", "16", "17", "-1", "255", "2147483647", "-2147483648", "\\count0"])).to_string(),
            _ => format!("{}", r.below(3)),
        }
    }
    fn body(&mut self, max: u64) -> String {
        let n = self.rng.below(max + 1);
        let mut s = String::new();
        for _ in 0..n {
            let st = if self.rng.chance(1, 2) { self.text() } else { self.stmt(3) };
            s.push_str(&st);
        }
        s
    }
    /// A program as a list of statements (the unit of truncation and shrinking).
    fn program(&mut self, n: usize) -> Vec<String> {
        self.macros.clear();
        (0..n).map(|_| self.stmt(0)).collect()
    }
    fn soup(&mut self, n: usize) -> Vec<String> {
        (0..n)
            .map(|_| match self.rng.below(6) {
                0 | 1 => self.any_cs(),
                2 => self.int_lit(),
                3 => self.text(),
                4 => (*self.rng.pick(&["{", "}", "=", " ", "#1", "by", "to", "pt", "-", "`"])).to_string(),
                _ => self.variable(),
            })
            .collect()
    }
}

// ------------------------------------------------------------------------------------------
// The property
// ------------------------------------------------------------------------------------------

// ------------------------------------------------------------------------------------------
// Extreme register states: no literal gives a \count of -2^31 or a \dimen beyond +-(2^30-1)sp,
// but \advance wraps silently, so chains of \advance (and \multiply) reach every 32-bit value.
// ------------------------------------------------------------------------------------------

const EXTREMES: &[i64] = &[-2147483648, -2147483647, 2147483647, 1073741824, -1073741824, 1073741823, -1073741823];

/// Terms `|x| <= lim` whose sum is `t` modulo 2^32 (the wrap may go either way round).
fn decompose(t: i64, lim: i64, rng: &mut Rng) -> Vec<i64> {
    let goal = match rng.below(4) {
        0 => t + (1i64 << 32),
        1 => t - (1i64 << 32),
        _ => t,
    };
    let mut terms = vec![];
    let mut r = goal;
    while r.abs() > lim {
        let step = if r > 0 { lim } else { -lim };
        terms.push(step);
        r -= step;
    }
    terms.push(r);
    // the order of the summands is irrelevant: vary it
    let n = terms.len();
    for i in (1..n).rev() {
        terms.swap(i, rng.below(i as u64 + 1) as usize);
    }
    terms
}

/// Statements that drive `\count1` to `t` (literal range +-(2^31-1)).
fn drive_count(t: i64, rng: &mut Rng) -> Vec<String> {
    let half = t % 2 == 0 && rng.chance(1, 4);
    let terms = decompose(if half { t / 2 } else { t }, 2147483647, rng);
    let mut v = vec![format!("\\count1={} ", terms[0])];
    for x in &terms[1..] {
        v.push(format!("\\advance\\count1 by {x} "));
    }
    if half {
        v.push("\\multiply\\count1 by 2 ".into());
    }
    if rng.chance(1, 6) && t % 2 == 0 {
        // by itself: x + x
        let terms = decompose(t / 2, 2147483647, rng);
        v = vec![format!("\\count1={} ", terms[0])];
        for x in &terms[1..] {
            v.push(format!("\\advance\\count1 by {x} "));
        }
        v.push("\\advance\\count1 by \\count1 ".into());
    }
    v
}

/// Statements that drive `\dimen0` to `t` sp (literal range +-(2^30-1)sp).
fn drive_dimen(t: i64, rng: &mut Rng) -> Vec<String> {
    let how = rng.below(6);
    let inner = if how < 2 && t % 2 == 0 { t / 2 } else { t };
    let terms = decompose(inner, 1073741823, rng);
    let mut v = vec![format!("\\dimen0={}sp ", terms[0])];
    for x in &terms[1..] {
        v.push(format!("\\advance\\dimen0 by {x}sp "));
    }
    if inner != t {
        v.push(if how == 0 { "\\advance\\dimen0 by \\dimen0 ".to_string() } else { "\\multiply\\dimen0 by 2 ".to_string() });
    }
    v
}

/// A component amount as literals: scaled points for a finite order; for an infinite order the
/// amounts are `16383.99999fil` (2^30-1 units) and `0.00002fil` (1 unit) — the remainders of
/// the extreme values are at most a few units.
fn amount_terms(t: i64, ord: &str, rng: &mut Rng) -> Vec<String> {
    let mut v = vec![];
    for x in decompose(t, 1073741823, rng) {
        if ord == "sp" {
            v.push(format!("{x}sp"));
        } else if x.abs() == 1073741823 {
            v.push(format!("{}16383.99999{ord}", if x < 0 { "-" } else { "" }));
        } else if x.abs() <= 8 {
            for _ in 0..x.abs() {
                v.push(format!("{}0.00002{ord}", if x < 0 { "-" } else { "" }));
            }
        } else {
            // not needed for the extreme values; nearest multiple of a unit that can be written
            v.push(format!("{}{}.0{ord}", if x < 0 { "-" } else { "" }, x.abs() / 65536));
        }
    }
    if v.is_empty() {
        v.push(format!("0{ord}"));
    }
    v
}

/// Statements that drive the three components of `\skip0` to (w, st, sh) units, stretch and
/// shrink in the given orders ("sp", "fil", "fill", "filll").
fn drive_skip(w: i64, st: i64, sh: i64, ost: &str, osh: &str, rng: &mut Rng) -> Vec<String> {
    let (a, b, c) = (amount_terms(w, "sp", rng), amount_terms(st, ost, rng), amount_terms(sh, osh, rng));
    let n = a.len().max(b.len()).max(c.len());
    let at = |v: &Vec<String>, i: usize, ord: &str| v.get(i).cloned().unwrap_or_else(|| format!("0{ord}"));
    (0..n)
        .map(|i| {
            let body = format!("{} plus {} minus {} ", at(&a, i, "sp"), at(&b, i, ost), at(&c, i, osh));
            if i == 0 {
                format!("\\skip0={body}")
            } else {
                format!("\\advance\\skip0 by {body}")
            }
        })
        .collect()
}

/// Uses of the registers: `{C}` = `\count1`, `{D}` = `\dimen0`, `{S}` = `\skip0`.
/// (No `\sleep{C}`: 2^30 milliseconds. `\newIntArray\X{C}` costs nothing: a request of 2^30
/// elements is refused by the allocation guard and reported as known finding C09-m.)
const USES: &[&str] = &[
    // arithmetic on the register itself
    "\\divide{R} by -1 ", "\\divide{R} by 0 ", "\\divide{R} by 1 ", "\\divide{R} by 2 ", "\\divide{R} by -2147483647 ", "\\divide{R} by {C} ",
    "\\divide{R} by -{C} ", "\\multiply{R} by -1 ", "\\multiply{R} by 2 ", "\\multiply{R} by 0 ", "\\multiply{R} by 1 ", "\\multiply{R} by 2147483647 ",
    "\\multiply{R} by -2147483647 ", "\\multiply{R} by {C} ", "\\advance{R} by {R} ", "\\advance{R} by -{R} ", "\\global\\divide{R} by -1 ",
    "\\advance{C} by 1 ", "\\advance{C} by -1 ", "\\advance{C} by 2147483647 ", "\\advance{C} by -2147483647 ", "\\advance{C} by {D} ",
    "\\advance{D} by 1sp ", "\\advance{D} by -1sp ", "\\advance{D} by 1073741823sp ", "\\advance{D} by -1073741823sp ", "\\advance{D} by {C}sp ",
    "\\advance{D} by {C}{D} ", "\\advance{D} by {S} ", "\\advance{S} by 1sp plus 1sp minus 1sp ", "\\advance{S} by -1sp plus -1sp minus -1sp ",
    "\\advance{S} by {D} plus {D} minus {D} ", "\\advance{S} by 1073741823sp plus 16383fil minus 16383fill ", "\\advance{S} by 0pt plus 1fil ",
    // scanning: coefficient, unit, negation, coercion
    "\\dimen3={C}{D} ", "\\dimen3={C}\\dimen2 ", "\\dimen3=\\count2{D} ", "\\dimen3=2{D} ", "\\dimen3=0.5{D} ", "\\dimen3=1.99999{D} ", "\\dimen3=0.99999{C} ",
    "\\dimen3=-{D} ", "\\dimen3=--{D} ", "\\dimen3={D} ", "\\dimen3={S} ", "\\dimen3=-{S} ", "\\dimen3={C}sp ", "\\dimen3={C}pt ", "\\dimen3=-{C}sp ",
    "\\dimen3=1{C} ", "\\dimen3=1{S} ", "\\dimen3={C}{S} ", "\\dimen3={C}true pt ", "\\dimen3={C}em ", "\\dimen3=-.5{S} ", "\\dimen3=16383.99999{D} ",
    "\\skip3={S} ", "\\skip3=-{S} ", "\\skip3={D} plus {D} minus {D} ", "\\skip3=-{D} plus -{D} minus -{D} ", "\\skip3=1pt plus {C}fil minus {C}fill ",
    "\\skip3=0pt plus 1{S} ", "\\skip3={C}{S} ", "\\skip3=0pt plus {C}{D} ", "\\skip3=0pt plus -{C}filll ", "\\skip3={C}{D} plus {C}{D} minus {C}{D} ",
    "\\count3={C} ", "\\count3=-{C} ", "\\count3={D} ", "\\count3=-{D} ", "\\count3={S} ", "\\count3=-{S} ", "\\count3=--{C} ",
    "\\the{C} ", "\\the{D} ", "\\the{S} ",
    // comparisons and case selection
    "\\ifnum{C}<0 a\\else b\\fi ", "\\ifnum{C}=-{C} a\\fi ", "\\ifnum{D}>{C} a\\fi ", "\\ifnum-{D}<{S} a\\fi ", "\\ifnum{S}={S} a\\fi ", "\\ifodd{C} a\\fi ",
    "\\ifodd{D} a\\fi ", "\\ifodd-{S} a\\fi ", "\\ifodd-{C} a\\fi ", "\\ifcase{C} a\\or b\\else c\\fi ", "\\ifcase{D} a\\or b\\else c\\fi ", "\\ifcase-{C} a\\or b\\fi ",
    "\\ifcase{S} a\\or b\\fi ", "\\ifcase{C} a",
    // register indices and stream numbers
    "\\count{C}=1 ", "\\dimen{D}=1pt ", "\\skip{S}=1pt ", "\\toks{C}={} ", "\\the\\count{C} ", "\\the\\toks{D} ", "\\openin{C}=a ", "\\ifeof{C} a\\fi ", "\\closein{D} ",
    "\\read{C} to\\x ", "\\J{C}=1 ", "\\the\\J{D} ", "\\countdef\\X={C} ", "\\toksdef\\T={D} ", "\\advance\\count{C} by {C} ",
    // character codes and other integer parameters
    "\\catcode{C}=12 ", "\\catcode`a={C} ", "\\mathcode{C}=1 ", "\\mathcode`a={C} ", "\\chardef\\C={C} \\C", "\\mathchardef\\M={D} \\the\\M", "\\endlinechar={C} a\n b",
    "\\tracingmacros={C} \\def\\a{}\\a", "\\globaldefs={C} \\count3=1 ", "\\year={C} \\the\\year ", "\\the\\catcode{C} ", "\\the\\mathcode{D} ", "\\dumpFormat={C} ",
    "\\catcode{D}={S} ", "\\endlinechar={D} a\n b", "\\time={S} \\the\\time ",
    // array lengths
    "\\newIntArray\\X{C} \\X 0=1 ", "\\newIntArray\\X{D} \\the\\X 0 ", "\\newIntArray\\X-{S} \\X 1=1 ",
];

/// Programs (as statement lists): for every register kind (count, dimen, each component of a
/// skip) and every extreme value, a preamble that drives the register there (the other
/// registers get random values, extreme half of the time), then every use that mentions it.
fn extreme_programs(rng: &mut Rng, rounds: usize) -> Vec<Vec<String>> {
    let mut out = vec![];
    let small: &[i64] = &[0, 1, -1, 2, 5, -7, 65536, 255, 32767];
    for _ in 0..rounds {
        for kind in ["C", "D", "Sw", "Sst", "Ssh"] {
            for &t in EXTREMES {
                for u in USES {
                    let reg = if kind.starts_with('S') { "{S}" } else if kind == "C" { "{C}" } else { "{D}" };
                    // `{R}` stands for the register under test
                    if !(u.contains("{R}") || u.contains(reg)) {
                        continue;
                    }
                    let mut other = |rng: &mut Rng| if rng.chance(1, 2) { *rng.pick(EXTREMES) } else { *rng.pick(small) };
                    let c = if kind == "C" { t } else { other(rng) };
                    let d = if kind == "D" { t } else { other(rng) };
                    let w = if kind == "Sw" { t } else { other(rng) };
                    let st = if kind == "Sst" { t } else { other(rng) };
                    let sh = if kind == "Ssh" { t } else { other(rng) };
                    let mut parts = vec!["\\count2=2 \\dimen2=1sp \\newIntArray\\J 3 ".to_string()];
                    parts.extend(drive_count(c, rng));
                    parts.extend(drive_dimen(d, rng));
                    let ords = ["sp", "sp", "sp", "fil", "fill", "filll"];
                    let (ost, osh) = (*rng.pick(&ords), *rng.pick(&ords));
                    parts.extend(drive_skip(w, st, sh, ost, osh, rng));
                    let fill = |u: &str| u.replace("{R}", &reg.to_string()).replace("{C}", "\\count1").replace("{D}", "\\dimen0").replace("{S}", "\\skip0");
                    parts.push(fill(u));
                    // look at the result, or apply a second use to the new state
                    parts.push(match rng.below(3) {
                        0 => fill("\\the{R} "),
                        1 => fill(*rng.pick(USES)),
                        _ => "\\the\\dimen3 \\the\\skip3 \\the\\count3 ".to_string(),
                    });
                    out.push(parts);
                }
            }
        }
    }
    out
}

// ------------------------------------------------------------------------------------------
// Error-provoking names: undefined commands of every shape, in every position and context.
// ------------------------------------------------------------------------------------------

/// (preamble that makes the token a command token, the token as written)
fn undefined_names() -> Vec<(String, String)> {
    let mut v: Vec<(String, String)> = vec![];
    // control words: ASCII and non-ASCII letters, close to / far from existing primitives
    // (the spell-checker of UndefinedCommandError), one-character, very long, other case
    for w in [
        "undefinedcs", "q", "Q", "advanc", "advancee", "cuont", "counts", "tim", "relaxx", "ifnumm", "Count", "DEF", "zzzzqqqqwwwwjjjj", "xa", "the\u{e9}",
        "\u{e9}l\u{e9}phant", "\u{e9}", "advanc\u{e9}", "c\u{f4}unt", "\u{df}", "\u{4e16}\u{754c}", "\u{3b1}\u{3b2}\u{3b3}", "e\u{301}", "\u{1d400}",
    ] {
        v.push((String::new(), format!("\\{w}")));
    }
    v.push((String::new(), format!("\\{}", "long".repeat(80))));
    // control symbols (one non-letter character)
    for c in ["\u{20ac}", "\u{1f600}", "!", "1", "\\", "%", "{", "}", "#", "&", "$", "^", "_", "~", " ", "^^M", "^^@", "^^?", "\u{a0}", "\u{301}", "\u{2028}", "\u{10ffff}"] {
        v.push((String::new(), format!("\\{c}")));
    }
    // the empty name: an escape character at the very end of a line without end-of-line character
    v.push(("\\endlinechar=-1 ".into(), "\\\n".into()));
    // active characters: `~` is active already; the others are made active first
    v.push((String::new(), "~".into()));
    for c in [
        "!", "@", "a", "1", "=", "\u{e9}", "\u{df}", "\u{a0}", "\u{20ac}", "\u{4e16}", "\u{2028}", "\u{feff}", "\u{1f600}", "\u{1d400}", "\u{10ffff}", "\u{301}", "\u{80}",
        "\u{7ff}", "\u{800}", "\u{ffff}", "\u{10000}",
    ] {
        v.push((format!("\\catcode`\\{c}=13 "), c.to_string()));
    }
    // a base letter followed by an active combining mark
    v.push(("\\catcode`\\\u{301}=13 ".into(), "e\u{301}".into()));
    // active space and active end of line
    v.push(("\\catcode`\\ =13 ".into(), " ".into()));
    v.push(("\\catcode`\\^^M=13 ".into(), "\n".into()));
    v
}

/// Contexts in which the undefined command `@N@` is met (`@N@` is always followed by a
/// non-letter so that control words end where they should).
const UNDEFINED_USES: &[&str] = &[
    "@N@",
    "@N@ rest",
    "@N@@N@",
    "{\\def@N@{x}@N@}@N@ after the group",
    "{\\gdef\\tmp{}\\let@N@=\\tmp @N@}@N@ rest",
    "\\let@N@=\\alsoundefined @N@ rest",
    "\\let\\x=@N@ \\x rest",
    "\\the@N@ rest",
    "\\advance@N@ by 1 ",
    "\\count@N@=1 ",
    "\\count1=@N@ ",
    "\\dimen1=1@N@ ",
    "\\expandafter@N@@N@ rest",
    "\\expandafter\\relax@N@ rest",
    "\\noexpand@N@ rest",
    "\\ifnum@N@<1 a\\fi ",
    "\\ifnum1<@N@ a\\fi ",
    "\\iftrue@N@\\fi ",
    "\\iffalse\\else@N@\\fi ",
    "\\ifcase1 a\\or@N@\\fi ",
    "\\def\\a{@N@}\\a rest",
    "\\def\\a#1{#1}\\a@N@ rest",
    "\\def\\a#1@N@{[#1]}\\a x@N@ @N@",
    "\\toks1={@N@}\\the\\toks1 rest",
    "\\input @N@",
    "\\openin1=@N@ ",
    "\\global@N@ rest",
    "\\long@N@",
    "\\catcode@N@=12 ",
    "\\chardef@N@=65 @N@ \\mathchardef@N@=1 @N@",
    "\\countdef@N@=1 {\\countdef@N@=2 }@N@=3 \\let@N@=\\undefinedtoo @N@=4 ",
    "\\read1 to@N@ @N@ rest",
    "\\newInt@N@ {\\let@N@=\\undefinedtoo @N@=1 }@N@=2 ",
    "\\tracingmacros=2 \\def\\a#1{#1}\\a@N@ rest",
];

/// What comes before on the same or earlier lines.
const PLACEMENTS: &[&str] = &["", "\u{e9}\u{4e16}\u{1f600} ", "text\n\n  \u{e9} ", "a^^41\u{df}", "\u{e9}%c\n\u{3b1}\u{301} "];

fn undefined_programs(rng: &mut Rng, thorough: bool) -> Vec<Vec<String>> {
    let mut out = vec![];
    for (pre, tok) in undefined_names() {
        for (ui, u) in UNDEFINED_USES.iter().enumerate() {
            for (pi, pl) in PLACEMENTS.iter().enumerate() {
                // the bare uses in every placement; the other contexts in one (thorough: every)
                if !(ui < 2 || thorough || rng.below(PLACEMENTS.len() as u64) as usize == pi) {
                    continue;
                }
                let body = u.replace("@N@", &tok);
                out.push(vec![pre.clone(), pl.to_string(), body]);
            }
        }
    }
    out
}

// ------------------------------------------------------------------------------------------
// Failing expansion inside a scan: wherever a scanner expands ahead, the next token is made to
// fail while it is expanded. A primitive that swallows the resulting `Err(ShutdownSignal)`
// breaks the contract of `protocol_safe`; the text that follows makes the ignored signal
// surface ("shutdown signal ignored") at the next error or at the end-of-input shutdown.
// ------------------------------------------------------------------------------------------

/// Statements cut into pieces; the failing token is inserted after every piece (so after signs,
/// integer digits, the decimal point, fraction digits, each letter of a unit or keyword,
/// `plus`/`minus`/`by`/`to`/`=`, register indices, operands of conditionals, `\the`,
/// `\expandafter`, prefixes, file names, ...).
const SCAN_FRAMES: &[&[&str]] = &[
    &["\\count1", "=", "-", "-", "1", "2", " "],
    &["\\count1=", "'", "7", "7", " "],
    &["\\count1=", "\"", "A", "F", " "],
    &["\\count1=", "`", "a", " "],
    &["\\count1=", "\\count", "1", " "],
    &["\\count1=", "-", "\\dimen2", " "],
    &["\\count", "1", "2", "=", "5", " "],
    &["\\dimen0", "=", "-", "1", ".", "2", "5", "p", "t", " "],
    &["\\dimen0=", "3", ",", "1", "i", "n", " "],
    &["\\dimen0=", ".", "5", "t", "r", "u", "e", " ", "c", "m", " "],
    &["\\dimen0=", "2", "e", "m", " "],
    &["\\dimen0=", "1", ".", "5", "\\dimen2", " "],
    &["\\dimen0=", "\\count1", "\\dimen2", " "],
    &["\\dimen0=", "0", ".", "9", "9", "9", "9", "9", "\\count1", " "],
    &["\\dimen", "0", "=", "\\skip0", " "],
    &["\\skip0", "=", "1", ".", "5", "pt", " ", "plus", " ", "2", ".", "5", "f", "i", "l", "l", " ", "minus", " ", "-", "3", "pt", " "],
    &["\\skip0=", "1pt", " p", "l", "u", "s", "2", "pt", " m", "i", "n", "u", "s", ".", "5", "fil", " "],
    &["\\skip0=", "-", "\\skip0", " "],
    &["\\skip0=0pt plus ", "\\count1", "\\dimen2", " minus ", "1", "\\skip0", " "],
    &["\\advance", "\\count1", " b", "y", " ", "-", "3", " "],
    &["\\advance", "\\dimen0", " by", "1", ".", "5", "pt", " "],
    &["\\advance", "\\skip0", " by", "1pt", " plus", "1", ".", "0", "fil", " "],
    &["\\multiply", "\\dimen0", " by", "2", " "],
    &["\\divide", "\\skip0", "by", "-", "2", " "],
    &["\\global", "\\advance", "\\count", "1", " by", "1", " "],
    &["\\global", "\\long", "\\def", "\\m", "#1", "{x}"],
    &["\\read", "1", " t", "o", " ", "\\x"],
    &["\\openin", "1", "=", "a", ".", "t", "ex", " "],
    &["\\input", " ", "a", ".", "tex", " "],
    &["\\closein", "1", " "],
    &["\\ifeof", "1", " ", "a", "\\else", "b", "\\fi", " "],
    &["\\ifnum", "1", "2", "<", "-", "3", " ", "a", "\\else", "b", "\\fi", " "],
    &["\\ifnum", "\\count1", "=", "\\dimen2", "a", "\\fi", " "],
    &["\\ifodd", "-", "3", " ", "a", "\\fi", " "],
    &["\\ifcase", "-", "1", " ", "a", "\\or", "b", "\\else", "c", "\\fi", " "],
    &["\\ifcase", "2", " ", "a", "\\or", "b", "\\or", "c", "\\fi", " "],
    &["\\iftrue", "a", "\\else", "b", "\\fi", " "],
    &["\\iffalse", "a", "\\else", "b", "\\fi", " "],
    &["\\the", "\\count", "1", " "],
    &["\\the", "\\catcode", "`", "a", " "],
    &["\\the", "\\J", "1", " "],
    &["\\the", "\\toks", "1", " "],
    &["\\expandafter", "\\relax", "\\relax", " "],
    &["\\expandafter", "\\the", "\\count1", " "],
    &["\\expandafter", "\\expandafter", "\\expandafter", "\\a", "\\a", " "],
    &["\\noexpand", "\\a", " "],
    &["\\catcode", "`", "\\a", "=", "1", "2", " "],
    &["\\catcode", "6", "5", "=", "1", "1", " "],
    &["\\mathcode", "`", "a", "=", "\"", "7", "F", " "],
    &["\\chardef", "\\C", "=", "6", "5", " "],
    &["\\mathchardef", "\\M", "=", "7", " "],
    &["\\countdef", "\\X", "=", "5", " "],
    &["\\toksdef", "\\T", "=", "3", " "],
    &["\\toks", "1", "=", "{x}"],
    &["\\toks1", "=", "\\toks", "2", " "],
    &["\\let", "\\x", "=", " ", "a"],
    &["\\endlinechar", "=", "-", "1", " "],
    &["\\tracingmacros", "=", "2", " "],
    &["\\globaldefs", "=", "-", "1", " "],
    &["\\year", "=", "\\month", " "],
    &["\\newInt", "\\I", " "],
    &["\\newIntArray", "\\K", "3", " "],
    &["\\J", "1", "=", "-", "4", " "],
    &["\\dumpFormat", "=", "1", " "],
    &["\\b", "{x}", " "],
    &["\\c", "x", "y", " "],
];

/// (the failing token(s), must it be the last thing in the input?)
const FAILERS: &[(&str, bool)] = &[
    ("\\else", false),
    ("\\fi", false),
    ("\\or", false),
    ("\\input doesNotExist ", false),
    ("\\input x:a ", false),
    ("\\delim", false),   // delimited argument never closed: end of input while expanding
    ("\\undefinedcs", false),
    ("\\ifnum 1z2 ", false), // recoverable error while a conditional is expanded
    ("\\ifodd x", false),
    ("\\the\\relax", false),
    ("\\the a", false),
    ("\\ifcase\\fi", false),
    ("\\argeof", true),   // undelimited argument at end of input
    ("\\expandafter", true),
    ("\\expandafter\\a", true),
    ("\\noexpand", true),
    ("\\the", true),
    ("\\input", true),
    ("\\ifnum", true),
    ("\\ifnum1<", true),
    ("\\ifcase", true),
    ("\\the\\count", true),
];

const SCAN_PRE: &str = "\\def\\delim#1\\never{}\\def\\argeof#1{}\\def\\a{}\\def\\b#1{#1}\\def\\c#1#2{#2#1}\\count1=5 \\dimen2=1pt \\newIntArray\\J 3 \\openin1=a ";

const SCAN_TAILS: &[&str] = &["", " pt more text {\\count2=x }\\undefinedfinal", "pt text"];

fn failing_scan_programs(rng: &mut Rng, thorough: bool) -> Vec<Vec<String>> {
    let mut out = vec![];
    for frame in SCAN_FRAMES {
        for k in 1..=frame.len() {
            let head: String = frame[..k].concat();
            let rest: String = frame[k..].concat();
            for (f, last) in FAILERS {
                if *last {
                    out.push(vec![SCAN_PRE.to_string(), head.clone(), f.to_string()]);
                    continue;
                }
                let pick = rng.below(SCAN_TAILS.len() as u64) as usize;
                for (ti, t) in SCAN_TAILS.iter().enumerate() {
                    if thorough || ti == pick {
                        out.push(vec![SCAN_PRE.to_string(), head.clone(), f.to_string(), rest.clone(), t.to_string()]);
                    }
                }
            }
        }
    }
    out
}

// ------------------------------------------------------------------------------------------
// Allocated variables: `\newInt` / `\newIntArray` storage is a flat vector shared by all
// arrays; every array is accessed at and around both of its ends, in every way a variable can
// be accessed, with other allocations before, between and after, inside and outside groups.
// ------------------------------------------------------------------------------------------

fn array_programs(rng: &mut Rng) -> Vec<Vec<String>> {
    let mut out = vec![];
    let sizes: &[usize] = &[0, 1, 2, 3, 7];
    let names = ["\\J", "\\K", "\\L"];
    let accesses: &[&str] = &[
        "@A@ @I@=5 ", "\\the@A@ @I@ ", "\\advance@A@ @I@ by 1 ", "\\multiply@A@ @I@ by 2 ", "\\divide@A@ @I@ by 0 ", "\\count1=@A@ @I@ ", "\\global@A@ @I@=1 ",
        "{@A@ @I@=7 }\\the@A@ @I@ ", "\\ifnum@A@ @I@=0 a\\fi ", "\\ifcase@A@ @I@ a\\or b\\fi ", "\\count@A@ @I@=1 ", "@A@@A@ @I@=1 ", "\\count2=@I@ @A@\\count2=3 \\the@A@\\count2 ",
        "\\dimen1=@A@ @I@pt ", "\\let\\Z=@A@ \\Z @I@=1 ", "\\catcode@A@ @I@=12 ",
    ];
    for n_arrays in 1..=3usize {
        for round in 0..(if n_arrays == 1 { 2 } else { 3 }) {
            let lens: Vec<usize> = (0..n_arrays).map(|_| *rng.pick(sizes)).collect();
            // allocation preamble: arrays interleaved with single variables, sometimes in a group
            // that stays open, sometimes re-allocating a name
            let mut pre = String::new();
            let in_group = round == 1;
            if in_group {
                pre.push('{');
            }
            for (k, len) in lens.iter().enumerate() {
                if rng.chance(1, 2) {
                    pre.push_str("\\newInt\\I ");
                }
                pre.push_str(&format!("\\newIntArray{} {} ", names[k], len));
                if rng.chance(1, 5) {
                    pre.push_str(&format!("\\newIntArray{} {} ", names[k], len));
                }
            }
            for (k, len) in lens.iter().enumerate() {
                let l = *len as i64;
                let mut idx: Vec<i64> = vec![-1, 0, l - 1, l, l + 1, l + 7];
                idx.sort();
                idx.dedup();
                for i in idx {
                    for a in accesses {
                        // every access at the two ends; elsewhere a sample
                        if !(i == l || i == l - 1 || rng.chance(1, 3)) {
                            continue;
                        }
                        let body = a.replace("@A@", names[k]).replace("@I@", &i.to_string());
                        let mut parts = vec![pre.clone(), body];
                        // then look at every array's last element: a write through a wrong index
                        // shows up in a neighbour
                        let mut tail = String::new();
                        for (k2, len2) in lens.iter().enumerate() {
                            if *len2 > 0 {
                                tail.push_str(&format!("\\the{} {} ", names[k2], len2 - 1));
                            }
                        }
                        if in_group && rng.chance(1, 2) {
                            tail.push('}');
                            tail.push_str(&format!("\\the{} 0 ", names[k]));
                        }
                        parts.push(tail);
                        out.push(parts);
                    }
                }
            }
        }
    }
    out
}

// ------------------------------------------------------------------------------------------
// Errors whose parts lie on different lines and in different files: the token that ends up in
// the error (from a macro body, a token register, a file) and the command that runs when the
// error occurs are placed on lines 1..1000, so that the blocks of a rendered error have line
// numbers of different widths, in both directions.
// ------------------------------------------------------------------------------------------

/// (definition part, use part). In the first group the offending token comes from the
/// definition and the running command from the use; in the second group it is the reverse.
const LAYOUT_PAIRS: &[(&str, &str)] = &[
    ("\\def\\x{A}", "\\count1=\\x "),
    ("\\def\\x{pt A}", "\\dimen1=1.5\\x "),
    ("\\def\\x{\\else}", "\\ifnum1<2 \\x a\\fi \\advance\\x"),
    ("\\toks1={\\fi A}", "\\count1=\\the\\toks1 "),
    ("\\def\\x{\\undefinedinmacro}", "\\count1=\\x "),
    ("\\def\\x{\\relax}", "\\the\\x \\advance\\x by 1 "),
    ("\\let\\x=\\undefinedtarget \\def\\w{\\x}", "\\advance\\w by 1 "),
    ("\\def\\x{\u{e9}\u{4e16} z}", "\\catcode`a=\\x "),
    ("\\def\\x{-}", "\\openin\\x1=a \\global\\x"),
    ("\\def\\y#1{\\count1=#1 }", "\\y{B}"),
    ("\\def\\y#1{\\dimen1=1#1 \\the#1}", "\\y{\u{e9}}"),
    ("\\def\\y#1{\\ifnum#1<1 \\fi}", "\\y{Q}"),
    ("\\def\\y#1#2{\\advance#1 by #2 }", "\\y\\count{x}"),
    ("\\def\\y{\\global}", "\\y a"),
    ("\\def\\y#1{\\input #1 }", "\\y{missing}"),
];

fn layout_programs(rng: &mut Rng, thorough: bool) -> Vec<Vec<String>> {
    let mut out = vec![];
    let line_choices: &[usize] = &[1, 2, 9, 10, 11, 99, 100, 101, 1000];
    let filler = |from: usize, to: usize, rng: &mut Rng| -> String {
        // lines from+1 ..= to-1 are comments, blank-free text or `\relax`
        // (`\relax` lines cost lexer ticks of the step budget: only for short gaps)
        let kind = if to.saturating_sub(from) > 150 { 0 } else { rng.below(3) };
        (from..to).map(|_| match kind { 0 => "%\n", 1 => "\\relax\n", _ => "% \u{e9}\n" }).collect()
    };
    for (def, usep) in LAYOUT_PAIRS {
        for (ai, &a) in line_choices.iter().enumerate() {
            for &b in &line_choices[ai + 1..] {
                // quick: every pair of widths, a sample of the rest
                let widths_differ = a.to_string().len() != b.to_string().len();
                if !(thorough || (widths_differ && rng.chance(1, 2)) || rng.chance(1, 8)) {
                    continue;
                }
                // same file: definition on line a, use on line b
                let pre = filler(1, a, rng);
                let mid = filler(a, b, rng);
                out.push(vec![pre, def.to_string(), "\n".to_string(), mid, usep.to_string(), " tail".to_string()]);
            }
        }
        // two files: the definitions at line n of a file, the use at line m of the main file or
        // of another file
        for n in [2usize, 10, 100, 1000] {
            for m in [1usize, 10, 100] {
                if !(thorough || rng.chance(1, 3)) {
                    continue;
                }
                let pre = filler(1, m, rng);
                out.push(vec![pre.clone(), format!("\\input def{n} {usep}"), " tail".to_string()]);
                out.push(vec![pre.clone(), format!("{def}\\input use{n} "), " tail".to_string()]);
                out.push(vec![pre, format!("\\input def{n} \\input use{} ", [2usize, 10, 100, 1000][m.to_string().len() % 4])]);
            }
        }
    }
    out
}

struct C09 {
    driver_path: String,
    debug: bool,
    gutter_cache: HashMap<usize, String>,
}

const MODES: &[&str] = &["e", "s", "n", "b"];

fn sig_of_panic(msg: &str) -> String {
    format!("panic {}", strip_msg(msg))
}

impl C09 {
    fn run_stream(&mut self, mode: &str, prog: &str, drv: &mut Driver, o: &mut CaseOutcome) {
        let src = format!("{}{}", mode_prefix(mode), prog);
        o.tag(format!("mode:{mode}"));
        if parked() >= RUN_STREAM_PARK_CAP {
            o.tag("outcome:not run (too many refused allocation requests)");
            o.fail(
                Kind::ImplPanic,
                "run",
                format!("alloc: more than {RUN_STREAM_PARK_CAP} refused requests in one run"),
                format!("{} programs of this run asked the allocator for {} MiB or more in one request (the unchanged tree: ~50 in a quick run, ~200 in a thorough run, all from \\newIntArray with a huge length); the rest of the `run` stream, starting with this case, was not run", parked(), BIG_REQUEST >> 20),
            );
            return;
        }
        let outcome = run_program(&src, false, 6000);
        if matches!(outcome, Outcome::Ok(..) | Outcome::Err { .. }) {
            // the errors the run recovered from were rendered into the log: their gutters too
            let log = LAST_LOG.lock().unwrap().clone();
            if !log.is_empty() && log.len() < 20_000 {
                self.check_gutters(&log, drv, o);
            }
        }
        match outcome {
            Outcome::Budget => {
                o.tag("outcome:budget (not counted)");
            }
            Outcome::Unbounded(what) => {
                o.tag("outcome:unbounded");
                o.nontrivial = true;
                o.fail(Kind::ImplVsSpec, "run", "input nesting exceeds the 100-level limit", format!("{what}: the recursion limit of \\input does not stop the run"));
            }
            Outcome::BigAlloc { bytes, in_new_int_array } => {
                // Known finding C09-m is `\newIntArray` resizing its storage to whatever length
                // the program asks for; the label is used for exactly that call site (the
                // request arrives while the alloc component is mutably borrowed, before any
                // other access to the state), any other large request keeps a signature of its own.
                o.tag(if in_new_int_array { "outcome:big-allocation (newIntArray)" } else { "outcome:big-allocation (other)" });
                o.nontrivial = true;
                o.fail(Kind::ImplPanic, "run", big_sig(in_new_int_array), big_detail(&src, bytes, in_new_int_array));
            }
            Outcome::Ok(out, n) => {
                if self.debug {
                    eprintln!("OUTPUT: {out:?} ({n} recovered errors)");
                }
                o.tag("outcome:ok");
                if n > 0 {
                    o.tag("recovered-errors>0");
                }
                o.nontrivial = true;
            }
            Outcome::Panic(msg) => {
                o.tag("outcome:panic");
                o.nontrivial = true;
                // Known finding C09-k is the execution of the internal getter provider of
                // `\newInt` itself; the label is used for exactly that input shape and that panic,
                // so any other way of reaching the same `panic!()` keeps its file:line signature.
                let is_k = msg.starts_with("crates/texlang/src/variable.rs:")
                    && msg.ends_with("explicit panic")
                    && (prog.contains("\\newInt_getter_provider_^^@") || prog.contains("\\newInt_getter_provider_\u{0}"))
                    && !prog.contains("newIntArray");
                let sig = if is_k { "C09-k: the getter provider of \\newInt executed as a command".to_string() } else { sig_of_panic(&msg) };
                o.fail(Kind::ImplPanic, "run", sig, format!("the VM panicked: {msg}"));
            }
            Outcome::Err { title, rendered, kind, primary, excerpts, n_recovered } => {
                o.tag("outcome:error");
                o.tag(format!("error-kind:{kind}"));
                if n_recovered > 0 {
                    o.tag("recovered-errors>0");
                }
                o.nontrivial = true;
                let mut t: String = title.chars().filter(|c| !c.is_ascii_digit()).take(48).collect();
                if t.starts_with("could not read") {
                    t = "could not read".into();
                }
                o.tag(format!("title:{t}"));
                let non_ascii_line = excerpts.iter().any(|(l, _, _)| !l.is_ascii());
                if non_ascii_line {
                    o.tag("error-on-non-ascii-line");
                }
                match &rendered {
                    Err(msg) => {
                        o.fail(
                            Kind::ImplPanic,
                            "render",
                            sig_of_panic(msg),
                            format!("rendering the error `{title}` panicked: {msg}"),
                        );
                    }
                    Ok(text) => {
                        let plain = strip_ansi(text);
                        if !(plain.contains(">>> ") && plain.contains("Error: ")) {
                            o.fail(Kind::ImplVsSpec, "render", "error without location", format!("rendered error has no location line: {plain}"));
                        }
                    }
                }
                // end-of-input location vs the Lean model of `trace_end_of_input` (only when the
                // last external input is the program itself: no terminal reads)
                if kind == "eof" && !src.contains("read") && src.len() < 600 {
                    if let Some(((line, index, _), line_number)) = &primary {
                        let rep = drv.ask(&format!("eoi | {}", join(&src.chars().map(|c| c as u32).collect::<Vec<_>>())));
                        o.tag("eoi:compared");
                        let mut it = rep.split(' ');
                        let (v, ln, pos) = (it.next().unwrap_or(""), it.next().unwrap_or(""), it.next().unwrap_or(""));
                        let want_line: String = it.filter_map(|w| w.parse::<u32>().ok()).filter_map(char::from_u32).collect();
                        if v != "ok" || ln != line_number.to_string() || want_line != *line {
                            o.fail(
                                Kind::ImplVsModel,
                                "eoi",
                                "end of input: line differs",
                                format!("{src:?}: real line {line_number} {line:?}, model {rep}"),
                            );
                        } else if pos != index.to_string() {
                            // S (computed by Lean): the position is the number of characters of the line
                            o.tag("eoi:position-in-bytes");
                            o.fail(
                                Kind::ImplVsSpec,
                                "eoi",
                                "end-of-input position counts bytes",
                                format!("{src:?}: the input ends after character {pos} of line {line:?}, reported index {index}"),
                            );
                        }
                    }
                }
                // excerpt arithmetic vs the Lean model / spec
                let plain = rendered.as_ref().ok().map(|t| strip_ansi(t));
                // the gutter of every block of the rendering against the Lean `gutter_total`:
                // a block starts with `>>> origin:line:col`, then an empty `|` line, then the
                // source line `line | ...`; the margin is sized from the block's own line number
                if let Some(p) = &plain {
                    self.check_gutters(p, drv, o);
                }
                // what the real rendering printed under the primary source line
                let underline: Option<(usize, usize)> = plain.as_ref().and_then(|p| {
                    let lines: Vec<&str> = p.lines().collect();
                    let i = lines.iter().position(|l| l.contains(">>> "))?;
                    let l = lines.get(i + 3)?;
                    let rest = &l[l.find("| ")? + 2..];
                    let sp = rest.chars().take_while(|c| *c == ' ').count();
                    let ca = rest.chars().skip(sp).take_while(|c| *c == '^').count();
                    Some((sp, ca))
                });
                let mut list: Vec<(Excerpt, Option<(usize, usize)>)> = vec![];
                if let Some((p, _)) = &primary {
                    // a line content with a line break of its own (\r, U+2028 are not) cannot occur
                    list.push((p.clone(), underline));
                }
                // (a failed-precondition error prints its primary trace only)
                for e in excerpts.iter().take(if kind == "precondition" { 0 } else { 5 }) {
                    if Some(e) != primary.as_ref().map(|(p, _)| p) {
                        list.push((e.clone(), None));
                    }
                }
                for ((line, index, value), under) in &list {
                    if line.len() > 400 {
                        continue;
                    }
                    let nch = value.chars().count();
                    let (sp, ca) = under.unwrap_or((*index, nch));
                    let req = format!(
                        "exc {} {} {} {} {} | {}",
                        index,
                        nch,
                        value.len(),
                        sp,
                        ca,
                        join(&line.chars().map(|c| c as u32).collect::<Vec<_>>())
                    );
                    let rep = drv.ask(&req);
                    // reply: "panic" | "ok <code points> ; located=<0|1> old=<panic|same|diff>"
                    if rep.starts_with("bad") {
                        o.fail(Kind::ModelVsSpec, "excerpt", "driver: bad request", format!("{req} -> {rep}"));
                        continue;
                    }
                    let model_panics = rep.starts_with("panic");
                    o.tag(if model_panics { "excerpt:model-panics".to_string() } else { format!("excerpt:model-ok,{}", rep.rsplit(' ').next().unwrap_or("")) });
                    if model_panics {
                        // impossible while `excerpt_total` holds
                        o.fail(Kind::ModelVsSpec, "excerpt", "excerpt: model panics", format!("{req} -> {rep}"));
                        continue;
                    }
                    match &plain {
                        Some(plain) => {
                            // the model's excerpt line must appear in the rendering
                            let want = rep.split(" ; ").next().unwrap_or("").strip_prefix("ok").unwrap_or("");
                            let want: String =
                                want.split_ascii_whitespace().filter_map(|w| w.parse::<u32>().ok()).filter_map(char::from_u32).collect();
                            if !plain.contains(want.trim_end()) {
                                o.fail(
                                    Kind::ImplVsModel,
                                    "excerpt",
                                    "excerpt: text differs",
                                    format!("model excerpt {want:?} not in rendering {plain:?}"),
                                );
                            }
                            if rep.contains("located=0") {
                                o.tag("excerpt:mislocated");
                                o.fail(
                                    Kind::ImplVsSpec,
                                    "excerpt",
                                    "excerpt underline does not match the token",
                                    format!(
                                        "line {line:?}: token {value:?} ({nch} characters) at character {index}, but the rendering underlines {ca} characters after {sp} spaces"
                                    ),
                                );
                            }
                        }
                        None => {
                            // the rendering panicked (reported above); the model says it must not
                        }
                    }
                }
            }
        }
    }

    fn proto_stream(&mut self, mode: &str, evs: &[&str], drv: &mut Driver, o: &mut CaseOutcome) {
        let mut src = String::from(mode_prefix(mode));
        for e in evs {
            match EVENTS.iter().find(|(k, _)| k == e) {
                Some((_, cs)) => {
                    src.push('\\');
                    src.push_str(cs);
                    src.push(' ');
                }
                None => {
                    o.fail(Kind::ModelVsSpec, "proto", "bad case", format!("unknown event {e}"));
                    return;
                }
            }
        }
        let contract = !evs.iter().any(|e| e.starts_with("ign") || *e == "spur");
        o.tag(if contract { "proto:contract-respected" } else { "proto:contract-violated" });
        let got = match run_program(&src, true, 100_000) {
            Outcome::Ok(..) => "ok".to_string(),
            Outcome::Err { .. } => "err".to_string(),
            Outcome::Panic(m) if m.contains("shutdown signal ignored") => "panic-ignored".to_string(),
            Outcome::Panic(m) if m.contains("unreachable") => "panic-unreachable".to_string(),
            Outcome::Panic(m) => format!("panic-other {m}"),
            Outcome::Budget => "budget".to_string(),
            Outcome::Unbounded(w) => format!("unbounded {w}"),
            Outcome::BigAlloc { bytes, .. } => format!("big-allocation {bytes}"),
        };
        o.tag(format!("proto:{}", got.split(' ').next().unwrap_or("")));
        o.nontrivial = evs.len() >= 1;
        let rep = drv.ask(&format!("proto {} {}", mode, evs.join(" ")));
        // reply: "<outcome> contract=<0|1> safe=<0|1>"
        let model = rep.split(' ').next().unwrap_or("").to_string();
        if model != got {
            o.fail(Kind::ImplVsModel, "proto", "protocol: outcome differs", format!("events {evs:?} mode {mode}: real {got}, model {rep}"));
        }
        if contract && got.starts_with("panic") {
            o.fail(Kind::ImplPanic, "proto", format!("protocol: {got} under the contract"), format!("events {evs:?}: {got}"));
        }
        if rep.contains("contract=1") && rep.contains("safe=0") {
            o.fail(Kind::ModelVsSpec, "proto", "protocol: model unsafe under contract", rep);
        }
    }

    /// Small kernels: run a one-line program in scroll mode (recoverable errors are counted and
    /// execution continues) and compare verdict and value with the Lean model.
    /// `mk_src(model_value)` builds the program from the value the model says is used.
    fn kernel(&mut self, case: &str, stream: &str, drv: &mut Driver, o: &mut CaseOutcome, mk_src: &dyn Fn(&str, i64) -> (String, String)) {
        let rep = drv.ask(case);
        o.nontrivial = true;
        let mut it = rep.split(' ');
        let verdict = it.next().unwrap_or("").to_string();
        let value: i64 = it.next().and_then(|w| w.parse().ok()).unwrap_or(-1);
        o.tag(format!("{stream}:{verdict}"));
        if !matches!(verdict.as_str(), "ok" | "err" | "some" | "none") {
            o.fail(Kind::ModelVsSpec, stream, format!("{stream}: model answers {verdict}"), format!("{case} -> {rep}"));
            return;
        }
        let (src, want_out) = mk_src(&verdict, value);
        let full = format!("\\scrollmode {src}");
        match run_program(&full, false, 200_000) {
            Outcome::Ok(out, n_err) => {
                let got_verdict = if n_err > 0 { "err" } else { "ok" };
                let want_verdict = if verdict == "err" { "err" } else { "ok" };
                if got_verdict != want_verdict {
                    o.fail(Kind::ImplVsModel, stream, format!("{stream}: error/no error differs"), format!("{src}: real reported {n_err} errors, model {rep}"));
                }
                if out.trim() != want_out {
                    o.fail(Kind::ImplVsModel, stream, format!("{stream}: value differs"), format!("{src}: real output {:?}, expected {want_out:?} (model {rep})", out.trim()));
                }
            }
            Outcome::Err { title, .. } => {
                o.fail(Kind::ImplVsModel, stream, format!("{stream}: fatal error"), format!("{src}: fatal error {title}, model {rep}"));
            }
            Outcome::Panic(m) => {
                o.fail(Kind::ImplPanic, stream, sig_of_panic(&m), format!("{src}: {m}"));
            }
            Outcome::BigAlloc { bytes, in_new_int_array } => {
                // no large array is asked for here: never the label of C09-m
                o.fail(Kind::ImplPanic, stream, big_sig(false), big_detail(&src, bytes, in_new_int_array));
            }
            Outcome::Budget | Outcome::Unbounded(_) => o.fail(Kind::ModelVsSpec, stream, "budget", src),
        }
    }

    fn check_gutters(&mut self, plain: &str, drv: &mut Driver, o: &mut CaseOutcome) {
        let lines: Vec<&str> = plain.lines().collect();
        let mut blocks = 0;
        let mut widths = std::collections::BTreeSet::new();
        for (i, l) in lines.iter().enumerate() {
            let t = l.trim_start_matches(' ');
            if !t.starts_with(">>> ") {
                continue;
            }
            // `>>> origin:line:col`
            let mut it = t.rsplitn(3, ':');
            let (Some(col), Some(line), Some(_)) = (it.next(), it.next(), it.next()) else { continue };
            let (Ok(_), Ok(n)) = (col.parse::<usize>(), line.parse::<usize>()) else { continue };
            let (Some(blank), Some(source)) = (lines.get(i + 1), lines.get(i + 2)) else { continue };
            blocks += 1;
            widths.insert(line.len());
            let rep = match self.gutter_cache.get(&n) {
                Some(r) => r.clone(),
                None => {
                    let r = drv.ask(&format!("gutter {n}"));
                    self.gutter_cache.insert(n, r.clone());
                    r
                }
            };
            let pads: Vec<usize> = rep.split_ascii_whitespace().filter_map(|w| w.parse().ok()).collect();
            if pads.len() != 3 {
                o.fail(Kind::ModelVsSpec, "gutter", "gutter: model underflows", format!("gutter {n} -> {rep}"));
                continue;
            }
            let lead = |s: &str| s.len() - s.trim_start_matches(' ').len();
            let ok = lead(l) == pads[0] + 1
                && lead(blank) == pads[1] + 1
                && blank.trim_start_matches(' ').starts_with('|')
                && lead(source) == pads[2]
                && source.trim_start_matches(' ').starts_with(&format!("{n} | "));
            if !ok {
                o.fail(
                    Kind::ImplVsModel,
                    "gutter",
                    "gutter: margin differs from a printer sized by the block's own line number",
                    format!("block at line {n}: header {l:?}, blank {blank:?}, source {source:?}; model paddings {rep}"),
                );
            }
        }
        if blocks >= 2 {
            o.tag(if widths.len() >= 2 { "gutter:blocks-with-different-widths" } else { "gutter:two-blocks" });
        }
    }

    /// `\\newIntArray` storage against the Lean `runOps` (which is under `array_access_total`).
    fn alloc_stream(&mut self, case: &str, rest: &str, drv: &mut Driver, o: &mut CaseOutcome) {
        let names = ["\\J", "\\K", "\\L", "\\N"];
        let ws: Vec<&str> = rest.split_ascii_whitespace().collect();
        let mut src = String::from("\\scrollmode ");
        let mut i = 0;
        while i < ws.len() {
            let name = |k: usize| names[ws[k].parse::<usize>().unwrap_or(0) % names.len()];
            match ws[i] {
                "n" if i + 2 < ws.len() => {
                    src.push_str(&format!("\\newIntArray{} {} ", name(i + 1), ws[i + 2]));
                    i += 3;
                }
                "w" if i + 3 < ws.len() => {
                    src.push_str(&format!("{} {}={} ", name(i + 1), ws[i + 2], ws[i + 3]));
                    i += 4;
                }
                "r" if i + 2 < ws.len() => {
                    src.push_str(&format!("\\the{} {} /", name(i + 1), ws[i + 2]));
                    i += 3;
                }
                _ => {
                    o.fail(Kind::ModelVsSpec, "alloc", "bad case", case.to_string());
                    return;
                }
            }
        }
        o.nontrivial = true;
        let rep = drv.ask(case);
        let model: Vec<&str> = rep.split_ascii_whitespace().collect();
        if model.contains(&"panic") {
            o.fail(Kind::ModelVsSpec, "alloc", "alloc: model panics", format!("{case} -> {rep}"));
        }
        let want_vals: Vec<String> = model.iter().filter_map(|w| w.strip_prefix('v')).map(|v| v.to_string()).collect();
        let want_rec = model.iter().filter(|w| **w == "rec").count();
        let want_fatal = model.last() == Some(&"fatal");
        o.tag(if want_fatal { "alloc:fatal" } else { "alloc:ok" });
        let (got_vals, got_rec, got_fatal, detail) = match run_program(&src, false, 200_000) {
            Outcome::Ok(out, n) => (out, n, false, String::new()),
            Outcome::Err { title, n_recovered, .. } => (String::new(), n_recovered, true, title),
            Outcome::Panic(m) => {
                o.fail(Kind::ImplPanic, "alloc", sig_of_panic(&m), format!("{src}: {m}"));
                return;
            }
            Outcome::BigAlloc { bytes, in_new_int_array } => {
                // the arrays of this stream have 0-7 elements: never the label of C09-m
                o.fail(Kind::ImplPanic, "alloc", big_sig(false), big_detail(&src, bytes, in_new_int_array));
                return;
            }
            _ => {
                o.fail(Kind::ModelVsSpec, "alloc", "alloc: budget", src);
                return;
            }
        };
        if got_fatal != want_fatal || got_rec != want_rec {
            o.fail(Kind::ImplVsModel, "alloc", "alloc: errors differ", format!("{src}: real fatal={got_fatal} ({detail}) recovered={got_rec}, model {rep}"));
        } else if !got_fatal {
            let got: Vec<String> = got_vals.split('/').map(|v| v.trim().to_string()).filter(|v| !v.is_empty()).collect();
            if got != want_vals {
                o.fail(Kind::ImplVsModel, "alloc", "alloc: values differ", format!("{src}: real {got:?}, model {rep}"));
            }
        }
    }

    /// Nested `\\input` against the Lean `depths` (which is under `input_depth_invariant`).
    fn depth_stream(&mut self, case: &str, k: usize, drv: &mut Driver, o: &mut CaseOutcome) {
        let src = format!("\\count1=0 \\count2={k} \\input chain done");
        o.nontrivial = true;
        // the chain file inputs itself until \\count1 reaches k: at least once
        let rep = drv.ask(&format!("depth {}", k.max(1)));
        let (got_end, detail) = match run_program(&src, false, 400_000) {
            Outcome::Ok(..) => ("ok", String::new()),
            Outcome::Err { title, .. } => ("fatal", title),
            Outcome::Panic(m) => {
                o.fail(Kind::ImplPanic, "depth", sig_of_panic(&m), format!("{src}: {m}"));
                return;
            }
            Outcome::Unbounded(w) => {
                o.fail(Kind::ImplVsSpec, "depth", "input nesting exceeds the 100-level limit", w);
                return;
            }
            Outcome::BigAlloc { bytes, in_new_int_array } => {
                o.fail(Kind::ImplPanic, "depth", big_sig(false), big_detail(&src, bytes, in_new_int_array));
                return;
            }
            Outcome::Budget => ("budget", String::new()),
        };
        let got = format!("max={} end={}", MAX_SOURCES.load(std::sync::atomic::Ordering::Relaxed), got_end);
        o.tag(format!("depth:{got_end}"));
        if got != rep || (got_end == "fatal" && !detail.starts_with("too many input levels")) {
            o.fail(Kind::ImplVsModel, "depth", "input depth: differs", format!("{src}: real {got} ({detail}), model {rep}"));
        }
    }

    /// The same program in scroll and in errorstop mode: what scroll mode shows (k recovered
    /// errors, then a normal or fatal end) determines, through the Lean `run`, the outcome of
    /// both modes (`errorstop_first_recoverable`, `recovering_mode_skips_recoverable`).
    fn modes_stream(&mut self, prog: &str, drv: &mut Driver, o: &mut CaseOutcome) {
        let classify = |out: Outcome| -> Option<(String, String)> {
            match out {
                Outcome::Ok(..) => Some(("ok".into(), String::new())),
                Outcome::Err { title, .. } => Some(("err".into(), title)),
                _ => None, // panics and budget are the business of the `run` stream
            }
        };
        let Some((s_out, s_title)) = classify(run_program(&format!("\\scrollmode {prog}"), false, 6000)) else { return };
        let titles = RECOVERED_TITLES.lock().unwrap().clone();
        // same prefix length so that locations agree: errorstop is the default mode
        let Some((e_out, e_title)) = classify(run_program(&format!("\\errorstopmode {prog}"), false, 6000)) else { return };
        o.nontrivial = true;
        let k = titles.len();
        o.tag(format!("modes:recovered={},end={}", k.min(3), s_out));
        let rep = drv.ask(&format!("shape {k} {}", if s_out == "ok" { "end" } else { "fatal" }));
        let want = format!("scroll={s_out} errorstop={e_out}");
        if rep != want {
            o.fail(Kind::ImplVsModel, "modes", "modes: outcome differs from the protocol machine", format!("{prog:?}: real {want} (scroll recovered {k}), model {rep}"));
        } else if e_out == "err" {
            // the error that stops errorstop mode is the first one scroll mode recovered from
            let first = titles.first().cloned().unwrap_or(s_title);
            if first != e_title {
                o.fail(Kind::ImplVsModel, "modes", "modes: errorstop stops at another error", format!("{prog:?}: scroll first reports {first:?}, errorstop ends with {e_title:?}"));
            }
        }
    }

    /// Error location: `prefix` (plain text, several lines, non-ASCII) followed by an undefined
    /// control sequence; the trace of the error token is compared with the Lean `trace`.
    fn loc_stream(&mut self, prefix: &str, drv: &mut Driver, o: &mut CaseOutcome) {
        let src = format!("{prefix}\\undefinedcs rest");
        let off = prefix.chars().count();
        o.nontrivial = true;
        if !prefix.is_ascii() {
            o.tag("loc:non-ascii");
        }
        if prefix.contains('\n') {
            o.tag("loc:multi-line");
        }
        let rep = drv.ask(&format!("trace {} | {}", off, join(&src.chars().map(|c| c as u32).collect::<Vec<_>>())));
        match run_program(&src, false, 100_000) {
            Outcome::Err { title, primary: Some(((line, index, value), line_number)), rendered, .. } => {
                if let Err(m) = rendered {
                    o.fail(Kind::ImplPanic, "render", sig_of_panic(&m), format!("rendering `{title}` panicked: {m}"));
                }
                let got = format!("ok {} {} {}", line_number, index, join(&line.chars().map(|c| c as u32).collect::<Vec<_>>()));
                if got.trim_end() != rep.trim_end() || value != "\\undefinedcs" || title != "undefined control sequence" {
                    o.fail(Kind::ImplVsModel, "loc", "trace: line/position/content differs", format!("{src:?}: real {got} ({title}, {value}), model {rep}"));
                }
                // S: the located character really is the start of the token
                let at: String = line.chars().skip(index).take(12).collect();
                if at != "\\undefinedcs" {
                    o.fail(Kind::ImplVsSpec, "loc", "error location does not point at the token", format!("{src:?}: line {line:?} index {index}"));
                }
            }
            Outcome::Panic(m) => o.fail(Kind::ImplPanic, "loc", sig_of_panic(&m), format!("{src:?}: {m}")),
            Outcome::BigAlloc { bytes, in_new_int_array } => o.fail(Kind::ImplPanic, "loc", big_sig(false), big_detail(&src, bytes, in_new_int_array)),
            _ => o.fail(Kind::ImplVsModel, "loc", "trace: no located error", format!("{src:?}")),
        }
    }
}

/// A number as TeX source; -2^31 cannot be written as a constant.
fn num_src(n: i64) -> (String, String) {
    if n == -2147483648 {
        ("\\count9=-2147483647 \\advance\\count9 by -1 ".into(), "\\count9".into())
    } else {
        (String::new(), format!("{n} "))
    }
}

fn prog_of(parts: &[String]) -> String {
    parts.concat()
}

const SEP: &str = "~|";

impl Property for C09 {
    fn id(&self) -> &'static str {
        "C09"
    }
    fn rule(&self) -> String {
        "run: grammar-generated TeX programs over the full installed vocabulary (enumerated from texlang_stdlib::built_in_commands at run time, + \\par, \\newline), user macros, braces, boundary numbers/dimensions/indices/character codes, non-ASCII text, ^^ notation, token soup, every statement-prefix of a sample of programs, each in errorstop/scroll/nonstop/batch mode; plus undefined commands of every shape (control words/symbols with ASCII and 2/3/4-byte letters, names close to and far from primitives, empty and very long names, ASCII and non-ASCII active characters incl. combining marks, active space and end of line) in 34 contexts (bare, at end of input, after a group that defined them, after \\let to an undefined command, after \\the/\\advance/\\count/\\expandafter/\\noexpand/\\if.., in macro bodies, arguments and delimiters, as file names, ...) at line start / after multi-byte text / on later lines, in all four modes; plus a failing expansion (unmatched \\else/\\fi/\\or, \\input of a missing file, unterminated macro argument, undefined command, failing conditional, \\the of a non-variable, and \\expandafter/\\noexpand/\\the/\\input/\\ifnum at end of input) inserted after every piece of 66 statements cut at every look-ahead position of the scanners (signs, digits, decimal point, fraction digits, unit and keyword letters, =, register indices, conditional operands, \\the, \\expandafter, prefixes, file names), followed by more text and a final error or the end of input, in errorstop mode and one recovering mode in rotation (thorough: all four); plus \\newInt/\\newIntArray allocations (1-3 arrays of 0-7 elements, interleaved with single variables, in and out of groups, re-allocated names) with 16 kinds of access at indices -1, 0, len-1, len, len+1, len+7 of every array; plus multi-line / multi-file layouts (15 definition/use pairs whose offending token and running command lie on lines 1..1000 of the same file or of \\input files, both directions, so that the blocks of a rendered error have line numbers of different widths; the gutter of every rendered block is compared with the Lean model); plus extreme register states: \\count1, \\dimen0 and each component of \\skip0 (finite and fil/fill/filll) driven to -2^31, -2^31+1, 2^31-1, +-2^30, +-(2^30-1) by wrapping \\advance / \\multiply chains, then every one of ~130 arithmetic, scanning, comparison, index and code uses of that register, in all four modes; non-trivial = the run ended within the step budget (ok, error or panic). proto: every event sequence of length <= 4 plus random ones. chr/uint/ifcase: boundary values.".into()
    }
    fn builtin_corpus(&self) -> Vec<String> {
        let mut v = vec![];
        let progs: &[&str] = &[
            "\\catcode 55296=11 ",
            "\\catcode 57343=11 ",
            "\\catcode 1114111=11 ",
            "\\catcode 1114112=11 ",
            "\\the\\relax",
            "\\the a",
            "\\the\\undefined",
            "\\the\\def",
            "\\the}",
            "\\the",
            "\u{e9}\\count",
            "\u{e9}\u{e9}\\count",
            "\u{1f600} \\undefined",
            "\\\u{e9}t\u{e9}",
            "\\read 0 to \\x",
            "\\read -1 to \\x",
            "\\read 16 to \\x \\x",
            "\\openin 3=a \\read 3 to \\x \\x \\read 3 to \\y",
            "\\openin 3=open \\read 3 to \\x",
            "\\count1=-2147483647 \\advance\\count1 by -1 \\dimen0=\\count1 sp",
            "\\count1=2147483647 \\dimen0=0.99999\\count1 ",
            "\\count1=-2147483647 \\advance\\count1 by -1 \\ifcase\\count1 a\\or b\\else c\\fi",
            "\\ifcase 2147483647 a\\or b",
            "\\input loop ",
            "\\input utf ",
            "\\input err ",
            "\\def\\a{\\a}\\a",
            "\\def\\a#1{\\a{#1#1}}\\a{x}",
            "\\catcode`_=11 \\newInt_getter_provider_^^@ \\newIntArray_getter_provider_^^@",
            "\\count 32768=1 \\count -1=1 \\dimen 32768=1pt \\toks 256={}",
            "\\dimen0=16383.99999pt \\dimen0=16384pt \\skip0=1pt plus 16383.999999fil ",
            "\\endlinechar=-1 a\nb\n\\endlinechar=55296 c\nd\n\\endlinechar=1114112 e\n",
            "\\endlinechar=`\u{e9} a\nb\\undefined\n",
            "\\catcode`_=11 \\catcode 0=11 \\newInt_getter_provider_^^@=1 ",
            "\\catcode`_=11 \\catcode 0=11 \\the\\newIntArray_getter_provider_^^@ 1 ",
            "\\input x:a ",
            "\\input a./b ",
            "\\openin 1=x>a ",
            "\\newIntArray\\J 3 \\let\\K=\\J \\K 0=1 ",
            // C09-m: the largest length `\newIntArray` accepts (8 GiB in one request; refused by
            // the allocation guard) and a large array that is served (4 MB)
            "\\newIntArray\\J 2147483646 \\J 5=1 ",
            "\\newIntArray\\J 1000000 \\J 999999=5 \\the\\J 999999 ",
        ];
        for p in progs {
            for m in MODES {
                v.push(format!("run {m} {}", enc(p)));
            }
        }
        // the error cases the authors list themselves
        for c in sl::ErrorCase::all_error_cases() {
            for m in MODES {
                v.push(format!("run {m} {}", enc(c.source_code)));
                v.push(format!("run {m} {}", enc(&format!("\u{e9}\u{4e16} {} \u{e9}", c.source_code))));
            }
        }
        v
    }
    fn generate(&mut self, ctx: &Ctx, rng: &mut Rng) -> Vec<String> {
        let vocab = vocabulary();
        let mut out = vec![];
        // --- protocol: exhaustive short sequences, then random
        let evs: Vec<&str> = EVENTS.iter().map(|(k, _)| *k).collect();
        let mut seqs: Vec<Vec<&str>> = vec![vec![]];
        let max_len = if ctx.thorough { 4 } else { 3 };
        let mut frontier: Vec<Vec<&str>> = vec![vec![]];
        for _ in 0..max_len {
            let mut next = vec![];
            for s in &frontier {
                for e in &evs {
                    let mut t = s.clone();
                    t.push(*e);
                    next.push(t);
                }
            }
            seqs.extend(next.iter().cloned());
            frontier = next;
        }
        for s in &seqs {
            out.push(format!("proto e {}", s.join(" ")).trim_end().to_string());
        }
        let mut r = rng.fork();
        for _ in 0..(if ctx.thorough { 4000 } else { 600 }) {
            let n = r.range(4, 14) as usize;
            let s: Vec<&str> = (0..n).map(|_| if r.chance(3, 4) { *r.pick(&evs[..4]) } else { *r.pick(&evs) }).collect();
            out.push(format!("proto {} {}", *r.pick(MODES), s.join(" ")));
        }
        // --- kernels
        for n in [
            -1i64, 0, 1, 65, 127, 128, 255, 256, 55295, 55296, 55297, 56320, 57343, 57344, 65535, 65536, 1114110, 1114111, 1114112,
            2147483647, -2147483647, -2147483648,
        ] {
            out.push(format!("chr {n}"));
        }
        let mut r = rng.fork();
        for _ in 0..(if ctx.thorough { 600 } else { 100 }) {
            let n = match r.below(3) {
                0 => r.range(0xD7F0, 0xE010),
                1 => r.range(0x10FF00, 0x110100),
                _ => interesting_i32(&mut r) as i64,
            };
            if (2..128).contains(&n) && n != 65 && n != 127 {
                continue; // changing the category of ASCII syntax characters breaks the probe program
            }
            out.push(format!("chr {n}"));
        }
        // --- error location
        for p in ["", "a", "\n", "\u{e9}", "\u{e9}\n", "a\n\u{e9}", "\n\n\n", "a \u{1f600}\u{1f600} b\n\u{4e16}\u{754c} "] {
            out.push(format!("loc {}", enc(p)));
        }
        let alphabet = ["a", "b", " ", "\n", "\u{e9}", "\u{4e16}", "\u{1f600}", "\u{df}", "\u{a0}", "\u{2028}", "\u{feff}", "1", ".", "\n\n", "  ", "x y"];
        for _ in 0..(if ctx.thorough { 3000 } else { 400 }) {
            let n = r.below(13);
            let p: String = (0..n).map(|_| *r.pick(&alphabet)).collect();
            out.push(format!("loc {}", enc(&p)));
            // the same text inside an unfinished definition: an end-of-input error whose
            // location is compared with the Lean `traceEoi`
            out.push(format!("run e {}", enc(&format!("\\def\\a{{{p}"))));
        }
        for big_n in [16i64, 256, 32768] {
            for n in [-2147483648i64, -1, 0, 1, big_n - 1, big_n, big_n + 1, 2147483647] {
                out.push(format!("uint {big_n} {n}"));
            }
            for _ in 0..(if ctx.thorough { 200 } else { 30 }) {
                out.push(format!("uint {big_n} {}", interesting_i32(&mut r)));
            }
        }
        for n in [-2147483648i64, -2147483647, -1, 0, 1, 2, 3, 4, 5, 2147483646, 2147483647] {
            for k in [0, 1, 3] {
                out.push(format!("ifcase {n} {k}"));
            }
        }
        // --- programs
        let n_prog = if ctx.thorough { 60_000 } else { 6_500 };
        let mut r = rng.fork();
        for i in 0..n_prog {
            let mut g = Gen { rng: &mut r, vocab: &vocab, macros: vec![] };
            let len = 1 + g.rng.below(9) as usize;
            let mut parts = if i % 5 == 4 { g.soup(len + 2) } else { g.program(len) };
            if g.rng.chance(3, 5) {
                // a prelude that defines what the statements refer to, so that fewer runs stop at
                // the first undefined control sequence
                const PRE: &[&str] = &[
                    "\\def\\a{x}", "\\def\\b#1{#1}", "\\def\\c#1#2{#2#1}", "\\def\\x#1.{[#1]}", "\\def\\y{\\b}", "\\newInt\\I ",
                    "\\newIntArray\\J 3 ", "\\countdef\\X=5 ", "\\chardef\\C=65 ", "\\mathchardef\\M=7 ", "\\toksdef\\T=2 ", "\\let\\K=\\count ",
                    "\\tracingmacros=2 ", "\\globaldefs=1 ", "\\globaldefs=-1 ", "\\count1=5 ", "\\dimen1=2.5pt ", "\\skip1=1pt plus 2fil minus 3fill ",
                    "\\toks1={a\\b{c}#}", "\\catcode`\\~=13 \\def~{t}", "\\openin 1=a ", "\\openin 2=b ", "\\openin 3=utf ", "\\endlinechar=-1 ", "\\catcode`\\@=11 ",
                    "\\def\\+{p}", "\\def\\A#1#2#3#4#5#6#7#8#9{#9#1}", "\\long\\def\\\u{e9}t\u{e9}{\u{e9}}",
                ];
                let k = 2 + g.rng.below(9) as usize;
                let pre: String = (0..k).map(|_| *g.rng.pick(PRE)).collect();
                parts.insert(0, pre);
                g.macros.extend([("\\a".to_string(), 0), ("\\b".to_string(), 1), ("\\c".to_string(), 2), ("\\A".to_string(), 9)]);
            }
            let all_modes = i % 4 == 0;
            let prefixes = i % 10 == 0;
            let mode0 = *g.rng.pick(MODES);
            let modes: Vec<&str> = if all_modes { MODES.to_vec() } else { vec![mode0] };
            for m in &modes {
                out.push(format!("run {m} {}", enc_parts(&parts)));
            }
            if prefixes {
                // truncated at every statement prefix and inside the last statement
                for k in 1..parts.len() {
                    out.push(format!("run {mode0} {}", enc_parts(&parts[..k])));
                }
                let full = prog_of(&parts);
                let chars: Vec<char> = full.chars().collect();
                let step = (chars.len() / 24).max(1);
                let mut k = chars.len().saturating_sub(1);
                while k > 0 {
                    let p: String = chars[..k].iter().collect();
                    out.push(format!("run {mode0} {}", enc(&p)));
                    k = k.saturating_sub(step);
                }
            }
        }
        // --- error parts on lines and in files with line numbers of different widths
        let mut r6 = rng.fork();
        for (i, parts) in layout_programs(&mut r6, ctx.thorough).into_iter().enumerate() {
            // the recovering modes render inside the run (the hook prints the error); errorstop
            // renders the returned error
            let modes: Vec<&str> = if ctx.thorough { MODES.to_vec() } else { vec![MODES[i % 4], MODES[(i + 1) % 4]] };
            for m in modes {
                out.push(format!("run {m} {}", enc_parts(&parts)));
            }
        }
        // --- allocated arrays: every access at and around both ends of every array
        let mut r5 = rng.fork();
        for (i, parts) in array_programs(&mut r5).into_iter().enumerate() {
            let modes: Vec<&str> = if ctx.thorough { MODES.to_vec() } else { vec![MODES[i % 4]] };
            for m in modes {
                out.push(format!("run {m} {}", enc_parts(&parts)));
            }
        }
        // --- a failing expansion at every look-ahead position of the scanners, in all four modes
        let mut r4 = rng.fork();
        for (i, parts) in failing_scan_programs(&mut r4, ctx.thorough).into_iter().enumerate() {
            // quick: errorstop (where every recoverable failure is fatal too) and one of the
            // recovering modes in rotation; thorough: all four
            let modes: Vec<&str> = if ctx.thorough { MODES.to_vec() } else { vec!["e", MODES[1 + i % 3]] };
            for m in modes {
                out.push(format!("run {m} {}", enc_parts(&parts)));
            }
        }
        // --- undefined commands of every shape x context x placement, in all four modes
        let mut r3 = rng.fork();
        for parts in undefined_programs(&mut r3, ctx.thorough) {
            for m in MODES {
                out.push(format!("run {m} {}", enc_parts(&parts)));
            }
        }
        // --- extreme register states x every use, in all four modes
        let mut r2 = rng.fork();
        for parts in extreme_programs(&mut r2, if ctx.thorough { 4 } else { 1 }) {
            for m in MODES {
                out.push(format!("run {m} {}", enc_parts(&parts)));
            }
        }
        // --- every primitive once in every mode, bare / before EOF / before a brace / after \the
        for name in &vocab {
            if name == "sleep" || name.contains('\u{0}') {
                continue;
            }
            for ctxt in ["\\{}", "\\{} ", "\\{}}}", "\\{}{{", "\\the\\{}", "\\the\\{} 1 ", "\\{}\\{}", "\\{} 1 ", "\\{}=", "\\{}=-1 ", "\\{}\\relax", "\\global\\{}", "\u{e9}\\{}", "\\expandafter\\{}\\{}", "\\{} 1=\u{e9}", "\\{} a", "\\{}\\undefined ", "\\advance\\{} by 1 ", "\\let\\x=\\{} \\x", "\\def\\x{{\\{}}}\\x", "\\noexpand\\{}", "\\ifnum\\{}<1 a\\fi", "\\count\\{}=1 ", "\\{} -2147483647 "] {
                let p = ctxt.replace("{}", name).replace("{{", "{").replace("}}", "}");
                let m = *r.pick(MODES);
                out.push(format!("run {m} {}", enc(&p)));
                if !name.ends_with("mode") {
                    out.push(format!("modes {}", enc(&p)));
                }
            }
        }
        for c in sl::ErrorCase::all_error_cases() {
            out.push(format!("modes {}", enc(c.source_code)));
            out.push(format!("modes {}", enc(&format!("\\count1=x \\dimen1=1 {} trailing \\undefinedlast", c.source_code))));
        }
        for (i, parts) in failing_scan_programs(&mut rng.fork(), false).into_iter().enumerate() {
            if i % 9 == 0 {
                out.push(format!("modes {}", enc(&parts.concat())));
            }
        }
        // --- input depth against the model
        for k in [0usize, 1, 2, 50, 97, 98, 99, 100, 101, 150, 1000] {
            out.push(format!("depth {k}"));
        }
        // --- allocation against the model
        let mut ra = rng.fork();
        for _ in 0..(if ctx.thorough { 3000 } else { 500 }) {
            let mut lens: Vec<i64> = vec![-1; 4];
            let mut ops = vec![];
            for _ in 0..ra.range(2, 14) {
                let name = ra.below(3) as usize;
                if lens[name] < 0 || ra.chance(1, 6) {
                    // (re-)allocation; names are only accessed once they are allocated
                    let len = *ra.pick(&[0i64, 1, 2, 3, 3, 7]);
                    lens[name] = len;
                    ops.push(format!("n {name} {len}"));
                    continue;
                }
                let l = lens[name];
                // mostly inside (a fatal error ends the run), the ends and beyond now and then
                let i = match ra.below(8) {
                    0 => *ra.pick(&[l, l + 1, 2147483646, 2147483647]),
                    1 => *ra.pick(&[-1, -2147483647]),
                    2 => l - 1,
                    3 => 0,
                    _ => ra.range(0, (l - 1).max(0)),
                };
                if ra.chance(1, 2) {
                    ops.push(format!("w {name} {i} {}", ra.range(-9, 99)));
                } else {
                    ops.push(format!("r {name} {i}"));
                }
            }
            // finally read every element of every array (aliasing would show here)
            for (name, l) in lens.iter().enumerate() {
                for i in 0..(*l).max(0) {
                    ops.push(format!("r {name} {i}"));
                }
            }
            out.push(format!("alloc {}", ops.join(" ")));
        }
        out.push("deep 200000".into());
        out.push("deep 200000 expandafter".into());
        out.push("deep 200000 group".into());
        out.push("deep 20000 ifnum".into());
        out
    }

    fn run_case(&mut self, case: &str, drv: &mut Driver) -> CaseOutcome {
        let t0 = std::time::Instant::now();
        *WATCH.lock().unwrap() = Some((case.to_string(), t0, cpu_secs()));
        let o = self.run_case_inner(case, drv);
        *WATCH.lock().unwrap() = None;
        if self.debug && t0.elapsed().as_millis() > 50 {
            eprintln!("SLOW {} ms: {}", t0.elapsed().as_millis(), case);
        }
        o
    }

    fn extra_evidence(&self) -> Option<String> {
        use std::sync::atomic::Ordering::Relaxed;
        Some(format!(
            "\"allocation_guard\": {{\"refuse_single_requests_from_bytes\": {}, \"largest_single_request_served_to_newIntArray_bytes\": {}, \"largest_single_request_served_elsewhere_bytes\": {}, \"refused_requests_from_newIntArray\": {}, \"refused_requests_elsewhere\": {}, \"note\": \"requests below 1 MiB are not recorded; refused requests include the re-runs of the shrinker\"}}",
            BIG_REQUEST,
            MAX_SERVED.load(Relaxed),
            MAX_SERVED_OTHER.load(Relaxed),
            REFUSED_NEW_INT_ARRAY.load(Relaxed),
            REFUSED_OTHER.load(Relaxed)
        ))
    }

    fn shrink(&self, case: &str) -> Vec<String> {
        let mut out = vec![];
        if parked() >= RUN_STREAM_PARK_CAP {
            return out; // the `run` stream has stopped: no variant would be run
        }
        let (stream, rest) = case.split_once(' ').unwrap_or((case, ""));
        match stream {
            "run" => {
                let (mode, prog) = rest.split_once(' ').unwrap_or((rest, ""));
                let body = prog.strip_suffix("~.").unwrap_or(prog);
                let parts_owned = split_parts(body);
                let parts: Vec<&str> = parts_owned.iter().map(|s| s.as_str()).collect();
                if parts.len() > 1 {
                    let h = parts.len() / 2;
                    out.push(format!("run {mode} {}~.", parts[h..].join(SEP)));
                    out.push(format!("run {mode} {}~.", parts[..h].join(SEP)));
                    for i in 0..parts.len() {
                        let mut p = parts.clone();
                        p.remove(i);
                        out.push(format!("run {mode} {}~.", p.join(SEP)));
                    }
                }
                // character-level (on the decoded program, re-encoded)
                let d: Vec<char> = dec(body).chars().collect();
                if d.len() <= 160 {
                    let n = d.len();
                    let mut w = n / 2;
                    while w >= 1 {
                        let mut i = 0;
                        while i + w <= n {
                            let mut p: Vec<char> = d[..i].to_vec();
                            p.extend_from_slice(&d[i + w..]);
                            out.push(format!("run {mode} {}", enc(&p.iter().collect::<String>())));
                            i += w;
                        }
                        w /= 2;
                    }
                }
                if mode != "e" {
                    out.push(format!("run e {prog}"));
                }
            }
            "loc" => {
                let d: Vec<char> = dec(rest).chars().collect();
                for i in 0..d.len() {
                    let mut p = d.clone();
                    p.remove(i);
                    out.push(format!("loc {}", enc(&p.iter().collect::<String>())));
                }
            }
            "proto" => {
                let mut ws = rest.split_ascii_whitespace();
                let mode = ws.next().unwrap_or("e");
                let evs: Vec<&str> = ws.collect();
                for i in 0..evs.len() {
                    let mut p = evs.clone();
                    p.remove(i);
                    out.push(format!("proto {mode} {}", p.join(" ")).trim_end().to_string());
                }
            }
            _ => {}
        }
        out
    }
}

impl C09 {
    fn run_case_inner(&mut self, case: &str, drv: &mut Driver) -> CaseOutcome {
        let mut o = CaseOutcome::default();
        let (stream, rest) = case.split_once(' ').unwrap_or((case, ""));
        o.tag(format!("stream:{stream}"));
        match stream {
            "run" => {
                let (mode, prog) = rest.split_once(' ').unwrap_or((rest, ""));
                let prog = dec(prog);
                self.run_stream(mode, &prog, drv, &mut o);
            }
            "proto" => {
                let mut ws = rest.split_ascii_whitespace();
                let mode = ws.next().unwrap_or("e");
                let evs: Vec<&str> = ws.collect();
                self.proto_stream(mode, &evs, drv, &mut o);
            }
            "chr" => {
                let n: i64 = rest.trim().parse().unwrap_or(0);
                let (pre, lit) = num_src(n);
                // the category code of the (accepted or recovered) character becomes 7
                self.kernel(case, "chr", drv, &mut o, &|_, c| (format!("{pre}\\catcode {lit}=7 \\the\\catcode {c} "), "7".into()));
            }
            "uint" => {
                let v = parse_i64s(rest);
                let (big_n, n) = (v[0], v[1]);
                let (pre, lit) = num_src(n);
                self.kernel(case, "uint", drv, &mut o, &|_, u| match big_n {
                    16 => (format!("{pre}\\openin {lit}=a \\ifeof {u} closed\\else open\\fi"), "open".into()),
                    256 => (format!("{pre}\\toks {lit}={{v}}\\the\\toks {u} "), "v".into()),
                    _ => (format!("{pre}\\count {lit}=7 \\the\\count {u} "), "7".into()),
                });
            }
            "ifcase" => {
                let v = parse_i64s(rest);
                let (n, k) = (v[0], v[1]);
                let (pre, lit) = num_src(n);
                let mut src = format!("{pre}\\ifcase {lit}c0");
                for i in 1..=k {
                    src.push_str(&format!("\\or c{i}"));
                }
                src.push_str("\\else e\\fi");
                self.kernel(case, "ifcase", drv, &mut o, &|verdict, j| (src.clone(), if verdict == "some" { format!("c{j}") } else { "e".into() }));
            }
            "loc" => {
                let prefix = dec(rest);
                self.loc_stream(&prefix, drv, &mut o);
            }
            "alloc" => self.alloc_stream(case, rest, drv, &mut o),
            "depth" => {
                let k: usize = rest.trim().parse().unwrap_or(1);
                self.depth_stream(case, k, drv, &mut o);
            }
            "modes" => {
                let prog = dec(rest);
                self.modes_stream(&prog, drv, &mut o);
            }
            "deep" => {
                let mut ws = rest.split_ascii_whitespace();
                let n: usize = ws.next().and_then(|w| w.parse().ok()).unwrap_or(1000);
                let what = ws.next().unwrap_or("empty");
                o.nontrivial = true;
                o.tag(format!("deep:{what}"));
                // The same construct at depth 50 and at depth n/20 must run: only then is a death
                // by signal at depth n attributed to the depth itself (and, for `\ifnum`, to the
                // recorded finding C09-n). Everything else gets a signature of its own.
                let exe = std::env::current_exe().unwrap();
                // the stream is about the usual 8 MiB main-thread stack; where the hard limit of
                // the environment is below that, nothing can be said
                if hard_stack_limit().is_some_and(|m| m < USUAL_STACK) {
                    o.tag("deep:not run (hard stack limit below 8 MiB)");
                    return o;
                }
                let child = |depth: usize| -> Result<(), (bool, String)> {
                    let mut cmd = std::process::Command::new(&exe);
                    cmd.args(["--replay-case", &format!("deepchild {depth} {what}"), "--driver", &self.driver_path])
                        .stdout(std::process::Stdio::null())
                        .stderr(std::process::Stdio::null());
                    // the child's main thread gets the usual 8 MiB whatever `ulimit -s` says in
                    // the environment of the check (the soft limit at exec time sizes it)
                    pin_child_stack(&mut cmd);
                    let st = cmd.status();
                    match st {
                        Ok(s) if s.code() == Some(0) => Ok(()),
                        // (killed by a signal?, description)
                        Ok(s) => Err((s.code().is_none(), format!("{s:?}"))),
                        Err(e) => Err((false, format!("cannot spawn child: {e}"))),
                    }
                };
                let mid = (n / 20).max(100);
                let mut failed = false;
                for depth in [50, mid] {
                    if depth >= n {
                        continue;
                    }
                    if let Err((killed, d)) = child(depth) {
                        failed = true;
                        o.tag("deep:fails-shallow");
                        let sig = if killed { format!("stack overflow: {what} already at depth {depth}") } else { format!("deep: {what} fails at depth {depth}") };
                        o.fail(Kind::ImplPanic, "deep", sig, format!("{depth} x {what} on the default 8 MiB main-thread stack: child ended with {d}"));
                        break;
                    }
                }
                if !failed {
                    match child(n) {
                        Ok(()) => o.tag("deep:ok"),
                        Err((true, d)) => {
                            o.tag("deep:killed");
                            let sig = match what {
                                "empty" => "stack overflow in next_expanded".to_string(),
                                "ifnum" => format!("C09-n: stack overflow of nested \\ifnum only beyond depth {mid}"),
                                _ => format!("stack overflow: nested {what}"),
                            };
                            o.fail(Kind::ImplPanic, "deep", sig, format!("{n} x {what} (consecutive empty macro expansions / nested constructs) on the default 8 MiB main-thread stack: child ended with {d} (a stack overflow aborts the process); depth {mid} runs"));
                        }
                        Err((false, d)) => {
                            o.fail(Kind::ImplPanic, "deep", format!("deep: {what} fails at depth {n}"), format!("{n} x {what}: child ended with {d}"));
                        }
                    }
                }
            }
            "deepchild" => {
                let mut ws = rest.split_ascii_whitespace();
                let n: usize = ws.next().and_then(|w| w.parse().ok()).unwrap_or(1000);
                let src = match ws.next().unwrap_or("empty") {
                    "expandafter" => format!("{}\\relax\\relax done", "\\expandafter".repeat(n)),
                    "ifnum" => format!("{}1<2 a\\fi done", "\\ifnum".repeat(n)),
                    "group" => format!("{}x{} done", "{".repeat(n), "}".repeat(n)),
                    _ => format!("\\def\\a{{}}{} done", "\\a".repeat(n)),
                };
                match run_program(&src, false, u64::MAX / 2) {
                    Outcome::Ok(..) => {}
                    Outcome::Panic(m) => o.fail(Kind::ImplPanic, "deep", "deep: not ok", format!("child run panicked: {m}")),
                    Outcome::Budget | Outcome::Unbounded(_) | Outcome::BigAlloc { .. } => o.fail(Kind::ImplPanic, "deep", "deep: not ok", "child run: budget"),
                    Outcome::Err { rendered: Ok(_), .. } => {}
                    Outcome::Err { title, .. } => o.fail(Kind::ImplPanic, "deep", "deep: not ok", format!("child run: error {title} does not render")),
                }
            }
            _ => o.fail(Kind::ModelVsSpec, "case", "bad case", case.to_string()),
        }
        o
    }
}

/// The case being run and when it started: a loop that never reaches a hook of the state (so
/// that the step budget cannot cut it) is noticed by a watchdog thread.
static WATCH: std::sync::Mutex<Option<(String, std::time::Instant, f64)>> = std::sync::Mutex::new(None);

/// CPU seconds (user + system) this process has used: an endless loop burns CPU, a stall
/// (machine overloaded or suspended, blocked on the driver's pipe) does not.
fn cpu_secs() -> f64 {
    let stat = std::fs::read_to_string("/proc/self/stat").unwrap_or_default();
    let after = stat.rsplit(')').next().unwrap_or("");
    let f: Vec<&str> = after.split_whitespace().collect();
    // fields after the command name: state is index 0, utime index 11, stime index 12
    let t = |i: usize| f.get(i).and_then(|x| x.parse::<f64>().ok()).unwrap_or(0.0);
    (t(11) + t(12)) / 100.0
}

/// "Never hangs": when a case has produced no result for `limit` seconds (and, except for the
/// `deep` cases, has used the CPU for at least 80 % of them) the watchdog writes the
/// report itself (one impl-panic failure with the case as replay) and ends the process.
fn watchdog(out: Option<String>, tier: String, seed: u64) {
    let started = std::time::Instant::now();
    loop {
        std::thread::sleep(std::time::Duration::from_millis(500));
        let stuck = {
            let g = WATCH.lock().unwrap();
            match &*g {
                Some((case, t, cpu0)) => {
                    // `deep` cases wait for child processes (wall time); every other case must
                    // also have used the CPU for most of the time it has been running
                    let deep = case.starts_with("deep");
                    let limit = if deep { 240 } else { 45 };
                    if t.elapsed().as_secs() >= limit && (deep || cpu_secs() - cpu0 >= 0.8 * limit as f64) {
                        Some((case.clone(), limit))
                    } else {
                        None
                    }
                }
                None => None,
            }
        };
        if let Some((case, limit)) = stuck {
            let sig = "hang: no result (loop without progress)";
            let detail = format!("the case produced no result within {limit} s (the slowest case of a run on the unchanged tree takes 0.2 s; single allocation requests of {} MiB and more are refused by the allocation guard, so this is not the time of a large allocation): a loop that never reaches a hook of the state, so that the step budget cannot cut it off", BIG_REQUEST >> 20);
            match out {
                Some(path) => {
                    let j = format!(
                        "{{\n  \"property\": \"C09\",\n  \"tier\": {},\n  \"seed\": {seed},\n  \"evaluations\": 1,\n  \"distinct_nontrivial\": 1,\n  \"corpus_cases\": 0,\n  \"corpus_file_cases\": 0,\n  \"driver_requests\": 0,\n  \"failing_cases\": 1,\n  \"rule\": \"watchdog: the run was abandoned at the first case that hung\",\n  \"samples\": [{}],\n  \"histogram\": {{\"outcome:hang\": 1}},\n  \"failures\": [\n    {{\"kind\": \"impl-panic\", \"stream\": \"watchdog\", \"signature\": {}, \"detail\": {}, \"case\": {}}}\n  ],\n  \"wall_s\": {:.3}\n}}\n",
                        jstr(&tier),
                        jstr(&case),
                        jstr(sig),
                        jstr(&detail),
                        jstr(&case),
                        started.elapsed().as_secs_f64()
                    );
                    let _ = std::fs::write(&path, j);
                    std::process::exit(0);
                }
                None => {
                    eprintln!("replay: impl-panic stream=watchdog signature={sig}\n  {detail}");
                    std::process::exit(1);
                }
            }
        }
    }
}

extern "C" {
    fn mallopt(param: i32, value: i32) -> i32;
    fn dup2(oldfd: i32, newfd: i32) -> i32;
}

fn main() {
    // Every case builds a fresh VM whose register arrays are ~1 MiB: keep such blocks on the
    // heap (no mmap/munmap and page faults per case). glibc: M_MMAP_THRESHOLD=-3, M_TRIM_THRESHOLD=-1.
    unsafe {
        let a = mallopt(-3, 32 << 20);
        let b = mallopt(-1, 1 << 30);
        if std::env::var("C09_DEBUG").is_ok() {
            eprintln!("mallopt: {a} {b}");
        }
    }
    // Deep (but budgeted) recursion in the interpreter must not overflow the harness stack.
    let driver_path = {
        let a: Vec<String> = std::env::args().collect();
        a.iter().position(|x| x == "--driver").and_then(|i| a.get(i + 1).cloned()).unwrap_or_default()
    };
    // `\tracingmacros` prints with `println!` (not through `HasLogging`): when the report goes
    // to a file, send the interpreter's own standard output to /dev/null.
    if std::env::args().any(|a| a == "--out") {
        if let Ok(f) = std::fs::OpenOptions::new().write(true).open("/dev/null") {
            use std::os::fd::AsRawFd;
            unsafe {
                dup2(f.as_raw_fd(), 1);
            }
        }
    }
    let deep_child = std::env::args().any(|a| a.starts_with("deepchild"));
    if deep_child {
        // default main-thread stack on purpose
        INLINE.store(true, std::sync::atomic::Ordering::Relaxed);
        run(C09 { driver_path, debug: std::env::var("C09_DEBUG").is_ok(), gutter_cache: HashMap::new() });
        return;
    }
    {
        let a: Vec<String> = std::env::args().collect();
        let arg = |k: &str| a.iter().position(|x| x == k).and_then(|i| a.get(i + 1).cloned());
        let (out, tier, seed) = (arg("--out"), arg("--tier").unwrap_or_else(|| "quick".into()), arg("--seed").and_then(|s| s.parse().ok()).unwrap_or(1));
        std::thread::spawn(move || watchdog(out, tier, seed));
    }
    let h = std::thread::Builder::new()
        .stack_size(1 << 30)
        .spawn(move || run(C09 { driver_path, debug: std::env::var("C09_DEBUG").is_ok(), gutter_cache: HashMap::new() }))
        .unwrap();
    if h.join().is_err() {
        std::process::exit(101);
    }
}
