//! C03 — lexing follows TeX's scanner; every token traces to its source position.
//!
//! Case strings (all decimal integers; characters are code points):
//!   `lex <rep> <cfg> <m> <src>*m`
//!       drive the public `Lexer::next` (custom `lexer::Config`, `report_end_of_line = rep`)
//!       over `src` until `EndOfInput`, run every token (and every invalid character) through
//!       the real `Tracer::trace`; compare with S (Lean `Spec.specAll`) and with M (Lean
//!       `lexTraced`). `<cfg>` = `<eol> <dflt> <n> (<char> <cat>)*n`.
//!   `vm <m0> <text0>*m0 <k> (<kind> <x> <y> <mi> <text_i>*mi)*k`
//!       a real `VM<StdLibState>` runs the TeX source text0 "\n" cmd1 text1 "\n" cmd2 text2 …
//!       where cmd = `\catcode x=y\relax ` (kind 0) or `\endlinechar=x\relax ` (kind 1): the
//!       number ends at `\relax`, which has then been lexed under the old configuration; custom
//!       `vm::Handlers` log every token that reaches the main loop with its `vm.trace`.
//!       Compared with M driven by the same configuration schedule (`sch` request).
//!
//!   `vmc <k> (<kind> <x> <y>)*k <m> <text>*m`
//!       a real `VM<StdLibState>` runs one line of settings (`\catcode x=y\relax` /
//!       `\endlinechar=x\relax`, no blanks between them) and then the lines of `text`; the
//!       configuration is constant from line 2 on, so the tokens the VM delivers for the lines
//!       after the first are compared with the Lean SPEC (`Spec.specAll`, final category table,
//!       `\endlinechar` v = character v for 0 <= v < 128, none otherwise) evaluated on `text`
//!       alone: `Kind::ImplVsSpec` (the glue in streams.rs / codes.rs / endlinechar.rs).
//!
//! Items are encoded exactly as in `lean/Driver/C03.lean`.

use std::collections::HashMap;
use texlang::token::{lexer, trace, CommandRef, CsNameInterner, Token, Value};
use texlang::traits::*;
use texlang::types::CatCode;
use texlang::prelude as txl;
use texlang::vm;
use vh::*;

// ------------------------------------------------------------------------------------------
// configuration
// ------------------------------------------------------------------------------------------

#[derive(Clone, Debug)]
struct Table {
    eol: Option<char>,
    dflt: u8,
    pairs: Vec<(char, u8)>,
}

fn cat(u: u8) -> CatCode {
    CatCode::try_from(u).expect("category code 0..=15")
}

impl lexer::Config for Table {
    fn cat_code(&self, c: char) -> CatCode {
        for (d, k) in &self.pairs {
            if *d == c {
                return cat(*k);
            }
        }
        cat(self.dflt)
    }
    fn end_line_char(&self) -> Option<char> {
        self.eol
    }
}

impl Table {
    fn enc(&self, out: &mut Vec<i64>) {
        out.push(self.eol.map(|c| c as i64).unwrap_or(-1));
        out.push(self.dflt as i64);
        out.push(self.pairs.len() as i64);
        for (c, k) in &self.pairs {
            out.push(*c as i64);
            out.push(*k as i64);
        }
    }
    fn dec(v: &mut std::slice::Iter<i64>) -> Table {
        let eol = *v.next().unwrap();
        let dflt = *v.next().unwrap() as u8;
        let n = *v.next().unwrap();
        let mut pairs = vec![];
        for _ in 0..n {
            let c = char::from_u32(*v.next().unwrap() as u32).unwrap();
            let k = *v.next().unwrap() as u8;
            pairs.push((c, k));
        }
        Table { eol: if eol < 0 { None } else { char::from_u32(eol as u32) }, dflt, pairs }
    }
}

fn dec_text(v: &mut std::slice::Iter<i64>) -> String {
    let n = *v.next().unwrap();
    (0..n).map(|_| char::from_u32(*v.next().unwrap() as u32).unwrap()).collect()
}
fn enc_text(s: &str, out: &mut Vec<i64>) {
    out.push(s.chars().count() as i64);
    out.extend(s.chars().map(|c| c as i64));
}

// ------------------------------------------------------------------------------------------
// item encoding (same as the Lean driver)
// ------------------------------------------------------------------------------------------

fn enc_pos(t: &trace::SourceCodeTrace, out: &mut Vec<i64>) {
    out.push(t.line_number as i64);
    out.push(t.index as i64);
    enc_text(&t.line_content, out);
}

fn enc_token(tok: Token, tr: &trace::SourceCodeTrace, interner: &CsNameInterner, out: &mut Vec<i64>) {
    match tok.value() {
        Value::CommandRef(CommandRef::ControlSequence(name)) => {
            out.push(2);
            enc_text(interner.resolve(name).unwrap(), out);
        }
        Value::CommandRef(CommandRef::ActiveCharacter(c)) => {
            out.push(1);
            out.push(c as i64);
        }
        v => {
            let (c, k) = v.char_and_cat_code().unwrap();
            out.extend([0, k as u8 as i64, c as i64]);
        }
    }
    enc_pos(tr, out);
}

/// Split an encoded item list into items (for diffing and tags).
fn split_items(v: &[i64]) -> Vec<&[i64]> {
    let mut out = vec![];
    let mut i = 0;
    while i < v.len() {
        let start = i;
        let pos = |j: usize| -> usize { j + 3 + v[j + 2] as usize }; // line col len text
        i = match v[i] {
            0 => pos(i + 3),
            1 => pos(i + 2),
            2 => pos(i + 2 + v[i + 1] as usize),
            3 => pos(i + 2),
            _ => i + 1,
        };
        out.push(&v[start..i.min(v.len())]);
    }
    out
}

fn item_kind(it: &[i64]) -> String {
    match it[0] {
        0 => format!("chr/{}", it[1]),
        1 => "active".into(),
        2 => match it[1] {
            0 => "cs/empty".into(),
            1 => "cs/single".into(),
            _ => {
                if it[1] == 3 && it[2..5] == [112, 97, 114] {
                    "cs/par".into()
                } else {
                    "cs/multi".into()
                }
            }
        },
        3 => "invalid".into(),
        4 => "end-of-line".into(),
        5 => "end-of-input".into(),
        6 => "panic".into(),
        7 => "fuel".into(),
        8 => "no-end-of-input".into(),
        _ => "?".into(),
    }
}

/// (value part, position part) of an item.
fn item_parts(it: &[i64]) -> (&[i64], &[i64]) {
    let n = match it[0] {
        0 => 3,
        1 | 3 => 2,
        2 => 2 + it[1] as usize,
        _ => it.len(),
    };
    it.split_at(n.min(it.len()))
}

/// Identity of a difference: the kinds at the first differing item, or which part differs.
fn diff_sig(want: &[i64], got: &[i64]) -> String {
    let (w, g) = (split_items(want), split_items(got));
    for i in 0..w.len().max(g.len()) {
        match (w.get(i), g.get(i)) {
            (Some(a), Some(b)) if a == b => continue,
            (Some(a), Some(b)) => {
                let (ka, kb) = (item_kind(a), item_kind(b));
                if ka != kb {
                    return format!("want {ka} got {kb}");
                }
                let ((va, pa), (vb, pb)) = (item_parts(a), item_parts(b));
                if va != vb {
                    return format!("{ka}: value differs");
                }
                if pa[..2] != pb[..2] {
                    return format!("{ka}: line/column differs");
                }
                return format!("{ka}: line text differs");
            }
            (Some(a), None) => return format!("want {} got nothing", item_kind(a)),
            (None, Some(b)) => return format!("want nothing got {}", item_kind(b)),
            (None, None) => unreachable!(),
        }
    }
    "equal".into()
}

// ------------------------------------------------------------------------------------------
// I: the real lexer and tracer through the public API
// ------------------------------------------------------------------------------------------

fn real_lex(src: &str, cfg: &Table, rep: bool) -> Vec<i64> {
    let mut tracer: trace::Tracer = Default::default();
    let mut interner: CsNameInterner = Default::default();
    // another source before and after, so that the checkpoint lookup has something to get wrong
    let _ = tracer.register_source_code(None, trace::Origin::Terminal, "first\nsource\n");
    let range = tracer.register_source_code(None, trace::Origin::File("c03.tex".into()), src);
    let _ = tracer.register_source_code(None, trace::Origin::Terminal, "third");
    let mut lx = lexer::Lexer::new(src.to_string(), range);
    let mut out = vec![];
    let cap = 4 * src.len() + 16;
    for _ in 0..cap {
        match lx.next(cfg, &mut interner, rep) {
            lexer::Result::Token(tok) => {
                let tr = tracer.trace(tok, &interner);
                enc_token(tok, &tr, &interner, &mut out);
            }
            lexer::Result::InvalidCharacter(c, key) => {
                // as lexer::InvalidCharacterError::new does
                let tr = tracer.trace(Token::new_letter(c, key), &interner);
                out.extend([3, c as i64]);
                enc_pos(&tr, &mut out);
            }
            lexer::Result::EndOfLine => out.push(4),
            lexer::Result::EndOfInput => {
                out.push(5);
                return out;
            }
        }
    }
    out.push(8);
    out
}

// ------------------------------------------------------------------------------------------
// I: a real VM
// ------------------------------------------------------------------------------------------

thread_local! {
    static VM_LOG: std::cell::RefCell<Vec<i64>> = const { std::cell::RefCell::new(Vec::new()) };
}

struct LogHandlers;
impl vm::Handlers<texlang_stdlib::StdLibState> for LogHandlers {
    fn character_handler(
        input: &mut vm::ExecutionInput<texlang_stdlib::StdLibState>,
        token: Token,
        _: char,
    ) -> txl::Result<()> {
        log_token(input.vm(), token);
        Ok(())
    }
    fn undefined_command_handler(
        input: &mut vm::ExecutionInput<texlang_stdlib::StdLibState>,
        token: Token,
    ) -> txl::Result<()> {
        log_token(input.vm(), token);
        Ok(())
    }
    fn unexpanded_expansion_command(
        input: &mut vm::ExecutionInput<texlang_stdlib::StdLibState>,
        token: Token,
    ) -> txl::Result<()> {
        log_token(input.vm(), token);
        Ok(())
    }
}

fn log_token(vm: &vm::VM<texlang_stdlib::StdLibState>, token: Token) {
    let tr = vm.trace(token);
    VM_LOG.with(|l| enc_token(token, &tr, vm.cs_name_interner(), &mut l.borrow_mut()));
}

#[derive(Clone, Debug)]
struct Cmd {
    /// 0 `\catcode x=y\relax`, 1 `\endlinechar=x\relax`, 2 / 3 the same hidden in a macro
    /// (`\def\mA{…}` in a preamble line, `\mA` in place)
    kind: i64,
    x: i64,
    y: i64,
    /// a blank between the control word and the text that follows
    sep: bool,
    text: String,
}

#[derive(Clone, Debug)]
struct VmCase {
    text0: String,
    cmds: Vec<Cmd>,
}

/// A control sequence whose delivery changes the configuration (for the `sps` request).
struct TriggerAt {
    off: usize,
    name: String,
}

impl VmCase {
    /// `vm` (old format, always a blank after the command) and `vmj`.
    fn dec(rest: &str, with_sep: bool) -> VmCase {
        let v = parse_i64s(rest);
        let mut it = v.iter();
        let text0 = dec_text(&mut it);
        let k = *it.next().unwrap();
        let mut cmds = vec![];
        for _ in 0..k {
            let kind = *it.next().unwrap();
            let x = *it.next().unwrap();
            let y = *it.next().unwrap();
            let sep = if with_sep { *it.next().unwrap() != 0 } else { true };
            cmds.push(Cmd { kind, x, y, sep, text: dec_text(&mut it) });
        }
        VmCase { text0, cmds }
    }
    fn enc(&self) -> String {
        let mut v = vec![];
        enc_text(&self.text0, &mut v);
        v.push(self.cmds.len() as i64);
        for c in &self.cmds {
            v.extend([c.kind, c.x, c.y, c.sep as i64]);
            enc_text(&c.text, &mut v);
        }
        format!("vmj {}", join(&v))
    }
    fn cmd_text(kind: i64, x: i64, y: i64) -> String {
        if kind % 2 == 0 {
            format!("\\catcode {x}={y}\\relax")
        } else {
            format!("\\endlinechar={x}\\relax")
        }
    }
    fn macro_name(i: usize) -> String {
        format!("m{}", (b'A' + i as u8) as char)
    }
    /// The source text, the spans (character offsets) of what the VM executes instead of
    /// logging, and for each command the control sequence whose delivery switches the
    /// configuration.
    fn script(&self) -> (String, Vec<(usize, usize)>, Vec<TriggerAt>) {
        let mut s = String::new();
        let mut spans = vec![];
        let mut triggers = vec![];
        for (i, c) in self.cmds.iter().enumerate() {
            if c.kind >= 2 {
                let a = s.chars().count();
                s.push_str(&format!("\\def\\{}{{{}}}", Self::macro_name(i), Self::cmd_text(c.kind, c.x, c.y)));
                s.push('\n');
                spans.push((a, s.chars().count()));
            }
        }
        s.push_str(&self.text0);
        for (i, c) in self.cmds.iter().enumerate() {
            s.push('\n');
            let a = s.chars().count();
            if c.kind >= 2 {
                let name = Self::macro_name(i);
                s.push('\\');
                s.push_str(&name);
                triggers.push(TriggerAt { off: a, name });
            } else {
                s.push_str(&Self::cmd_text(c.kind, c.x, c.y));
                // whatever control sequence starts at the `\relax` ends the number (`\relaxZ` too)
                triggers.push(TriggerAt { off: s.chars().count() - 6, name: String::new() });
            }
            spans.push((a, s.chars().count()));
            if c.sep {
                s.push(' ');
            }
            s.push_str(&c.text);
        }
        (s, spans, triggers)
    }
}

/// Characters at and above U+0100 whose low byte is an ASCII character with a special default
/// category (2-, 3- and 4-byte encodings).
fn wide_twins() -> Vec<char> {
    let mut v = vec![];
    for b in [0x5Cu32, 0x7B, 0x7D, 0x24, 0x26, 0x23, 0x5E, 0x5F, 0x7E, 0x25, 0x20, 0x0D, 0x00, 0x7F, 0x41, 0x61, 0x5A, 0x6D] {
        for base in [0x100u32, 0x200, 0x2000, 0x10000] {
            v.push(char::from_u32(base + b).unwrap());
        }
    }
    v
}

/// Run the script in a real VM: the logged items, then `3 c pos` if the run ended with an
/// invalid-character error, `9` for any other error.
fn real_vm(src: &str) -> (Vec<(char, u8)>, Option<char>, Vec<i64>) {
    let mut vm = vm::VM::<texlang_stdlib::StdLibState>::new();
    // the configuration the VM really starts with
    let table: Vec<(char, u8)> =
        (0u32..256).map(|u| char::from_u32(u).unwrap()).map(|c| (c, vm.state.cat_code(c) as u8)).collect();
    let eol = vm.state.end_line_char();
    vm.push_source("c03.tex", src).unwrap();
    VM_LOG.with(|l| l.borrow_mut().clear());
    let r = vm.run::<LogHandlers>();
    let mut out = VM_LOG.with(|l| std::mem::take(&mut *l.borrow_mut()));
    match r {
        Ok(()) => out.push(5),
        Err(e) => {
            let title = e.error.title();
            if title.starts_with("input contains a character") {
                // lexer::InvalidCharacterError: its trace is the trace of the character
                match e.error.source_code_trace_override() {
                    Some(tr) => {
                        let c = tr.value.chars().next().unwrap_or('?');
                        out.extend([3, c as i64]);
                        enc_pos(tr, &mut out);
                    }
                    None => out.push(9),
                }
            } else {
                out.push(9);
            }
        }
    }
    (table, eol, out)
}

#[derive(Clone, Debug)]
struct VmcCase {
    cmds: Vec<(i64, i64, i64)>,
    text: String,
}

impl VmcCase {
    fn dec(rest: &str) -> VmcCase {
        let v = parse_i64s(rest);
        let mut it = v.iter();
        let k = *it.next().unwrap();
        let mut cmds = vec![];
        for _ in 0..k {
            let kind = *it.next().unwrap();
            let x = *it.next().unwrap();
            let y = *it.next().unwrap();
            cmds.push((kind, x, y));
        }
        VmcCase { cmds, text: dec_text(&mut it) }
    }
    fn enc(&self) -> String {
        let mut v = vec![self.cmds.len() as i64];
        for (kind, x, y) in &self.cmds {
            v.extend([*kind, *x, *y]);
        }
        enc_text(&self.text, &mut v);
        format!("vmc {}", join(&v))
    }
    fn script(&self) -> String {
        let mut s = String::new();
        for (kind, x, y) in &self.cmds {
            s.push_str(&VmCase::cmd_text(*kind, *x, *y));
        }
        s.push('\n');
        s.push_str(&self.text);
        s
    }
}

/// The items of lines >= 2, renumbered from 1, up to and including the first invalid
/// character; `None` when the run did not get past line 1 in a way the comparison can use
/// (invalid character in line 1, or an error that is not the lexer's).
fn vmc_suffix(items: &[i64]) -> Option<Vec<i64>> {
    let mut out = vec![];
    for it in split_items(items) {
        match it[0] {
            0..=3 => {
                let (val, pos) = item_parts(it);
                if pos[0] < 2 {
                    if it[0] == 3 {
                        return None;
                    }
                    continue;
                }
                out.extend_from_slice(val);
                out.push(pos[0] - 1);
                out.extend_from_slice(&pos[1..]);
                if it[0] == 3 {
                    return Some(out);
                }
            }
            9 => return None,
            _ => out.extend_from_slice(it),
        }
    }
    Some(out)
}

/// The specification's items up to and including the first invalid character (a fatal error
/// for the VM).
fn upto_invalid(items: &[i64]) -> Vec<i64> {
    let mut out = vec![];
    for it in split_items(items) {
        out.extend_from_slice(it);
        if it[0] == 3 {
            break;
        }
    }
    out
}

const VMC_EOL: &[i64] = &[-1, 0, 1, 13, 127, 128, 97, 94, 32, 37, 126, 255, 256, -2, 65];
const VMC_CATS: &[i64] = &[0, 5, 7, 9, 10, 11, 12, 13, 14, 15, 3, 4, 6, 8];

fn gen_vmc(r: &mut Rng) -> VmcCase {
    let k = 1 + r.below(4) as usize;
    let mut cmds = vec![];
    for i in 0..k {
        let last = i + 1 == k;
        if r.chance(2, 5) {
            cmds.push((1, *r.pick(VMC_EOL), 0));
        } else {
            // characters the commands themselves (and the end of line 1) do not need;
            // space, escape, letters, digits and CR only in the last command
            let mut chars: Vec<i64> = vec![0, 127, 1, 94, 126, 37, 77, 90, 233, 9, 63, 117, 66, 128];
            let twins = wide_twins();
            for _ in 0..8 {
                chars.push(*r.pick(&twins) as i64);
            }
            if last {
                chars.extend([32, 92, 97, 53, 13, 65]);
            }
            cmds.push((0, *r.pick(&chars), *r.pick(VMC_CATS)));
        }
    }
    const CH: &[char] = &[
        'A', 'B', 'C', 'A', ' ', ' ', '\\', '^', '^', '\r', '\0', '\x7f', '\x01', 'é', 'a', '5', '%', '~', 'M', 'Z', 'u',
        '?', '@', '\t', '\u{80}',
    ];
    let n_lines = 2 + r.below(4) as usize;
    let twins = wide_twins();
    let mut text = String::new();
    for i in 0..n_lines {
        let n = r.below(7) as usize;
        for _ in 0..n {
            match r.below(10) {
                0 | 1 => text.push(*r.pick(&twins)),
                2 => {
                    text.push_str("\\a");
                    text.push(*r.pick(&twins));
                }
                _ => text.push(*r.pick(CH)),
            }
        }
        if r.chance(1, 4) {
            text.push(*r.pick(&twins));
        }
        if i + 1 < n_lines || r.chance(1, 2) {
            text.push('\n');
        }
    }
    VmcCase { cmds, text }
}

// ------------------------------------------------------------------------------------------
// generators
// ------------------------------------------------------------------------------------------

const ALPHA: &[char] =
    &['\\', '{', '^', ' ', '\n', '\r', '\0', '\x7f', 'é', 'a', '5', '%', '~', 'M'];

const BASE: &[(char, u8)] = &[
    ('\\', 0),
    ('{', 1),
    ('}', 2),
    ('^', 7),
    (' ', 10),
    ('\n', 5),
    ('\r', 5),
    ('\0', 9),
    ('\x7f', 15),
    ('é', 12),
    ('a', 11),
    ('5', 12),
    ('%', 14),
    ('~', 13),
    ('M', 11),
];

/// The family of category tables of the exhaustive sweep: plain-like, with another default
/// category (what reduced characters get), and single changes of the characters that matter.
fn table_family() -> Vec<(u8, Vec<(char, u8)>)> {
    let mut fam = vec![];
    for d in [12u8, 11, 7, 0, 5, 10] {
        fam.push((d, BASE.to_vec()));
    }
    let changes: &[(char, u8)] = &[
        ('^', 11),
        ('^', 12),
        ('^', 0),
        ('^', 10),
        ('^', 5),
        ('^', 9),
        ('^', 14),
        ('^', 15),
        (' ', 12),
        (' ', 11),
        (' ', 5),
        (' ', 7),
        (' ', 0),
        ('\r', 10),
        ('\r', 12),
        ('\r', 11),
        ('\r', 9),
        ('\r', 7),
        ('\r', 0),
        ('\r', 14),
        ('\r', 15),
        ('a', 7),
        ('a', 0),
        ('a', 10),
        ('a', 5),
        ('a', 14),
        ('5', 7),
        ('5', 11),
        ('M', 7),
        ('M', 5),
        ('é', 11),
        ('é', 7),
        ('é', 0),
        ('é', 5),
        ('\x7f', 7),
        ('\0', 7),
        ('\\', 12),
        ('%', 0),
    ];
    for (c, k) in changes {
        let mut t = BASE.to_vec();
        for p in t.iter_mut() {
            if p.0 == *c {
                p.1 = *k;
            }
        }
        fam.push((12, t));
    }
    fam
}

const EOLS: &[Option<char>] = &[None, Some('\r'), Some('a'), Some('^'), Some(' ')];

fn lex_case(rep: bool, t: &Table, src: &str) -> String {
    let mut v = vec![rep as i64];
    t.enc(&mut v);
    enc_text(src, &mut v);
    format!("lex {}", join(&v))
}

fn all_strings(len: usize) -> Vec<String> {
    let mut out = vec![String::new()];
    for _ in 0..len {
        let mut next = Vec::with_capacity(out.len() * ALPHA.len());
        for s in &out {
            for c in ALPHA {
                let mut s2 = s.clone();
                s2.push(*c);
                next.push(s2);
            }
        }
        out = next;
    }
    out
}

const RAND_CHARS: &[char] = &[
    '\\', '{', '}', '^', ' ', '\n', '\r', '\0', '\x7f', 'é', 'a', '5', '%', '~', 'M', 'f', '0', 'Z', 'u', '@', '\t',
    '\u{1e}', '^', '^', ' ', '\n', '\\', 'a', 'b', '€', '\u{10348}', '\u{80}', '\u{ff}', '?', '!',
];

fn random_table(r: &mut Rng, src: &str) -> Table {
    let mut pairs: Vec<(char, u8)> = vec![];
    let style = r.below(4);
    let mut seen: Vec<char> = vec![];
    for c in src.chars().chain(RAND_CHARS.iter().copied()) {
        if seen.contains(&c) {
            continue;
        }
        seen.push(c);
        let k = match style {
            0 => BASE.iter().find(|p| p.0 == c).map(|p| p.1).unwrap_or(12),
            1 => {
                if r.chance(1, 4) {
                    r.below(16) as u8
                } else {
                    BASE.iter().find(|p| p.0 == c).map(|p| p.1).unwrap_or(12)
                }
            }
            2 => *r.pick(&[0u8, 5, 7, 7, 9, 10, 11, 11, 12, 14, 15, 13, 1, 6]),
            _ => r.below(16) as u8,
        };
        pairs.push((c, k));
    }
    let eol = match r.below(8) {
        0 => None,
        1 | 2 => Some('\r'),
        3 => Some('a'),
        4 => Some('^'),
        5 => Some(' '),
        _ => Some(char::from_u32(r.below(128) as u32).unwrap()),
    };
    let dflt = *r.pick(&[12u8, 12, 11, 7, 0, 10, 5, 9, 14, 15, 13]);
    Table { eol, dflt, pairs }
}

fn random_text(r: &mut Rng, max: usize) -> String {
    let n = r.below(max as u64 + 1) as usize;
    let mut s = String::new();
    while s.chars().count() < n {
        match r.below(12) {
            0 => {
                // an expanded code
                let c = *r.pick(&['^', '^', '^', 'a', 'M', ' ']);
                s.push(c);
                s.push(c);
                match r.below(4) {
                    0 => {
                        s.push(*r.pick(&['5', 'a', 'f', '0', '7', 'e']));
                        s.push(*r.pick(&['5', 'a', 'f', '0', 'A', 'g', ' ', '\n']));
                    }
                    1 => s.push(*r.pick(&['é', '€', '\u{80}', '\u{7f}', '\u{ff}'])),
                    _ => s.push(*r.pick(RAND_CHARS)),
                }
            }
            1 => s.push_str(*r.pick(&["  ", " \n", "\n\n", "   \n", "\r\n", "% x\n", "\\a", "\\aM ", "\\", "\\^^M", "\\a^^5a"])),
            _ => s.push(*r.pick(RAND_CHARS)),
        }
    }
    s
}

// ------------------------------------------------------------------------------------------
// the property
// ------------------------------------------------------------------------------------------

struct C03 {
    legacy_hits: HashMap<String, u64>,
}

fn sched_request(cmd: &str, rep: bool, sched: &[(usize, Table)], src: &str) -> String {
    let mut v = vec![rep as i64, sched.len() as i64];
    for (k, t) in sched {
        v.push(*k as i64);
        t.enc(&mut v);
    }
    enc_text(src, &mut v);
    format!("{cmd} {}", join(&v))
}

impl C03 {
    /// Name a difference between I and the expected items: exactly the documented pre-fix
    /// behaviour of C03-a / C03-b (computed by the Lean diagnostic variants), or generic.
    fn classify(&mut self, drv: &mut Driver, rep: bool, sched: &[(usize, Table)], src: &str, want: &[i64], got: &[i64]) -> String {
        let reply = drv.ask(&sched_request("leg", rep, sched, src));
        let parts: Vec<Vec<i64>> = reply.split('|').map(|p| parse_i64s(p.trim())).collect();
        if parts.len() == 3 {
            let names = [
                "pre-fix C03-a: ^^ followed by two lower-case hex digits is not read as one character code",
                "pre-fix C03-b: ^^ followed by a non-ASCII character swallows the two superscript characters",
                "pre-fix C03-a and C03-b together",
            ];
            for (p, n) in parts.iter().zip(names) {
                if p.as_slice() == got {
                    *self.legacy_hits.entry(n[..13].to_string()).or_insert(0) += 1;
                    return n.to_string();
                }
            }
        }
        format!("lex differs: {}", diff_sig(want, got))
    }
}

fn tags_of(out: &mut CaseOutcome, src: &str, cfg_eol: Option<char>, items: &[i64]) {
    let mut tags: Vec<String> = vec![];
    for it in split_items(items) {
        let k = item_kind(it);
        tags.push(format!("item:{k}"));
        // a character token whose character is not the source character at its position:
        // produced by an expanded code (or the end-line character)
        if it[0] == 0 || it[0] == 1 || it[0] == 3 {
            let (val, pos) = item_parts(it);
            let c = *val.last().unwrap();
            let col = pos[1] as usize;
            let text = &pos[3..];
            if col >= text.len() || (text[col] != c && !(it[0] == 0 && it[1] == 10)) {
                let trimmed_len = {
                    let mut n = text.len();
                    while n > 0 && text[n - 1] == 32 {
                        n -= 1;
                    }
                    n
                };
                if col == trimmed_len && Some(c) == cfg_eol.map(|e| e as i64) {
                    tags.push("from:end-line-char".into());
                } else if col >= 3 && col < text.len() && text[col - 3] == text[col - 2] && hexish(text[col - 1]) && hexish(text[col]) {
                    tags.push("from:^^xy".into());
                } else {
                    tags.push("from:^^c".into());
                }
            }
        }
    }
    if !src.is_empty() && !src.ends_with('\n') {
        tags.push("src:no-final-newline".into());
    }
    if src.contains(" \n") || src.ends_with(' ') {
        tags.push("src:trailing-blanks".into());
    }
    if !src.is_ascii() {
        tags.push("src:non-ascii".into());
    }
    tags.push(match cfg_eol {
        None => "endlinechar:none".into(),
        Some('\r') => "endlinechar:CR".into(),
        Some(c) if c.is_ascii_alphabetic() => "endlinechar:letter".into(),
        Some('^') => "endlinechar:^".into(),
        Some(' ') => "endlinechar:space".into(),
        Some(_) => "endlinechar:other-ascii".into(),
    });
    tags.sort();
    tags.dedup();
    for t in tags {
        out.tag(t);
    }
}

fn hexish(c: i64) -> bool {
    (48..=57).contains(&c) || (97..=102).contains(&c)
}

impl Property for C03 {
    fn id(&self) -> &'static str {
        "C03"
    }
    fn rule(&self) -> String {
        "lex: every string over the 14-character alphabet {\\ { ^ space LF CR NUL DEL é a 5 % ~ M} up to length 3 (quick) / 4 (thorough: every table for the strings with a doubled ^ a 5 M é CR or blank, the 6 plain tables for all; plus length 5 under the plain table with endlinechar CR/none) \
         x 44 category tables (plain with 6 default categories + 38 single changes of ^, space, CR, a, 5, M, é, DEL, NUL, \\, %) x endlinechar in {none, CR, a, ^, space}, report_end_of_line on (off for every 4th); \
         runs of 255/256/257/300 blanks, newlines, letters, lines, ^^M, é, control words, comment lines in three contexts; then random texts up to 48 characters (expanded codes, hex pairs, non-ASCII, blank lines, trailing blanks, no final newline) with random tables (plain / 25% changed / all random) and random endlinechar; \
         vm: real VM<StdLibState> running text with \\catcode and \\endlinechar changes mid-file, directly (…\\relax) or hidden in macros, with or without a blank before the following text which mostly starts with the recategorised character (10 categories x 8 characters x direct/macro systematically), compared with the Lean spec specSched under the per-call configuration (impl-vs-spec); wide characters U+0100/0200/2000/10000+b for 18 special ASCII bytes b in text, after and inside names, at line ends, and as \\catcode targets; \
         vmc: one line of \\catcode/\\endlinechar settings (endlinechar in {-2,-1,0,1,13,32,37,65,94,97,126,127,128,255,256} x every category for that character, NUL/DEL/^^A/... with 14 categories) then 2-5 plain lines, the VM's tokens of the lines after the first compared with the Lean spec under the final configuration. \
         Non-trivial = the source has at least 2 characters; distinct = distinct case string."
            .into()
    }
    fn builtin_corpus(&self) -> Vec<String> {
        let plain = |eol| Table { eol, dflt: 12, pairs: BASE.to_vec() };
        let mut v = vec![];
        for s in [
            "^^5a",       // C03-a
            "^^é",        // C03-b
            "\\a^^5a",    // hex pair after a name
            "\\^^5a",     // hex pair as a one-character name
            "\\a^^éb",    // non-ASCII inside a name
            "^^",         // with endlinechar CR: ^^M -> M
            "^^M",        // a reduced end of line
            "a ^^M b\nc", // reduced end of line drops the rest of the line
            "^^^5e5a",    // chained reductions
            "a  \n\n  b   ",
            "",
            "\n",
            "   ",
            "é€𐍈 \\é€\n^^é",
            "\\",
            "\\\n",
            "% c\n\n",
            "a\x7fb",
            "\\a  b\\  c\\~ d",
            // boundaries of the ^^c arithmetic (63/64) and of the hex-digit test
            "^^?^^@^^>^^A",
            "^^/a^^0a^^9a^^:a",
            "^^`a^^aa^^fa^^ga",
            "^^5/^^50^^59^^5:",
            "^^5`^^5a^^5f^^5g",
            "^^Aa^^5A^^FF^^ff^^7f^^80",
            "\\^^?^^@ \\a^^0a^^:a",
        ] {
            for eol in [Some('\r'), None, Some('a'), Some('^')] {
                v.push(lex_case(true, &plain(eol), s));
            }
        }
        // glue: \catcode0=11 \endlinechar=0 A / B / C (NUL as a letter is appended to every line)
        v.push(VmcCase { cmds: vec![(0, 0, 11), (1, 0, 0)], text: "A\nB\nC".into() }.enc());
        v.push(VmcCase { cmds: vec![(1, 127, 0), (0, 127, 11)], text: "A\nB\nC\n".into() }.enc());
        v.push(VmcCase { cmds: vec![(1, 128, 0)], text: "A\nB".into() }.enc());
        v.push(VmcCase { cmds: vec![(1, 1, 0), (0, 1, 13)], text: "A\nB".into() }.enc());
        // the lexer.rs module documentation example, through a VM
        v.push(
            VmCase {
                text0: "A".into(),
                cmds: vec![
                    Cmd { kind: 1, x: 'X' as i64, y: 0, sep: true, text: "".into() },
                    Cmd { kind: 0, x: 94, y: 12, sep: true, text: "B^^M\nC".into() },
                ],
            }
            .enc(),
        );
        v
    }
    fn generate(&mut self, ctx: &Ctx, rng: &mut Rng) -> Vec<String> {
        let mut v = vec![];
        let fam = table_family();
        let max_len = if ctx.thorough { 4 } else { 3 };
        let mut count = 0u64;
        for len in 1..=max_len {
            for s in all_strings(len) {
                for (ti, (dflt, pairs)) in fam.iter().enumerate() {
                    // length 4 with all tables is ~8.4M cases: keep every table for the strings
                    // that contain a superscript-ish or blank or line-end character pair
                    if len == 4 && ti >= 6 && !(s.contains("^^") || s.contains("aa") || s.contains("  ") || s.contains("\r\r") || s.contains("55") || s.contains("MM") || s.contains("éé")) {
                        continue;
                    }
                    for eol in EOLS {
                        count += 1;
                        let t = Table { eol: *eol, dflt: *dflt, pairs: pairs.clone() };
                        v.push(lex_case(count % 4 != 0, &t, &s));
                    }
                }
            }
        }
        if ctx.thorough {
            // length 5 under the plain table, end-line character CR or none
            for s in all_strings(5) {
                for eol in [Some('\r'), None] {
                    count += 1;
                    let t = Table { eol, dflt: 12, pairs: BASE.to_vec() };
                    v.push(lex_case(count % 4 != 0, &t, &s));
                }
            }
        }
        // sizes: runs of 255 / 256 / 257 / 300 blanks, newlines, characters, expanded codes, wide
        // characters (counters and casts that only wrap beyond a byte)
        for k in [255usize, 256, 257, 300] {
            for unit in [" ", "\n", "a", "a\n", " \n", "^^M", "é", "\\a ", "% \n"] {
                for (pre, post) in [("x", "y\nz"), ("", " \n w"), ("\\b", "")] {
                    for eol in [Some('\r'), None] {
                        count += 1;
                        let t = Table { eol, dflt: 12, pairs: BASE.to_vec() };
                        v.push(lex_case(count % 4 != 0, &t, &format!("{pre}{}{post}", unit.repeat(k))));
                    }
                }
            }
        }
        // random
        let n_rand = if ctx.thorough { 400_000 } else { 40_000 };
        let mut r = rng.fork();
        for _ in 0..n_rand {
            let max = *r.pick(&[6usize, 12, 24, 48]);
            let s = random_text(&mut r, max);
            let t = random_table(&mut r, &s);
            v.push(lex_case(r.chance(3, 4), &t, &s));
        }
        // vm
        // vmc: settings on line 1, constant configuration afterwards (compared with S).
        // Every boundary \endlinechar with every category for that character, fixed text.
        for &e in VMC_EOL {
            v.push(VmcCase { cmds: vec![(1, e, 0)], text: "A\nB \n\nC".into() }.enc());
            if (0..128).contains(&e) && ![32, 92, 97, 13].contains(&e) || e == 128 {
                for &c in VMC_CATS {
                    v.push(VmcCase { cmds: vec![(0, e, c), (1, e, 0)], text: "A\nB\nC".into() }.enc());
                    v.push(VmcCase { cmds: vec![(1, e, 0), (0, e, c)], text: "A \n\nB^^@^^?\nC".into() }.enc());
                }
            }
        }
        // wide characters whose low byte is a special ASCII character: categories are per code
        // point. Plain configuration, the wide character made active, its ASCII twin changed.
        for t in wide_twins() {
            let text = format!("a{t}b \\a{t} \\{t}x {t}\n{t}\n\\a{t}");
            v.push(VmcCase { cmds: vec![], text: text.clone() }.enc());
            v.push(VmcCase { cmds: vec![(0, t as i64, 13)], text: text.clone() }.enc());
            v.push(VmcCase { cmds: vec![(0, t as i64, 11)], text: text.clone() }.enc());
            let low = (t as u32 & 0xff) as i64;
            if [0x5E, 0x7E, 0x25, 0x00, 0x7F, 0x5A, 0x24, 0x26, 0x23, 0x5F].contains(&low) {
                v.push(VmcCase { cmds: vec![(0, low, 12)], text: text.clone() }.enc());
                v.push(VmcCase { cmds: vec![(0, low, 11), (0, t as i64, 14)], text }.enc());
            }
        }
        // just in time: a control word immediately followed by the character whose category
        // its execution changes, directly (\catcode…\relax) and hidden in a macro
        for x in ['@', '%', '~', 'Z', '?', '^', 'é', '\u{141}'] {
            for y in [11i64, 12, 14, 0, 9, 13, 10, 5, 7, 15] {
                for kind in [0i64, 2] {
                    for sep in [false, true] {
                        let text = format!("{x}{x}a {x}\n{x}");
                        v.push(VmCase { text0: format!("{x}"), cmds: vec![Cmd { kind, x: x as i64, y, sep, text }] }.enc());
                    }
                }
            }
        }
        let n_vmc = if ctx.thorough { 60_000 } else { 8_000 };
        let mut r = rng.fork();
        for _ in 0..n_vmc {
            v.push(gen_vmc(&mut r).enc());
        }
        let n_vm = if ctx.thorough { 30_000 } else { 4_000 };
        let mut r = rng.fork();
        for _ in 0..n_vm {
            v.push(gen_vm(&mut r).enc());
        }
        v
    }

    fn run_case(&mut self, case: &str, drv: &mut Driver) -> CaseOutcome {
        let mut out = CaseOutcome::default();
        let (cmd, rest) = case.split_once(' ').unwrap_or((case, ""));
        match cmd {
            "lex" => {
                let v = parse_i64s(rest);
                let mut it = v.iter();
                let rep = *it.next().unwrap() != 0;
                let cfg = Table::dec(&mut it);
                let src = dec_text(&mut it);
                out.nontrivial = src.chars().count() >= 2;
                let reply = drv.ask(case);
                let parts: Vec<&str> = reply.split('|').map(|p| p.trim()).collect();
                if parts.len() != 3 {
                    panic!("driver reply malformed: {reply}");
                }
                let (m, s) = (parse_i64s(parts[0]), parse_i64s(parts[1]));
                tags_of(&mut out, &src, cfg.eol, &s);
                // the byte-level twin of the model (offsets in bytes, slices with their panics)
                if parts[2] != "=" {
                    out.fail(
                        Kind::ModelVsSpec,
                        "lex",
                        if parts[2] == "10" { "byte-level model slices off a character boundary".to_string() } else { "byte-level model differs from the character-level model".to_string() },
                        format!("src {src:?}\nbyte-level: {}\nmodel:      {}", parts[2], join(&m)),
                    );
                } else if !src.is_ascii() {
                    out.tag("byte-model:non-ascii-agrees");
                }
                if m != s {
                    out.fail(
                        Kind::ModelVsSpec,
                        "lex",
                        format!("model vs spec: {}", diff_sig(&s, &m)),
                        format!("src {src:?}\nspec:  {}\nmodel: {}", join(&s), join(&m)),
                    );
                }
                match caught(|| real_lex(&src, &cfg, rep)) {
                    Err(p) => out.fail(
                        Kind::ImplPanic,
                        "lex",
                        format!("panic {}", strip_msg(&p)),
                        format!("src {src:?}: lexer or tracer panicked: {p}"),
                    ),
                    Ok(i) => {
                        if i != s {
                            let sig = self.classify(drv, rep, &[(0, cfg.clone())], &src, &s, &i);
                            out.fail(
                                Kind::ImplVsSpec,
                                "lex",
                                sig,
                                format!("src {src:?} endlinechar {:?} report_end_of_line {rep}\nwant (TeX): {}\ngot (code): {}", cfg.eol, join(&s), join(&i)),
                            );
                        } else if i != m {
                            out.fail(
                                Kind::ImplVsModel,
                                "lex",
                                format!("lex vs model: {}", diff_sig(&m, &i)),
                                format!("src {src:?}\nmodel: {}\ncode:  {}", join(&m), join(&i)),
                            );
                        }
                    }
                }
                out
            }
            "vmc" => {
                let c = VmcCase::dec(rest);
                let src = c.script();
                out.nontrivial = c.text.chars().count() >= 2;
                match caught(|| real_vm(&src)) {
                    Err(p) => out.fail(Kind::ImplPanic, "vmc", format!("panic {}", strip_msg(&p)), format!("src {src:?}: VM panicked: {p}")),
                    Ok((table, eol, i)) => {
                        // the configuration from line 2 on, as the property reads the settings
                        let mut cur = Table { eol, dflt: 12, pairs: table };
                        for (kind, x, y) in &c.cmds {
                            if *kind == 0 {
                                let ch = char::from_u32(*x as u32).unwrap();
                                match cur.pairs.iter_mut().find(|p| p.0 == ch) {
                                    Some(p) => p.1 = *y as u8,
                                    None => cur.pairs.insert(0, (ch, *y as u8)),
                                }
                            } else {
                                cur.eol = if (0..128).contains(x) { char::from_u32(*x as u32) } else { None };
                            }
                        }
                        out.tag(format!(
                            "vmc:endlinechar={}",
                            c.cmds.iter().rev().find(|c| c.0 == 1).map(|c| c.1.clamp(-2, 129).to_string()).unwrap_or("unchanged".into())
                        ));
                        match vmc_suffix(&i) {
                            None => out.tag("vmc:stopped-in-line-1"),
                            Some(i_suf) => {
                                let reply = drv.ask(&lex_case(false, &cur, &c.text));
                                let s = reply.split('|').nth(1).unwrap_or_else(|| panic!("driver reply malformed: {reply}"));
                                let s = upto_invalid(&parse_i64s(s.trim()));
                                tags_of(&mut out, &c.text, cur.eol, &s);
                                out.tag("vmc:compared-with-spec");
                                if i_suf != s {
                                    let what = if c.cmds.iter().any(|c| c.0 == 1) && c.cmds.iter().any(|c| c.0 == 0) {
                                        "\\endlinechar/\\catcode"
                                    } else if c.cmds.iter().any(|c| c.0 == 1) {
                                        "\\endlinechar"
                                    } else {
                                        "\\catcode"
                                    };
                                    out.fail(
                                        Kind::ImplVsSpec,
                                        "vmc",
                                        format!("vm glue: lexing after {what} settings differs from TeX: {}", diff_sig(&s, &i_suf)),
                                        format!(
                                            "program {src:?}\nlines after the first, endlinechar {:?}\nwant (TeX): {}\ngot (VM):   {}",
                                            cur.eol,
                                            join(&s),
                                            join(&i_suf)
                                        ),
                                    );
                                }
                            }
                        }
                    }
                }
                out
            }
            "vm" | "vmj" => {
                let c = VmCase::dec(rest, cmd == "vmj");
                let (src, spans, triggers) = c.script();
                out.nontrivial = !c.cmds.is_empty();
                match caught(|| real_vm(&src)) {
                    Err(p) => out.fail(Kind::ImplPanic, "vm", format!("panic {}", strip_msg(&p)), format!("src {src:?}: VM panicked: {p}")),
                    Ok((table, eol, i)) => {
                        // offsets -> (line, column)
                        let mut starts = vec![0usize];
                        for (k, ch) in src.chars().enumerate() {
                            if ch == '\n' {
                                starts.push(k + 1);
                            }
                        }
                        // the request: cfg0, then per command the trigger and the configuration
                        // in force once it has been delivered
                        let mut cur = Table { eol, dflt: 12, pairs: table };
                        let mut req: Vec<i64> = vec![0, c.cmds.len() as i64];
                        cur.enc(&mut req);
                        for (cm, tr) in c.cmds.iter().zip(&triggers) {
                            if cm.kind % 2 == 0 {
                                let ch = char::from_u32(cm.x as u32).unwrap();
                                match cur.pairs.iter_mut().find(|p| p.0 == ch) {
                                    Some(p) => p.1 = cm.y as u8,
                                    None => cur.pairs.insert(0, (ch, cm.y as u8)),
                                }
                            } else {
                                cur.eol = if (0..128).contains(&cm.x) { char::from_u32(cm.x as u32) } else { None };
                            }
                            let line = starts.iter().rposition(|st| *st <= tr.off).unwrap();
                            req.extend([line as i64 + 1, (tr.off - starts[line]) as i64]);
                            enc_text(&tr.name, &mut req);
                            if cm.kind % 2 == 0 {
                                req.extend([0, cm.x, cm.y]);
                            } else {
                                req.extend([1, cur.eol.map(|e| e as i64).unwrap_or(-1), 0]);
                            }
                        }
                        enc_text(&src, &mut req);
                        let reply = drv.ask(&format!("sps {}", join(&req)));
                        let (m_all, s_all) = reply.split_once('|').unwrap_or_else(|| panic!("driver reply malformed: {reply}"));
                        let filt = |items: &[i64]| vm_filter(items, &src, &spans);
                        let (m, s) = (filt(&parse_i64s(m_all.trim())), filt(&parse_i64s(s_all.trim())));
                        tags_of(&mut out, &src, cur.eol, &s);
                        out.tag(format!("vm:cmds={}", c.cmds.len().min(3)));
                        for cm in &c.cmds {
                            out.tag(format!(
                                "vm:{}{}",
                                ["catcode", "endlinechar", "macro-catcode", "macro-endlinechar"][cm.kind as usize & 3],
                                if cm.sep { "" } else { ":no-blank" }
                            ));
                            if !cm.sep && cm.kind % 2 == 0 && cm.text.chars().next().map(|ch| ch as i64) == Some(cm.x) {
                                out.tag(format!("vm:next-char-recategorised-to={}", cm.y));
                            }
                        }
                        if m != s {
                            out.fail(
                                Kind::ModelVsSpec,
                                "vm",
                                format!("model vs specSched: {}", diff_sig(&s, &m)),
                                format!("src {src:?}\nspec:  {}\nmodel: {}", join(&s), join(&m)),
                            );
                        }
                        let i_f = filt(&i);
                        let errored = split_items(&i_f).last().map(|it| it[0] == 9).unwrap_or(false);
                        let agrees = if errored {
                            // a non-lexer error ended the run: what was delivered before it
                            out.tag("vm:other-error");
                            s.starts_with(&i_f[..i_f.len() - 1])
                        } else {
                            i_f == s
                        };
                        if !agrees {
                            out.fail(
                                Kind::ImplVsSpec,
                                "vm",
                                format!("vm just-in-time: tokens differ from TeX under the configuration in force at each call: {}", diff_sig(&s, &i_f)),
                                format!("program {src:?}\nwant (TeX, specSched): {}\ngot (VM):              {}", join(&s), join(&i_f)),
                            );
                        }
                    }
                }
                out
            }
            _ => panic!("bad case {case}"),
        }
    }

    fn shrink(&self, case: &str) -> Vec<String> {
        let (cmd, rest) = case.split_once(' ').unwrap_or((case, ""));
        let mut c = vec![];
        match cmd {
            "lex" => {
                let v = parse_i64s(rest);
                let mut it = v.iter();
                let rep = *it.next().unwrap() != 0;
                let cfg = Table::dec(&mut it);
                let src: Vec<char> = dec_text(&mut it).chars().collect();
                let mk = |s: &[char], t: &Table| lex_case(rep, t, &s.iter().collect::<String>());
                if src.len() > 1 {
                    c.push(mk(&src[..src.len() / 2], &cfg));
                    c.push(mk(&src[src.len() / 2..], &cfg));
                    for i in 0..src.len() {
                        let mut s = src.clone();
                        s.remove(i);
                        c.push(mk(&s, &cfg));
                    }
                }
                // drop table entries of characters that do not occur
                let used: Vec<(char, u8)> = cfg.pairs.iter().copied().filter(|p| src.contains(&p.0)).collect();
                if used.len() < cfg.pairs.len() {
                    c.push(mk(&src, &Table { pairs: used, ..cfg.clone() }));
                }
            }
            "vmc" => {
                let vc = VmcCase::dec(rest);
                for i in 0..vc.cmds.len() {
                    let mut d = vc.clone();
                    d.cmds.remove(i);
                    c.push(d.enc());
                }
                let cs: Vec<char> = vc.text.chars().collect();
                if cs.len() > 1 {
                    c.push(VmcCase { text: cs[..cs.len() / 2].iter().collect(), ..vc.clone() }.enc());
                    c.push(VmcCase { text: cs[cs.len() / 2..].iter().collect(), ..vc.clone() }.enc());
                }
                for i in 0..cs.len() {
                    let t: String = cs.iter().enumerate().filter(|(j, _)| *j != i).map(|(_, c)| *c).collect();
                    c.push(VmcCase { text: t, ..vc.clone() }.enc());
                }
            }
            "vm" | "vmj" => {
                let vc = VmCase::dec(rest, cmd == "vmj");
                for i in 0..vc.cmds.len() {
                    let mut d = vc.clone();
                    let t = d.cmds.remove(i).text;
                    if i == 0 {
                        d.text0.push('\n');
                        d.text0.push_str(&t);
                    } else {
                        d.cmds[i - 1].text.push('\n');
                        d.cmds[i - 1].text.push_str(&t);
                    }
                    c.push(d.enc());
                    // the command without what follows it
                    let mut d = vc.clone();
                    d.cmds.truncate(i + 1);
                    if d.cmds.len() < vc.cmds.len() {
                        c.push(d.enc());
                    }
                }
                let drop_char = |s: &str| -> Vec<String> {
                    let cs: Vec<char> = s.chars().collect();
                    (0..cs.len())
                        .map(|i| cs.iter().enumerate().filter(|(j, _)| *j != i).map(|(_, c)| *c).collect())
                        .collect()
                };
                if !vc.text0.is_empty() {
                    c.push(VmCase { text0: String::new(), ..vc.clone() }.enc());
                }
                for s in drop_char(&vc.text0) {
                    c.push(VmCase { text0: s, ..vc.clone() }.enc());
                }
                for i in 0..vc.cmds.len() {
                    for s in drop_char(&vc.cmds[i].text) {
                        let mut d = vc.clone();
                        d.cmds[i].text = s;
                        c.push(d.enc());
                    }
                }
            }
            _ => {}
        }
        c
    }

    fn extra_evidence(&self) -> Option<String> {
        let mut hits: Vec<_> = self.legacy_hits.iter().collect();
        hits.sort();
        Some(format!(
            "\"pre_fix_behaviour_cases\": {{{}}}",
            hits.iter().map(|(k, v)| format!("{}: {}", jstr(k), v)).collect::<Vec<_>>().join(", ")
        ))
    }
}

/// What the VM's main loop can show: drop the items inside the commands (executed, not
/// logged), `\par` (a defined command) and everything after the first invalid character (a
/// fatal error for the VM) or non-lexer error.
fn vm_filter(items: &[i64], src: &str, spans: &[(usize, usize)]) -> Vec<i64> {
    // offsets of line starts
    let mut starts = vec![0usize];
    for (i, c) in src.chars().enumerate() {
        if c == '\n' {
            starts.push(i + 1);
        }
    }
    let mut out = vec![];
    for it in split_items(items) {
        match it[0] {
            0..=3 => {
                let (_, pos) = item_parts(it);
                if it[0] == 3 {
                    out.extend_from_slice(it);
                    return out;
                }
                let off = starts.get(pos[0] as usize - 1).copied().unwrap_or(usize::MAX - 1_000_000) + pos[1] as usize;
                if spans.iter().any(|(a, b)| *a <= off && off < *b) {
                    continue;
                }
                if item_kind(it) == "cs/par" {
                    continue;
                }
                out.extend_from_slice(it);
            }
            4 => {}
            9 => {
                out.push(9);
                return out;
            }
            _ => out.extend_from_slice(it),
        }
    }
    out
}

fn gen_vm(r: &mut Rng) -> VmCase {
    // text over characters that cannot form a defined command name or a brace
    const CH: &[char] = &['\\', '^', '^', ' ', '\n', '\r', '\0', 'é', 'a', '5', '%', '~', 'M', 'Z', 'u', '?', '\t', '@', '\x7f'];
    let twins = wide_twins();
    let text = |r: &mut Rng, first: Option<char>| -> String {
        let n = r.below(10) as usize;
        let mut s = String::new();
        if let Some(c) = first {
            s.push(c);
        }
        for _ in 0..n {
            match r.below(12) {
                0 | 1 => s.push(*r.pick(&twins)),
                // a wide character inside / right after a name, and at the end of a line
                2 => {
                    s.push_str("\\a");
                    s.push(*r.pick(&twins));
                }
                3 => {
                    s.push(*r.pick(&twins));
                    s.push('\n');
                }
                _ => s.push(*r.pick(CH)),
            }
        }
        s
    };
    let text0 = text(r, None);
    let k = r.below(4) as usize;
    let cats: &[i64] = &[11, 12, 14, 0, 9, 13, 10, 5, 7, 15, 3, 4, 6, 8];
    let mut cmds = vec![];
    for i in 0..k {
        let last = i + 1 == k;
        let via_macro = r.chance(2, 5);
        let (kind, x, y) = if r.chance(1, 5) {
            (1, *r.pick(&[-1i64, 13, 97, 94, 32, 77, 37, 200, 127, 128, 0]), 0)
        } else {
            // characters the commands themselves do not need; some of those only last
            let mut chars: Vec<i64> = vec![64, 64, 94, 126, 37, 37, 77, 90, 0, 233, 13, 117, 63, 9, 127];
            for _ in 0..6 {
                chars.push(*r.pick(&twins) as i64);
            }
            if last {
                chars.extend([32, 92, 97, 53, 109, 65]);
            }
            // no begin/end group (the VM handles those itself)
            (0, *r.pick(&chars), *r.pick(cats))
        };
        let kind = kind + if via_macro { 2 } else { 0 };
        let sep = r.chance(1, 3);
        // mostly: the character right after the control word is the one it recategorises
        let first = if kind % 2 == 0 && r.chance(3, 4) {
            char::from_u32(x as u32)
        } else if r.chance(1, 3) {
            Some(*r.pick(&['@', '%', 'Z', '~', '^', '\\', ' ']))
        } else {
            None
        };
        cmds.push(Cmd { kind, x, y, sep, text: text(r, first) });
    }
    VmCase { text0, cmds }
}

fn main() {
    run(C03 { legacy_hits: HashMap::new() });
}
