//! C16 — DVI encoding round-trips; variable removal preserves every position.
//!
//! Case strings:
//!   `rt <ops>`    serialise with the real code, compare bytes with M; deserialise the real
//!                 bytes with the real code, compare with M and (when the sequence is in the
//!                 quantifier, `SeqWF`) with the input itself (S).
//!   `de <bytes>`  arbitrary bytes through the real `Deserializer`; compare with M; a panic
//!                 is an `impl-panic` (S: ops or one of the two documented errors).
//!   `bin <old> <bytes>`  the repository's `dvitools normalize` binary (crates/dvi-bin) on a file with
//!                 these bytes, written over a previous output of `old` bytes (0 = absent); the
//!                 output file must be exactly serialise(varRemove(deserialise(bytes))) (Lean).
//!   `vr <ops>`    the real `VarRemover`; compare with M; S = the Lean tracker `positions`
//!                 evaluated on the *real* output, plus no-vars and others-unchanged.
//!
//! Ops are integer-encoded exactly as in `lean/Driver/C16.lean`.

use dvi::{Op, Var};
use vh::*;

fn var_code(v: Var) -> i64 {
    v as i64
}
fn var_of(i: i64) -> Var {
    match i {
        0 => Var::W,
        1 => Var::X,
        2 => Var::Y,
        _ => Var::Z,
    }
}

fn enc_bytes(out: &mut Vec<i64>, b: &[u8]) {
    out.push(b.len() as i64);
    out.extend(b.iter().map(|x| *x as i64));
}

fn enc_op(op: &Op, out: &mut Vec<i64>) {
    match op {
        Op::TypesetChar { char, move_h } => out.extend([0, *char as i64, *move_h as i64]),
        Op::TypesetRule { height, width, move_h } => {
            out.extend([1, *height as i64, *width as i64, *move_h as i64])
        }
        Op::NoOp => out.push(2),
        Op::BeginPage { parameters, previous_begin_page } => {
            out.extend([3, 10]);
            out.extend(parameters.iter().map(|p| *p as i64));
            out.push(*previous_begin_page as i64);
        }
        Op::EndPage => out.push(4),
        Op::Push => out.push(5),
        Op::Pop => out.push(6),
        Op::Right(i) => out.extend([7, *i as i64]),
        Op::Move(v) => out.extend([8, var_code(*v)]),
        Op::SetVar(v, i) => out.extend([9, var_code(*v), *i as i64]),
        Op::Down(i) => out.extend([10, *i as i64]),
        Op::EnableFont(u) => out.extend([11, *u as i64]),
        Op::Extension(d) => {
            out.push(12);
            enc_bytes(out, d);
        }
        Op::DefineFont { number, checksum, at_size, design_size, area, name } => {
            out.extend([13, *number as i64, *checksum as i64, *at_size as i64, *design_size as i64]);
            enc_bytes(out, area.as_bytes());
            enc_bytes(out, name.as_bytes());
        }
        Op::Preamble { dvi_format, unit_numerator, unit_denominator, magnification, comment } => {
            out.extend([
                14,
                *dvi_format as i64,
                *unit_numerator as i64,
                *unit_denominator as i64,
                *magnification as i64,
            ]);
            enc_bytes(out, comment.as_bytes());
        }
        Op::BeginPostamble {
            final_begin_page,
            unit_numerator,
            unit_denominator,
            magnification,
            largest_height,
            largest_width,
            max_stack_depth,
            num_pages,
        } => out.extend([
            15,
            *final_begin_page as i64,
            *unit_numerator as i64,
            *unit_denominator as i64,
            *magnification as i64,
            *largest_height as i64,
            *largest_width as i64,
            *max_stack_depth as i64,
            *num_pages as i64,
        ]),
        Op::EndPostamble { dvi_format, postamble, num_223_bytes } => {
            out.extend([16, *dvi_format as i64, *postamble as i64, *num_223_bytes as i64])
        }
    }
}

fn enc_ops(ops: &[Op]) -> Vec<i64> {
    let mut out = vec![ops.len() as i64];
    for op in ops {
        enc_op(op, &mut out);
    }
    out
}

struct Cur<'a>(&'a [i64]);
impl<'a> Cur<'a> {
    fn next(&mut self) -> i64 {
        let (h, t) = self.0.split_first().expect("truncated op encoding");
        self.0 = t;
        *h
    }
    fn bytes(&mut self) -> Vec<u8> {
        let n = self.next() as usize;
        (0..n).map(|_| self.next() as u8).collect()
    }
    /// Strings travel as bytes; the model's reader returns raw bytes where the real one
    /// applies `from_utf8_lossy`, so the same conversion is applied here.
    fn string(&mut self) -> String {
        String::from_utf8_lossy(&self.bytes()).into_owned()
    }
}

fn dec_op(c: &mut Cur) -> Op {
    match c.next() {
        0 => Op::TypesetChar { char: c.next() as u32, move_h: c.next() != 0 },
        1 => Op::TypesetRule { height: c.next() as i32, width: c.next() as i32, move_h: c.next() != 0 },
        2 => Op::NoOp,
        3 => {
            let n = c.next();
            assert_eq!(n, 10);
            let mut parameters = [0i32; 10];
            for p in parameters.iter_mut() {
                *p = c.next() as i32;
            }
            Op::BeginPage { parameters, previous_begin_page: c.next() as i32 }
        }
        4 => Op::EndPage,
        5 => Op::Push,
        6 => Op::Pop,
        7 => Op::Right(c.next() as i32),
        8 => Op::Move(var_of(c.next())),
        9 => Op::SetVar(var_of(c.next()), c.next() as i32),
        10 => Op::Down(c.next() as i32),
        11 => Op::EnableFont(c.next() as u32),
        12 => Op::Extension(c.bytes()),
        13 => Op::DefineFont {
            number: c.next() as u32,
            checksum: c.next() as u32,
            at_size: c.next() as u32,
            design_size: c.next() as u32,
            area: c.string(),
            name: c.string(),
        },
        14 => Op::Preamble {
            dvi_format: c.next() as u8,
            unit_numerator: c.next() as u32,
            unit_denominator: c.next() as u32,
            magnification: c.next() as u32,
            comment: c.string(),
        },
        15 => Op::BeginPostamble {
            final_begin_page: c.next() as i32,
            unit_numerator: c.next() as u32,
            unit_denominator: c.next() as u32,
            magnification: c.next() as u32,
            largest_height: c.next() as u32,
            largest_width: c.next() as u32,
            max_stack_depth: c.next() as u16,
            num_pages: c.next() as u16,
        },
        16 => Op::EndPostamble {
            dvi_format: c.next() as u8,
            postamble: c.next() as i32,
            num_223_bytes: c.next() as usize,
        },
        t => panic!("bad op tag {t}"),
    }
}

fn dec_ops(c: &mut Cur) -> Vec<Op> {
    let n = c.next();
    (0..n).map(|_| dec_op(c)).collect()
}

/// (ops, error) as the driver prints them.
fn show_de(ops: &[Op], err: &Result<(), dvi::InvalidDviData>) -> String {
    let mut v = enc_ops(ops);
    match err {
        Ok(()) => v.push(0),
        Err(dvi::InvalidDviData::InvalidOpCode(c)) => v.extend([1, *c as i64]),
        Err(dvi::InvalidDviData::Truncated(c)) => v.extend([2, *c as i64]),
    }
    join(&v)
}

/// Re-encode a driver `showDe` reply after passing its strings through `from_utf8_lossy`.
fn canon_de_reply(reply: &str) -> String {
    let v = parse_i64s(reply);
    let mut c = Cur(&v);
    let ops = dec_ops(&mut c);
    let mut out = enc_ops(&ops);
    out.extend_from_slice(c.0);
    join(&out)
}

fn real_deserialize(bytes: &[u8]) -> (Vec<Op>, Result<(), dvi::InvalidDviData>) {
    let mut result = Ok(());
    let ops: Vec<Op> = dvi::Deserializer::new(bytes, &mut result).collect();
    (ops, result)
}

fn op_name(op: &Op) -> &'static str {
    match op {
        Op::TypesetChar { .. } => "TypesetChar",
        Op::TypesetRule { .. } => "TypesetRule",
        Op::NoOp => "NoOp",
        Op::BeginPage { .. } => "BeginPage",
        Op::EndPage => "EndPage",
        Op::Push => "Push",
        Op::Pop => "Pop",
        Op::Right(_) => "Right",
        Op::Move(_) => "Move",
        Op::SetVar(..) => "SetVar",
        Op::Down(_) => "Down",
        Op::EnableFont(_) => "EnableFont",
        Op::Extension(_) => "Extension",
        Op::DefineFont { .. } => "DefineFont",
        Op::Preamble { .. } => "Preamble",
        Op::BeginPostamble { .. } => "BeginPostamble",
        Op::EndPostamble { .. } => "EndPostamble",
    }
}

/// First index at which two op lists differ, described by the op kinds there.
fn diff_sig(a: &[Op], b: &[Op]) -> String {
    for i in 0..a.len().max(b.len()) {
        match (a.get(i), b.get(i)) {
            (Some(x), Some(y)) if x == y => continue,
            (Some(x), Some(y)) => return format!("{}->{}", op_name(x), op_name(y)),
            (Some(x), None) => {
                // which op swallowed it?
                let prev = if i > 0 { op_name(&a[i - 1]) } else { "start" };
                return format!("{} lost after {}", op_name(x), prev);
            }
            (None, Some(y)) => return format!("extra {}", op_name(y)),
            (None, None) => unreachable!(),
        }
    }
    "same".into()
}

struct C16 {
    max_len: usize,
    /// path of the repository's `dvitools` binary, built on first use (None = build failed)
    dvitools: Option<Option<String>>,
    repo: String,
    verif: String,
}

/// Build the repository's own `dvitools` binary (crates/dvi-bin) from the tree under test.
fn build_dvitools(repo: &str, verif: &str) -> Option<String> {
    let target = format!("{verif}/.work/repo-bins-{:x}", fxhash(repo));
    let st = std::process::Command::new("cargo")
        .args(["build", "--offline", "-q", "-p", "dvi-bin", "--bin", "dvitools", "--manifest-path"])
        .arg(format!("{repo}/Cargo.toml"))
        .env("CARGO_TARGET_DIR", &target)
        .env("CARGO_NET_OFFLINE", "true")
        .stdout(std::process::Stdio::null())
        .stderr(std::process::Stdio::null())
        .status()
        .ok()?;
    if !st.success() {
        return None;
    }
    Some(format!("{target}/debug/dvitools"))
}

/// Writes `ops` as the reader must accept them but not necessarily as the writer would: every
/// variable-width operand takes a random width ≥ the minimal one, small characters and fonts
/// sometimes take their long forms (independent of `dvi::serialize`, except for the fixed-width
/// operations and those with strings, whose layout has no freedom besides the number form).
fn loose_bytes(ops: &[Op], rng: &mut Rng) -> Vec<u8> {
    fn put_u(b: &mut Vec<u8>, base: u8, v: u32, rng: &mut Rng) {
        let min = if v < 1 << 8 { 1 } else if v < 1 << 16 { 2 } else if v < 1 << 24 { 3 } else { 4 };
        let k = min + rng.below((5 - min) as u64) as usize;
        b.push(base + (k as u8 - 1));
        b.extend_from_slice(&v.to_be_bytes()[4 - k..]);
    }
    fn put_i(b: &mut Vec<u8>, base: u8, v: i32, rng: &mut Rng) {
        let min = if (-128..128).contains(&v) { 1 } else if (-32768..32768).contains(&v) { 2 } else if (-(1 << 23)..(1 << 23)).contains(&v) { 3 } else { 4 };
        let k = min + rng.below((5 - min) as u64) as usize;
        b.push(base + (k as u8 - 1));
        b.extend_from_slice(&v.to_be_bytes()[4 - k..]);
    }
    let mut b = vec![];
    for op in ops {
        match op {
            Op::TypesetChar { char, move_h } => {
                if *move_h && *char < 128 && rng.chance(1, 2) {
                    b.push(*char as u8);
                } else {
                    put_u(&mut b, if *move_h { 128 } else { 133 }, *char, rng);
                }
            }
            Op::Right(i) => put_i(&mut b, 143, *i, rng),
            Op::Down(i) => put_i(&mut b, 157, *i, rng),
            Op::SetVar(v, i) => put_i(&mut b, [148, 153, 162, 167][var_code(*v) as usize], *i, rng),
            Op::EnableFont(u) => {
                if *u < 64 && rng.chance(1, 2) {
                    b.push(171 + *u as u8);
                } else {
                    put_u(&mut b, 235, *u, rng);
                }
            }
            Op::Extension(d) => {
                put_u(&mut b, 239, d.len() as u32, rng);
                b.extend_from_slice(d);
            }
            Op::DefineFont { number, checksum, at_size, design_size, area, name } => {
                put_u(&mut b, 243, *number, rng);
                for x in [checksum, at_size, design_size] {
                    b.extend_from_slice(&x.to_be_bytes());
                }
                b.push(area.len() as u8);
                b.push(name.len() as u8);
                b.extend_from_slice(area.as_bytes());
                b.extend_from_slice(name.as_bytes());
            }
            other => other.serialize(&mut b),
        }
    }
    b
}

impl C16 {
    fn gen_string(rng: &mut Rng) -> String {
        let n = match rng.below(8) {
            0 => 0,
            1 => 1,
            2 => 255,
            3 => 254,
            _ => rng.below(20) as usize,
        };
        let alphabet = ['a', 'Z', ' ', '"', 'é', 'ß', '€', '𝄞', '\u{0}', '\u{7f}', '\n'];
        let mut s = String::new();
        while s.len() < n {
            let c = *rng.pick(&alphabet);
            if s.len() + c.len_utf8() > n {
                s.push('x');
            } else {
                s.push(c);
            }
        }
        s
    }
    fn gen_op(rng: &mut Rng, for_vr: bool) -> Op {
        let k = if for_vr { *rng.pick(&[0, 0, 1, 2, 3, 4, 5, 5, 6, 6, 7, 8, 8, 8, 9, 9, 9, 10, 11, 12]) } else { rng.below(17) };
        let small = |rng: &mut Rng| -> i32 {
            if for_vr {
                // keep |h|,|v| far inside i32 over ≤ 200 ops (the quantifier's restriction)
                *rng.pick(&[0, 0, 1, -1, 7, -300, 65536, 1 << 22, -(1 << 22), 5_000_000, -5_000_000])
            } else {
                interesting_i32(rng)
            }
        };
        match k {
            0 => Op::TypesetChar { char: interesting_u32(rng), move_h: rng.chance(1, 2) },
            1 => Op::TypesetRule { height: small(rng), width: small(rng), move_h: rng.chance(1, 2) },
            2 => Op::NoOp,
            3 => {
                let mut parameters = [0i32; 10];
                for p in parameters.iter_mut() {
                    *p = interesting_i32(rng);
                }
                Op::BeginPage { parameters, previous_begin_page: interesting_i32(rng) }
            }
            4 => Op::EndPage,
            5 => Op::Push,
            6 => Op::Pop,
            7 => Op::Right(small(rng)),
            8 => Op::Move(var_of(rng.below(4) as i64)),
            9 => Op::SetVar(var_of(rng.below(4) as i64), small(rng)),
            10 => Op::Down(small(rng)),
            11 => Op::EnableFont(if rng.chance(1, 3) { 52 } else { interesting_u32(rng) }),
            12 => {
                let n = *rng.pick(&[0usize, 1, 2, 255, 256, 300, 65535, 65536, 70000]);
                let n = if rng.chance(79, 80) { n.min(300) } else { n };
                Op::Extension((0..n).map(|i| if i % 7 == 0 { 223 } else { (rng.next_u64() & 0xff) as u8 }).collect())
            }
            13 => Op::DefineFont {
                number: interesting_u32(rng),
                checksum: interesting_u32(rng),
                at_size: interesting_u32(rng),
                design_size: interesting_u32(rng),
                area: Self::gen_string(rng),
                name: Self::gen_string(rng),
            },
            14 => Op::Preamble {
                dvi_format: rng.below(256) as u8,
                unit_numerator: interesting_u32(rng),
                unit_denominator: interesting_u32(rng),
                magnification: interesting_u32(rng),
                comment: Self::gen_string(rng),
            },
            15 => Op::BeginPostamble {
                final_begin_page: interesting_i32(rng),
                unit_numerator: interesting_u32(rng),
                unit_denominator: interesting_u32(rng),
                magnification: interesting_u32(rng),
                largest_height: interesting_u32(rng),
                largest_width: interesting_u32(rng),
                max_stack_depth: interesting_u32(rng) as u16,
                num_pages: interesting_u32(rng) as u16,
            },
            _ => Op::EndPostamble {
                dvi_format: rng.below(256) as u8,
                postamble: interesting_i32(rng),
                num_223_bytes: *rng.pick(&[0usize, 0, 1, 4, 7]),
            },
        }
    }
}

impl Property for C16 {
    fn id(&self) -> &'static str {
        "C16"
    }
    fn rule(&self) -> String {
        "rt: every op kind with operands at each 1/2/3/4-byte boundary ±2 (exhaustive list), then random sequences ≤ max_len ops with page structure; \
         de: all 1- and 2-byte strings (exhaustive), truncations of serialised sequences, random bytes; \
         vr: random sequences with push/pop/begin-page/var ops (values kept inside i32). \
         Non-trivial = the case contains at least one operand-carrying op (rt), at least 2 bytes (de), or at least one Move/SetVar (vr); distinct = distinct case string."
            .into()
    }
    fn builtin_corpus(&self) -> Vec<String> {
        let mut v = vec![];
        // C16-a: EndPostamble directly followed by EnableFont(52) (op code 223).
        v.push(format!(
            "rt {}",
            join(&enc_ops(&[
                Op::EndPostamble { dvi_format: 2, postamble: 0, num_223_bytes: 0 },
                Op::EnableFont(52)
            ]))
        ));
        // every boundary of the variable-width forms, each as a one-op sequence followed by NoOp
        let ib: &[i64] = &[
            0, 127, 128, -128, -129, 32767, 32768, -32768, -32769, 8388607, 8388608, -8388608, -8388609,
            2147483647, -2147483648,
        ];
        for &i in ib {
            for d in -1..=1i64 {
                let x = (i + d).clamp(i32::MIN as i64, i32::MAX as i64) as i32;
                for op in [Op::Right(x), Op::Down(x), Op::SetVar(Var::W, x), Op::SetVar(Var::X, x), Op::SetVar(Var::Y, x), Op::SetVar(Var::Z, x)] {
                    v.push(format!("rt {}", join(&enc_ops(&[op, Op::NoOp]))));
                }
            }
        }
        let ub: &[i64] = &[0, 63, 64, 127, 128, 255, 256, 65535, 65536, 16777215, 16777216, 4294967295];
        for &u in ub {
            for d in -1..=1i64 {
                let x = (u + d).clamp(0, u32::MAX as i64) as u32;
                for op in [
                    Op::TypesetChar { char: x, move_h: true },
                    Op::TypesetChar { char: x, move_h: false },
                    Op::EnableFont(x),
                    Op::DefineFont { number: x, checksum: x, at_size: 1, design_size: 2, area: "".into(), name: "cmr10".into() },
                ] {
                    v.push(format!("rt {}", join(&enc_ops(&[op, Op::NoOp]))));
                }
            }
        }
        for n in [0usize, 1, 255, 256, 65535, 65536] {
            v.push(format!("rt {}", join(&enc_ops(&[Op::Extension(vec![7; n]), Op::Pop]))));
        }
        v.push("vr 7 9 0 5 5 9 2 3 0 65 1 6 8 0 0 66 0".into());
        // very deep push nesting (the postamble's max_stack_depth is a u16; the stack is not)
        for depth in [65535usize, 65536, 65537] {
            let mut ops = vec![Op::BeginPage { parameters: [0; 10], previous_begin_page: -1 }];
            ops.extend(std::iter::repeat(Op::Push).take(depth));
            ops.extend([Op::SetVar(Var::W, 7), Op::Push, Op::SetVar(Var::W, 9), Op::Pop, Op::Move(Var::W),
                        Op::TypesetChar { char: 65, move_h: true }, Op::Pop, Op::Pop, Op::Move(Var::W),
                        Op::TypesetChar { char: 66, move_h: false }]);
            v.push(format!("vr {}", join(&enc_ops(&ops))));
        }
        // the dvitools binary: normalize into a fresh path, over a shorter and over a longer old file
        for old in [0usize, 3, 4000] {
            v.push(format!("bin {old} {}", join(&dvi::serialize(vec![
                Op::BeginPage { parameters: [1, 0, 0, 0, 0, 0, 0, 0, 0, 0], previous_begin_page: -1 },
                Op::SetVar(Var::W, 5), Op::Push, Op::SetVar(Var::Y, -3), Op::TypesetChar { char: 65, move_h: true },
                Op::Pop, Op::Move(Var::W), Op::TypesetChar { char: 66, move_h: false }, Op::EndPage,
            ]))));
        }
        v
    }
    fn generate(&mut self, ctx: &Ctx, rng: &mut Rng) -> Vec<String> {
        let mut v = vec![];
        let (n_rt, n_de, n_vr) = if ctx.thorough { (60_000, 120_000, 60_000) } else { (6_000, 12_000, 6_000) };
        // de: all 1- and 2-byte strings
        for a in 0..256 {
            v.push(format!("de {a}"));
        }
        for a in 0..256 {
            for b in 0..256 {
                if ctx.thorough || a >= 128 || b % 16 == 0 {
                    v.push(format!("de {a} {b}"));
                }
            }
        }
        let mut r = rng.fork();
        for _ in 0..n_rt {
            let n = 1 + r.below(self.max_len as u64) as usize;
            let n = if r.chance(2, 3) { n.min(8) } else { n };
            let ops: Vec<Op> = (0..n).map(|_| Self::gen_op(&mut r, false)).collect();
            v.push(format!("rt {}", join(&enc_ops(&ops))));
        }
        let mut r = rng.fork();
        for i in 0..n_de {
            let bytes: Vec<u8> = if i % 3 == 0 {
                // truncation / mutation of a valid stream (half of them in non-minimal encodings)
                let n = 1 + r.below(6) as usize;
                let ops: Vec<Op> = (0..n).map(|_| Self::gen_op(&mut r, false)).collect();
                let mut b = if i % 2 == 0 { dvi::serialize(ops) } else { loose_bytes(&ops, &mut r) };
                if b.len() > 400 {
                    b.truncate(400);
                }
                if !b.is_empty() && r.chance(1, 2) {
                    let k = r.below(b.len() as u64) as usize;
                    b.truncate(k + 1);
                }
                if !b.is_empty() && r.chance(1, 2) {
                    let k = r.below(b.len() as u64) as usize;
                    b[k] = r.next_u64() as u8;
                }
                b
            } else {
                let n = 1 + r.below(24) as usize;
                (0..n)
                    .map(|_| match r.below(4) {
                        0 => *r.pick(&[223u8, 249, 239, 242, 243, 247, 248, 139, 0, 255, 250, 128, 131, 235, 238]),
                        1 => r.below(4) as u8,
                        _ => r.next_u64() as u8,
                    })
                    .collect()
            };
            v.push(format!("de {}", join(&bytes)));
        }
        // `dvitools normalize` (crates/dvi-bin): valid streams, sometimes truncated/mutated, written
        // over an absent, shorter or longer previous output file
        let n_bin = if ctx.thorough { 600 } else { 60 };
        let mut r = rng.fork();
        for _ in 0..n_bin {
            let n = 1 + r.below(40) as usize;
            let ops: Vec<Op> = (0..n).map(|_| Self::gen_op(&mut r, true)).collect();
            let mut b = dvi::serialize(ops);
            if r.chance(1, 6) && !b.is_empty() {
                let k = r.below(b.len() as u64) as usize;
                b.truncate(k + 1);
            }
            let old = *r.pick(&[0usize, 0, 1, 7, 100, 5000]);
            v.push(format!("bin {old} {}", join(&b)));
        }
        // `normalize` in process on streams in *non-minimal* encodings (what other DVI writers
        // produce): theorem `normalize_bytes`
        let n_nzb = if ctx.thorough { 40_000 } else { 4_000 };
        let mut r = rng.fork();
        for _ in 0..n_nzb {
            let n = 1 + r.below(30) as usize;
            let mut ops: Vec<Op> = (0..n).map(|_| Self::gen_op(&mut r, true)).collect();
            if r.chance(1, 5) {
                // an EndPostamble in the middle, sometimes directly before EnableFont(52) (C16-a)
                let at = r.below(ops.len() as u64 + 1) as usize;
                if r.chance(1, 2) {
                    ops.insert(at, Op::EnableFont(52));
                }
                ops.insert(at, Op::EndPostamble { dvi_format: 2, postamble: interesting_i32(&mut r), num_223_bytes: *r.pick(&[0usize, 0, 1, 4]) });
            }
            let mut b = loose_bytes(&ops, &mut r);
            if r.chance(1, 10) && !b.is_empty() {
                let k = r.below(b.len() as u64) as usize;
                b.truncate(k + 1);
            }
            v.push(format!("nzb {}", join(&b)));
        }
        let mut r = rng.fork();
        for _ in 0..n_vr {
            let n = 1 + r.below(self.max_len as u64) as usize;
            let n = if r.chance(1, 2) { n.min(12) } else { n };
            let ops: Vec<Op> = (0..n).map(|_| Self::gen_op(&mut r, true)).collect();
            v.push(format!("vr {}", join(&enc_ops(&ops))));
        }
        // large movements: positions close to the ends of i32 (theorem positions_within_i32 says
        // exactly which of these streams the code must handle without overflow)
        let mut r = rng.fork();
        for _ in 0..n_vr / 6 {
            let n = 1 + r.below(8) as usize;
            let mut ops: Vec<Op> = vec![];
            for _ in 0..n {
                let big = |r: &mut Rng| -> i32 {
                    *r.pick(&[i32::MAX, i32::MIN + 1, 1 << 30, -(1 << 30), (1 << 30) - 1, 1 << 29, -(1 << 29), 715_827_882, -715_827_883, 1, -1, 0])
                };
                ops.push(match r.below(9) {
                    0 => Op::Right(big(&mut r)),
                    1 => Op::Down(big(&mut r)),
                    2 => Op::SetVar(var_of(r.below(4) as i64), big(&mut r)),
                    3 => Op::Move(var_of(r.below(4) as i64)),
                    4 => Op::Push,
                    5 => Op::Pop,
                    6 => Op::TypesetRule { height: 1, width: big(&mut r), move_h: r.chance(1, 2) },
                    7 => Op::TypesetChar { char: 65, move_h: r.chance(1, 2) },
                    _ => Op::BeginPage { parameters: [0; 10], previous_begin_page: -1 },
                });
            }
            v.push(format!("vr {}", join(&enc_ops(&ops))));
        }
        v
    }

    fn run_case(&mut self, case: &str, drv: &mut Driver) -> CaseOutcome {
        let mut out = CaseOutcome::default();
        let (cmd, rest) = case.split_once(' ').unwrap_or((case, ""));
        match cmd {
            "rt" => {
                let v = parse_i64s(rest);
                let ops = dec_ops(&mut Cur(&v));
                out.nontrivial = ops.iter().any(|o| !matches!(o, Op::NoOp | Op::EndPage | Op::Push | Op::Pop | Op::Move(_)));
                for o in &ops {
                    out.tag(format!("rt:{}", op_name(o)));
                }
                let reply = drv.ask(case);
                let parts: Vec<&str> = reply.split(" | ").collect();
                if parts.len() != 3 {
                    // an empty byte list prints as an empty field
                    let parts2: Vec<&str> = reply.split('|').map(|s| s.trim()).collect();
                    if parts2.len() != 3 {
                        panic!("driver reply malformed: {reply}");
                    }
                    return self.rt_compare(&ops, parts2[0], parts2[1], parts2[2], out);
                }
                self.rt_compare(&ops, parts[0], parts[1], parts[2], out)
            }
            "de" => {
                let bytes: Vec<u8> = parse_i64s(rest).into_iter().map(|x| x as u8).collect();
                out.nontrivial = bytes.len() >= 2;
                let m = canon_de_reply(&drv.ask(case));
                match caught(|| real_deserialize(&bytes)) {
                    Err(p) => out.fail(Kind::ImplPanic, "de", format!("panic {}", strip_msg(&p)), format!("Deserializer panicked: {p}")),
                    Ok((ops, err)) => {
                        out.tag(match &err {
                            Ok(()) => "de:ok",
                            Err(dvi::InvalidDviData::InvalidOpCode(_)) => "de:invalid-op-code",
                            Err(dvi::InvalidDviData::Truncated(_)) => "de:truncated",
                        });
                        let i = show_de(&ops, &err);
                        if i != m {
                            let first = bytes.first().copied().unwrap_or(0);
                            out.fail(Kind::ImplVsModel, "de", format!("de differs, first op code {first}"), format!("impl: {i}\nmodel: {m}"));
                        }
                    }
                }
                out
            }
            "vr" => {
                let v = parse_i64s(rest);
                let ops = dec_ops(&mut Cur(&v));
                out.nontrivial = ops.iter().any(|o| matches!(o, Op::Move(_) | Op::SetVar(..)));
                for o in &ops {
                    out.tag(format!("vr:{}", op_name(o)));
                }
                // hypothesis of theorem positions_within_i32: the movements sum to less than 2^31
                let mag: u128 = drv.ask(&format!("mag {rest}")).trim().parse().unwrap_or(u128::MAX);
                if mag >= 1 << 31 {
                    // positions leave i32: a checked build panics, an unchecked one wraps (outside the quantifier)
                    out.tag("vr:outside-i32");
                    out.nontrivial = false;
                    return out;
                }
                out.tag(if mag >= 1 << 30 { "vr:mag>=2^30" } else if mag >= 1 << 24 { "vr:mag>=2^24" } else { "vr:mag-small" });
                let m = drv.ask(case);
                match caught(|| dvi::transforms::VarRemover::new(ops.clone()).collect::<Vec<Op>>()) {
                    Err(p) => out.fail(Kind::ImplPanic, "vr", format!("panic {}", strip_msg(&p)), format!("VarRemover panicked: {p}")),
                    Ok(got) => {
                        let i = join(&enc_ops(&got));
                        if i != m {
                            out.fail(
                                Kind::ImplVsModel,
                                "vr",
                                format!("vr output differs: {}", diff_sig(&ops, &got)),
                                format!("impl: {i}\nmodel: {m}"),
                            );
                        }
                        // S on the real output
                        let verdict = drv.ask(&format!("chk {} {}", join(&enc_ops(&ops)), i));
                        if verdict != "pos=1 novars=1 others=1" {
                            out.fail(Kind::ImplVsSpec, "vr", format!("vr spec: {verdict}"), format!("input: {rest}\noutput: {i}\nverdict: {verdict}"));
                        }
                        // the repository's register tracker `dvi::Values` against the DVI standard's
                        // (the tracker `Track` of the spec): position and font at every character and rule
                        let want = drv.ask(&format!("pos {}", join(&enc_ops(&ops))));
                        let ops2 = ops.clone();
                        if let Ok(mine) = caught(move || {
                            let mut vals: dvi::Values = Default::default();
                            let mut o: Vec<i64> = vec![];
                            for op in &ops2 {
                                let mark = match op {
                                    Op::TypesetChar { char, move_h } => Some(vec![0, *char as i64, *move_h as i64]),
                                    Op::TypesetRule { height, width, move_h } => Some(vec![1, *height as i64, *width as i64, *move_h as i64]),
                                    _ => None,
                                };
                                if let Some(m) = mark {
                                    o.extend(m);
                                    o.push(vals.f() as i64);
                                    let (h, hc) = vals.h();
                                    o.extend([h as i64, vals.v() as i64, hc.len() as i64]);
                                    for (c, f) in hc {
                                        o.extend([*c as i64, *f as i64]);
                                    }
                                }
                                vals.update(op);
                            }
                            join(&o)
                        }) {
                            if mine != want {
                                out.fail(Kind::ImplVsModel, "vr", "dvi::Values: position or font at a character/rule differs from the DVI standard's registers",
                                    format!("input: {rest}\nValues: {mine}\nspec:   {want}"));
                            }
                        }
                    }
                }
                out
            }
            "bin" => {
                let (old, bytes_s) = rest.split_once(' ').unwrap_or((rest, ""));
                let old: usize = old.parse().unwrap_or(0);
                let bytes: Vec<u8> = parse_i64s(bytes_s).into_iter().map(|x| x as u8).collect();
                out.nontrivial = bytes.len() >= 2;
                if self.dvitools.is_none() {
                    self.dvitools = Some(build_dvitools(&self.repo, &self.verif));
                }
                let Some(Some(exe)) = self.dvitools.clone() else {
                    out.fail(Kind::ImplVsModel, "bin", "dvitools does not build", "cargo build -p dvi-bin --bin dvitools failed".to_string());
                    return out;
                };
                let dir = format!("{}/.work/c16-bin-{}", self.verif, std::process::id());
                let _ = std::fs::create_dir_all(&dir);
                let (inp, outp) = (format!("{dir}/in.dvi"), format!("{dir}/out.dvi"));
                std::fs::write(&inp, &bytes).unwrap();
                let _ = std::fs::remove_file(&outp);
                if old > 0 {
                    // a previous, unrelated output of `old` bytes (valid DVI no-ops)
                    std::fs::write(&outp, vec![138u8; old]).unwrap();
                }
                let st = std::process::Command::new(&exe).args(["normalize", &inp, &outp])
                    .stdout(std::process::Stdio::null()).stderr(std::process::Stdio::null()).status();
                let m = drv.ask(&format!("nz {}", join(&bytes)));
                out.tag(format!("bin:old={}", if old == 0 { "absent" } else if old < 50 { "shorter" } else { "longer" }));
                match (st, m.strip_prefix("ok")) {
                    (Ok(st), Some(want)) => {
                        out.tag("bin:ok");
                        let got = std::fs::read(&outp).unwrap_or_default();
                        if !st.success() {
                            out.fail(Kind::ImplVsSpec, "bin", "dvitools normalize fails on a valid stream", format!("exit {st:?}"));
                        } else if join(&got) != want.trim() {
                            let sig = if got.len() > want.split_whitespace().count() && join(&got).starts_with(want.trim()) {
                                "dvitools normalize: stale bytes after the normalized stream"
                            } else {
                                "dvitools normalize: output file differs"
                            };
                            out.fail(Kind::ImplVsSpec, "bin", sig, format!("file: {}\nwant: {}", join(&got), want.trim()));
                        }
                    }
                    (Ok(st), None) => {
                        out.tag("bin:invalid-input");
                        if st.success() {
                            out.fail(Kind::ImplVsModel, "bin", "dvitools normalize accepts invalid data", m.clone());
                        } else {
                            // a failed run leaves the output path as it was (absent, or the old file)
                            let now = std::fs::read(&outp).ok();
                            let before = if old > 0 { Some(vec![138u8; old]) } else { None };
                            if now != before {
                                out.fail(Kind::ImplVsModel, "bin", "dvitools normalize reports an error but has written the output file",
                                    format!("output now: {:?} bytes, before: {:?} bytes", now.map(|v| v.len()), before.map(|v| v.len())));
                            }
                        }
                    }
                    (Err(e), _) => out.fail(Kind::ImplVsModel, "bin", "dvitools cannot be run", e.to_string()),
                }
                let _ = std::fs::remove_dir_all(&dir);
                out
            }
            "nzb" => {
                let bytes: Vec<u8> = parse_i64s(rest).into_iter().map(|x| x as u8).collect();
                out.nontrivial = bytes.len() >= 2;
                let m = drv.ask(&format!("nzq {}", join(&bytes)));
                let b2 = bytes.clone();
                let r = caught(move || {
                    let mut result = Ok(());
                    let ops1: Vec<Op> = dvi::Deserializer::new(&b2, &mut result).collect();
                    if result.is_err() {
                        return None;
                    }
                    let want: Vec<Op> = dvi::transforms::VarRemover::new(ops1.clone()).collect();
                    let written = dvi::serialize(want.clone());
                    let (back, err) = real_deserialize(&written);
                    Some((ops1.len(), want, written, back, err))
                });
                match (r, m.strip_prefix("ok ")) {
                    (Err(p), _) => out.fail(Kind::ImplPanic, "nzb", format!("panic {}", strip_msg(&p)), format!("normalize pipeline panicked: {p}")),
                    (Ok(None), None) => out.tag("nzb:invalid-input"),
                    (Ok(None), Some(_)) => out.fail(Kind::ImplVsModel, "nzb", "reader rejects a stream the model reads", m.clone()),
                    (Ok(Some(_)), None) => out.fail(Kind::ImplVsModel, "nzb", "reader accepts a stream the model rejects", m.clone()),
                    (Ok(Some((n1, want, written, back, err))), Some(mrest)) => {
                        let (p52, mbytes) = mrest.split_once(' ').unwrap_or((mrest, ""));
                        out.tag(format!("nzb:ok:p52free={p52}"));
                        out.tag(format!("nzb:ops={}", if n1 < 4 { "1-3" } else if n1 < 12 { "4-11" } else { "12+" }));
                        if written.len() < bytes.len() {
                            out.tag("nzb:input-not-minimal");
                        }
                        if join(&written) != mbytes.trim() {
                            out.fail(Kind::ImplVsSpec, "nzb", "normalize: bytes differ from serAll (varRemove (deserialize b))", format!("impl: {}\nspec: {}", join(&written), mbytes.trim()));
                        } else if p52 == "1" && (err.is_err() || back != want) {
                            // theorem normalize_bytes, on the implementation
                            out.fail(Kind::ImplVsSpec, "nzb", format!("normalize: output does not read back as the rewritten operations ({})", diff_sig(&want, &back)),
                                format!("rewritten: {}\nread back: {}", show_de(&want, &Ok(())), show_de(&back, &err)));
                        }
                    }
                }
                out
            }
            _ => panic!("bad case {case}"),
        }
    }

    fn shrink(&self, case: &str) -> Vec<String> {
        let (cmd, rest) = case.split_once(' ').unwrap_or((case, ""));
        let mut c = vec![];
        match cmd {
            "rt" | "vr" => {
                let v = parse_i64s(rest);
                let ops = dec_ops(&mut Cur(&v));
                // drop halves, then single ops
                if ops.len() > 1 {
                    c.push(format!("{cmd} {}", join(&enc_ops(&ops[..ops.len() / 2]))));
                    c.push(format!("{cmd} {}", join(&enc_ops(&ops[ops.len() / 2..]))));
                    for i in 0..ops.len() {
                        let mut o = ops.clone();
                        o.remove(i);
                        c.push(format!("{cmd} {}", join(&enc_ops(&o))));
                    }
                }
            }
            "de" => {
                let b = parse_i64s(rest);
                if b.len() > 1 {
                    c.push(format!("de {}", join(&b[..b.len() / 2])));
                    c.push(format!("de {}", join(&b[b.len() / 2..])));
                    for i in 0..b.len() {
                        let mut o = b.clone();
                        o.remove(i);
                        c.push(format!("de {}", join(&o)));
                    }
                }
            }
            "nzb" => {
                // drop one operation's bytes at a time (boundaries as the real reader sees them)
                let b: Vec<u8> = parse_i64s(rest).into_iter().map(|x| x as u8).collect();
                let mut cuts = vec![0usize];
                let mut cur: &[u8] = &b;
                while let Ok(Some((_, tail))) = Op::deserialize(cur) {
                    cuts.push(b.len() - tail.len());
                    cur = tail;
                }
                if cuts.len() > 2 {
                    let mid = cuts[cuts.len() / 2];
                    c.push(format!("nzb {}", join(&b[..mid])));
                    c.push(format!("nzb {}", join(&b[mid..])));
                    for w in cuts.windows(2) {
                        let mut o = b[..w[0]].to_vec();
                        o.extend_from_slice(&b[w[1]..]);
                        c.push(format!("nzb {}", join(&o)));
                    }
                }
            }
            _ => {}
        }
        c
    }
}

impl C16 {
    fn rt_compare(&mut self, ops: &[Op], wf: &str, m_bytes: &str, m_de: &str, mut out: CaseOutcome) -> CaseOutcome {
        let bytes = match caught(|| dvi::serialize(ops.to_vec())) {
            Ok(b) => b,
            Err(p) => {
                out.fail(Kind::ImplPanic, "ser", format!("panic {}", strip_msg(&p)), format!("serialize panicked: {p}"));
                return out;
            }
        };
        let i_bytes = join(&bytes);
        if i_bytes != m_bytes.trim() {
            // signature: the first op whose own encoding differs
            let mut sig = "ser differs".to_string();
            for op in ops {
                let one = dvi::serialize(vec![op.clone()]);
                let _ = one;
                sig = format!("ser differs near {}", op_name(op));
                break;
            }
            out.fail(Kind::ImplVsModel, "ser", sig, format!("impl bytes: {i_bytes}\nmodel bytes: {m_bytes}"));
        }
        match caught(|| real_deserialize(&bytes)) {
            Err(p) => out.fail(Kind::ImplPanic, "de_ser", format!("panic {}", strip_msg(&p)), format!("Deserializer panicked on serialised ops: {p}")),
            Ok((got, err)) => {
                let i = show_de(&got, &err);
                if i != canon_de_reply(m_de) {
                    out.fail(Kind::ImplVsModel, "de_ser", format!("de(ser) differs: {}", diff_sig(ops, &got)), format!("impl: {i}\nmodel: {m_de}"));
                }
                // S: identical sequence, no error (all bytes consumed: the iterator only stops at end of data)
                let ok = got == ops && err.is_ok();
                if wf == "1" {
                    out.tag("rt:in-quantifier");
                    if !ok {
                        out.fail(
                            Kind::ImplVsSpec,
                            "de_ser",
                            format!("round trip: {}", diff_sig(ops, &got)),
                            format!("ops: {}\nbytes: {i_bytes}\nread back: {i}", join(&enc_ops(ops))),
                        );
                    }
                } else {
                    out.tag("rt:outside-quantifier");
                    // Outside SeqWF the only listed boundary is the 223 absorption (C16-a) and
                    // over-long strings; report a failed round trip so that it is either a
                    // known finding or a new one.
                    if !ok {
                        let long_string = ops.iter().any(|o| match o {
                            Op::DefineFont { area, name, .. } => area.len() > 255 || name.len() > 255,
                            Op::Preamble { comment, .. } => comment.len() > 255,
                            _ => false,
                        });
                        if !long_string {
                            // C16-a is labelled as such only when the model reproduces what was read
                            // back exactly (so the only deviation is the absorbed fnt_num_52 byte)
                            let c16a = i == canon_de_reply(m_de)
                                && ops.windows(2).any(|w| matches!(w[0], Op::EndPostamble { .. }) && w[1] == Op::EnableFont(52));
                            out.fail(
                                Kind::ImplVsSpec,
                                "de_ser",
                                if c16a { "round trip: EnableFont(52) directly after EndPostamble is absorbed as padding".to_string() } else { format!("round trip: {}", diff_sig(ops, &got)) },
                                format!("ops: {}\nbytes: {i_bytes}\nread back: {i}", join(&enc_ops(ops))),
                            );
                        }
                    }
                }
            }
        }
        out
    }
}

fn main() {
    let a = parse_args();
    run(C16 { max_len: 200, dvitools: None, repo: a.repo, verif: a.verif });
}
