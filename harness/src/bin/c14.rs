//! C14 — hyphenating a horizontal list changes nothing unless a break is taken.
//!
//! Case (one ASCII line): `<lhm> <rhm> / <font> / <hyph> / <tokens>`
//!   font  : `cmr10` (the real lig/kern program of cmr10.tfm) or `P:<op>;<op>;…` — cmr10 with its
//!           lig/kern program replaced by the compact program (`ab->ax^b`, `ab->a[100]b`; `|` =
//!           boundary), exactly as boxworks-hyphenate's own tests build fonts;
//!   hyph  : `plain` (`Hyphenator::plain_tex_en_us`) or `H:<patterns>:<exceptions>` (comma lists,
//!           `_` = none): a fresh `hyphenate::Hyphenator` with `load_patterns`/`insert_exceptions`;
//!   tokens: space separated. `_` = `add_space` (glue); `\pN` penalty; `\kN` explicit kern; `\aN`
//!           accent kern; `\nN` normal kern; `\h` hbox; `\v` vbox; `\r` rule; `\mb`/`\ma` math;
//!           `\fN` = `activate_font(N)` (N = 0, 1: the same font file under two numbers); `\M`
//!           mark; `\I` insertion; `\A` adjust; `\w` whatsit; `\d` empty discretionary; anything
//!           else = `add_word(token)` through the real `TextPreprocessorImpl`.
//!
//! I = the real `boxworks_hyphenate::Hyphenator::hyphenate` on the real list.
//! M = `C14.findWords` + `C14.wordPositions` (raw Liang positions per word come from the real
//!     `hyphenate` crate — that tie is property C13).
//! S = `C14.P1`, `C14.P2` and the position check against `C14.specWords`/`C14.specPositions`, all
//!     evaluated by the Lean driver on the REAL output.

use boxworks::ds;
use boxworks::TextPreprocessor;
use boxworks_text as bwt;
use std::collections::HashMap;
use std::rc::Rc;
use vh::*;

#[derive(Debug)]
struct W(i64);
impl ds::Whatsit for W {}

struct Font {
    file: tfm::File,
    prog: tfm::ligkern::CompiledProgram,
    loops: usize,
    /// The lig/kern program in C05's encoding (kerns scaled by the real `to_scaled`); `None` if
    /// `to_scaled` panics (C17's subject).
    enc: Option<String>,
}

const FORMS: [tfm::ligkern::lang::PostLigOperation; 8] = {
    use tfm::ligkern::lang::PostLigOperation::*;
    [
        RetainBothMoveNowhere,
        RetainBothMoveToInserted,
        RetainBothMoveToRight,
        RetainRightMoveToInserted,
        RetainRightMoveToRight,
        RetainLeftMoveNowhere,
        RetainLeftMoveToInserted,
        RetainNeitherMoveToInserted,
    ]
};

/// `rb lb nE (c e)* nK k* nI (next right kind x y)*` — the encoding of `Driver/C05.lean`: the
/// program exactly as `compile_from_tfm_file` hands it to `compile` (after `pack_entrypoints` /
/// `unpack_entrypoint`), kern payloads scaled with the real `FixWord::to_scaled`.
fn enc_program(file: &mut tfm::File) -> Option<String> {
    use tfm::ligkern::lang::Operation;
    let ds = file.header.design_size;
    let mut entries: Vec<(i64, i64)> = file
        .lig_kern_entrypoints()
        .into_iter()
        .filter_map(|(c, e)| file.lig_kern_program.unpack_entrypoint(e).ok().map(|e| (c.0 as i64, e as i64)))
        .collect();
    entries.sort();
    let p = &file.lig_kern_program;
    let kerns = file.kerns.clone();
    caught(|| {
        let mut v: Vec<i64> = vec![
            p.right_boundary_char.map(|c| c.0 as i64).unwrap_or(-1),
            p.left_boundary_char_entrypoint.map(|e| e as i64).unwrap_or(-1),
            entries.len() as i64,
        ];
        for (c, e) in &entries {
            v.extend([*c, *e]);
        }
        v.push(kerns.len() as i64);
        v.extend(kerns.iter().map(|k| k.to_scaled(ds).0 as i64));
        v.push(p.instructions.len() as i64);
        for i in &p.instructions {
            let nx = i.next_instruction.map(|n| n as i64).unwrap_or(-1);
            let r = i.right_char.0 as i64;
            v.extend(match i.operation {
                Operation::Kern(k) => [nx, r, 0, k.to_scaled(ds).0 as i64, 0],
                Operation::KernAtIndex(x) => [nx, r, 1, x as i64, 0],
                Operation::Ligature { char_to_insert, post_lig_operation, .. } => {
                    [nx, r, 2, char_to_insert.0 as i64, FORMS.iter().position(|f| *f == post_lig_operation).unwrap() as i64]
                }
                Operation::EntrypointRedirect(u, b) => [nx, r, 3, u as i64, b as i64],
            });
        }
        join(&v)
    })
    .ok()
}

fn enc_run_item(it: &tfm::ligkern::RunItem, sep: bool, o: &mut Vec<i64>) {
    use tfm::ligkern::RunItem::*;
    match it {
        Char(c) => o.extend([0, *c as i64, sep as i64]),
        Kern(k) => o.extend([1, k.0 as i64, sep as i64]),
        Ligature(l) => {
            o.extend([2, l.c as i64, l.includes_left_boundary as i64, l.includes_right_boundary as i64, l.original.chars().count() as i64]);
            o.extend(l.original.chars().map(|c| c as i64));
            o.push(sep as i64);
        }
    }
}

struct C14 {
    cmr10_bytes: Vec<u8>,
    fonts: HashMap<String, Option<Rc<Font>>>,
    plain: Option<boxworks_hyphenate::Hyphenator>,
    /// the font whose program the driver currently holds (`prog` request)
    last_prog: Option<String>,
}

// ---------------------------------------------------------------------------------------------
// Case parsing
// ---------------------------------------------------------------------------------------------

struct Case {
    lhm: i32,
    rhm: i32,
    font: String,
    hyph: String,
    tokens: Vec<String>,
}

fn parse_case(s: &str) -> Option<Case> {
    let f: Vec<&str> = s.split(" / ").collect();
    if f.len() != 4 {
        return None;
    }
    let mm: Vec<&str> = f[0].split(' ').collect();
    if mm.len() != 2 {
        return None;
    }
    Some(Case {
        lhm: mm[0].parse().ok()?,
        rhm: mm[1].parse().ok()?,
        font: f[1].to_string(),
        hyph: f[2].to_string(),
        tokens: f[3].split(' ').filter(|t| !t.is_empty()).map(|t| t.to_string()).collect(),
    })
}

fn show_case(c: &Case) -> String {
    format!("{} {} / {} / {} / {}", c.lhm, c.rhm, c.font, c.hyph, c.tokens.join(" "))
}

fn compact_program(font: &str) -> Option<String> {
    let ops = font.strip_prefix("P:")?;
    let mut s = String::new();
    for op in ops.split(';') {
        if op.is_empty() {
            continue;
        }
        let (l, r) = op.split_once("->")?;
        s.push_str(&format!("{l} -> {r}\n"));
    }
    Some(s)
}

impl C14 {
    fn font(&mut self, name: &str) -> Option<Rc<Font>> {
        if let Some(f) = self.fonts.get(name) {
            return f.clone();
        }
        let built = (|| {
            let mut file = tfm::File::deserialize(&self.cmr10_bytes).0.ok()?;
            if name != "cmr10" {
                let text = compact_program(name)?;
                let (p, e) = tfm::ligkern::lang::Program::parse_compact(&text).ok()?;
                file.replace_lig_kern_program(p, e);
            }
            let (prog, errs) = tfm::ligkern::CompiledProgram::compile_from_tfm_file(&mut file);
            let enc = enc_program(&mut file);
            Some(Rc::new(Font { file, prog, loops: errs.len(), enc }))
        })();
        if self.fonts.len() > 20_000 {
            self.fonts.clear();
        }
        self.fonts.insert(name.to_string(), built.clone());
        built
    }
}

fn build_list(font: &Font, tokens: &[String]) -> Vec<ds::Horizontal> {
    let mut tp = bwt::TextPreprocessorImpl::new(bwt::Params::plain_tex_defaults());
    tp.register_font(0, &font.file, font.prog.clone());
    tp.register_font(1, &font.file, font.prog.clone());
    tp.activate_font(0);
    let mut list: Vec<ds::Horizontal> = vec![];
    let mut id = 1i32;
    for t in tokens {
        id += 1;
        let num = |t: &str| -> i32 { t[2..].parse().unwrap_or(0) };
        if t == "_" {
            tp.add_space(&mut list);
        } else if let Some(rest) = t.strip_prefix('\\') {
            let sc = |n: i32| common::Scaled(n);
            match rest.chars().next() {
                Some('p') => list.push(ds::Penalty(num(t)).into()),
                Some('k') => list.push(ds::Kern { width: sc(num(t)), kind: ds::KernKind::Explicit }.into()),
                Some('a') => list.push(ds::Kern { width: sc(num(t)), kind: ds::KernKind::Accent }.into()),
                Some('n') => list.push(ds::Kern { width: sc(num(t)), kind: ds::KernKind::Normal }.into()),
                Some('h') => {
                    let mut b = ds::HBox::default();
                    b.width = sc(id);
                    list.push(b.into());
                }
                Some('v') => {
                    let mut b = ds::VBox::default();
                    b.width = sc(id);
                    list.push(b.into());
                }
                Some('r') => {
                    let mut r = ds::Rule::new();
                    r.width = sc(id);
                    list.push(r.into());
                }
                Some('m') => list.push(if rest == "ma" { ds::Math::After } else { ds::Math::Before }.into()),
                Some('f') => tp.activate_font(if num(t) == 1 { 1 } else { 0 }),
                Some('M') => list.push(ds::Mark { list: vec![] }.into()),
                Some('I') => list.push(
                    ds::Insertion {
                        box_number: (id % 200) as u8,
                        height: sc(0),
                        split_max_depth: sc(0),
                        split_top_skip: common::Glue::default(),
                        float_penalty: 0,
                        vbox: vec![],
                    }
                    .into(),
                ),
                Some('A') => list.push(ds::Adjust { list: vec![] }.into()),
                Some('w') => list.push(ds::Horizontal::Whatsit(Rc::new(W(id as i64)))),
                Some('d') => list.push(ds::Discretionary::default().into()),
                _ => tp.add_word(t, &mut list),
            }
        } else {
            tp.add_word(t, &mut list);
        }
    }
    list
}

// ---------------------------------------------------------------------------------------------
// Encoding of the real list for the Lean driver
// ---------------------------------------------------------------------------------------------

fn enc_lig(l: &ds::Ligature, o: &mut Vec<i64>) {
    o.extend([1, l.char as i64, l.font as i64, l.includes_left_boundary as i64, l.includes_right_boundary as i64]);
    o.push(l.original_chars.chars().count() as i64);
    o.extend(l.original_chars.chars().map(|c| c as i64));
}

fn kern_kind(k: ds::KernKind) -> i64 {
    match k {
        ds::KernKind::Normal => 0,
        ds::KernKind::Explicit => 1,
        ds::KernKind::Accent => 2,
        ds::KernKind::Math => 3,
    }
}

fn enc_delem(e: &ds::DiscretionaryElem, o: &mut Vec<i64>) {
    use ds::DiscretionaryElem::*;
    match e {
        Char(c) => o.extend([0, c.char as i64, c.font as i64]),
        Ligature(l) => enc_lig(l, o),
        // a non-normal kern inside a discretionary never comes from the hyphenator: keep it apart
        Kern(k) => {
            if k.kind == ds::KernKind::Normal {
                o.extend([2, k.width.0 as i64])
            } else {
                o.extend([3, 10 + kern_kind(k.kind)])
            }
        }
        HBox(_) => o.extend([3, 0]),
        VBox(_) => o.extend([3, 1]),
        Rule(_) => o.extend([3, 2]),
    }
}

fn enc_item(h: &ds::Horizontal, o: &mut Vec<i64>) {
    use ds::Horizontal::*;
    let order = |g: common::GlueOrder| match g {
        common::GlueOrder::Normal => 0i64,
        common::GlueOrder::Fil => 1,
        common::GlueOrder::Fill => 2,
        common::GlueOrder::Filll => 3,
    };
    match h {
        Char(c) => o.extend([0, c.char as i64, c.font as i64]),
        Ligature(l) => enc_lig(l, o),
        Kern(k) => o.extend([2, kern_kind(k.kind), k.width.0 as i64]),
        Glue(g) => {
            let v = &g.value;
            o.extend([3, 0, 6, v.width.0 as i64, v.stretch.0 as i64, order(v.stretch_order), v.shrink.0 as i64, order(v.shrink_order), g.kind.clone() as i64]);
        }
        Penalty(p) => o.extend([3, 1, 1, p.0 as i64]),
        Whatsit(w) => {
            let d = format!("{w:?}");
            let id: i64 = d.trim_start_matches("W(").trim_end_matches(')').parse().unwrap_or(-1);
            o.extend([3, 2, 1, id]);
        }
        Math(m) => o.extend([3, 3, 1, matches!(m, ds::Math::After) as i64]),
        HBox(b) => o.extend([3, 4, 2, b.width.0 as i64, b.list.len() as i64]),
        VBox(b) => o.extend([3, 5, 2, b.width.0 as i64, b.list.len() as i64]),
        Rule(r) => o.extend([3, 6, 3, r.width.0 as i64, r.height.0 as i64, r.depth.0 as i64]),
        Mark(_) => o.extend([3, 7, 0]),
        Insertion(i) => o.extend([3, 8, 1, i.box_number as i64]),
        Adjust(_) => o.extend([3, 9, 0]),
        Discretionary(d) => {
            o.extend([4, d.replace_count as i64, d.pre_break.len() as i64]);
            for e in &d.pre_break {
                enc_delem(e, o);
            }
            o.push(d.post_break.len() as i64);
            for e in &d.post_break {
                enc_delem(e, o);
            }
        }
    }
}

fn enc_list(l: &[ds::Horizontal]) -> Vec<i64> {
    let mut o = vec![l.len() as i64];
    for h in l {
        enc_item(h, &mut o);
    }
    o
}

fn show_list(l: &[ds::Horizontal]) -> String {
    use ds::Horizontal::*;
    let de = |e: &ds::DiscretionaryElem| match e {
        ds::DiscretionaryElem::Char(c) => format!("{}", c.char),
        ds::DiscretionaryElem::Ligature(l) => format!(
            "lig({}<{}{}{})",
            l.char,
            if l.includes_left_boundary { "|" } else { "" },
            l.original_chars,
            if l.includes_right_boundary { "|" } else { "" }
        ),
        ds::DiscretionaryElem::Kern(_) => "kern".into(),
        _ => "box".into(),
    };
    l.iter()
        .map(|h| match h {
            Char(c) => format!("{}{}", c.char, if c.font != 0 { format!("@{}", c.font) } else { "".into() }),
            Ligature(l) => format!(
                "lig({}<{}{}{})",
                l.char.escape_default(),
                if l.includes_left_boundary { "|" } else { "" },
                l.original_chars,
                if l.includes_right_boundary { "|" } else { "" }
            ),
            Kern(k) => format!("kern{}", kern_kind(k.kind)),
            Glue(_) => "glue".into(),
            Penalty(_) => "pen".into(),
            Discretionary(d) => format!(
                "disc[{}|{}|{}]",
                d.pre_break.iter().map(de).collect::<Vec<_>>().join(""),
                d.post_break.iter().map(de).collect::<Vec<_>>().join(""),
                d.replace_count
            ),
            Whatsit(_) => "whatsit".into(),
            Math(_) => "math".into(),
            HBox(_) => "hbox".into(),
            VBox(_) => "vbox".into(),
            Rule(_) => "rule".into(),
            Mark(_) => "mark".into(),
            Insertion(_) => "ins".into(),
            Adjust(_) => "adjust".into(),
        })
        .collect::<Vec<_>>()
        .join(" ")
}

// ---------------------------------------------------------------------------------------------
// Branch tags of the word discovery (histogram only — nothing here is compared)
// ---------------------------------------------------------------------------------------------

fn letter_start(h: &ds::Horizontal) -> Option<u32> {
    match h {
        ds::Horizontal::Char(c) if c.char.is_ascii_alphabetic() => Some(c.font),
        ds::Horizontal::Ligature(l) if l.original_chars.chars().next().map(|c| c.is_ascii_alphabetic()).unwrap_or(false) => Some(l.font),
        _ => None,
    }
}

fn kind_name(h: &ds::Horizontal) -> &'static str {
    use ds::Horizontal::*;
    match h {
        Char(_) => "char",
        Ligature(_) => "lig",
        Kern(k) => match k.kind {
            ds::KernKind::Normal => "kern-normal",
            _ => "kern-other",
        },
        Glue(_) => "glue",
        Penalty(_) => "penalty",
        Whatsit(_) => "whatsit",
        Math(_) => "math",
        HBox(_) => "hbox",
        VBox(_) => "vbox",
        Rule(_) => "rule",
        Mark(_) => "mark",
        Insertion(_) => "ins",
        Adjust(_) => "adjust",
        Discretionary(_) => "disc",
    }
}

fn discovery_tags(list: &[ds::Horizontal], words: &[(usize, usize, u32, String)], out: &mut CaseOutcome) {
    use ds::Horizontal::*;
    for (g, h) in list.iter().enumerate() {
        if !matches!(h, Glue(_)) {
            continue;
        }
        let mut k = g + 1;
        let mut skipped = 0;
        loop {
            match list.get(k) {
                None => {
                    out.tag("seek:end-of-list");
                    break;
                }
                Some(n) => {
                    if letter_start(n).is_some() {
                        out.tag("seek:start");
                        if skipped > 0 {
                            out.tag(format!("seek:start-after-skipping"));
                        }
                        if !words.iter().any(|w| w.0 == k) {
                            // the search started a word that the model does not report: the terminating
                            // node forbids it (or the starting ligature is mixed: empty s)
                            let mut j = k;
                            while let Some(Char(_) | Ligature(_)) = list.get(j) {
                                j += 1;
                            }
                            while let Some(m) = list.get(j) {
                                let stepped = match m {
                                    Char(_) | Ligature(_) => true,
                                    Kern(kk) => kk.kind == ds::KernKind::Normal,
                                    _ => false,
                                };
                                if !stepped {
                                    break;
                                }
                                j += 1;
                            }
                            out.tag(format!("word-rejected-before:{}", list.get(j).map(kind_name).unwrap_or("end")));
                        }
                        break;
                    }
                    let skip = match n {
                        Char(_) | Ligature(_) | Whatsit(_) => true,
                        Kern(kk) => kk.kind == ds::KernKind::Normal,
                        _ => false,
                    };
                    if skip {
                        out.tag(format!("seek:skip-{}", kind_name(n)));
                        skipped += 1;
                        k += 1;
                    } else {
                        out.tag(format!("seek:abort-{}", kind_name(n)));
                        if skipped > 0 && matches!(n, Glue(_)) {
                            out.tag("seek:abort-glue-after-letterless-token");
                        }
                        break;
                    }
                }
            }
        }
    }
    for (start, nodes, font, s) in words {
        out.tag("word");
        if s.len() == 63 {
            out.tag("word:63-letters");
        }
        let body = &list[*start..start + nodes];
        if body.iter().any(|n| matches!(n, Ligature(_))) {
            out.tag("word:has-ligature");
        }
        if body.iter().any(|n| matches!(n, Kern(_))) {
            out.tag("word:has-kern");
        }
        match list.get(start + nodes) {
            None => out.tag("stop:end-of-list"),
            Some(n) => match n {
                Char(c) if c.font != *font => out.tag("stop:other-font"),
                Char(c) if !c.char.is_ascii_alphabetic() => out.tag("stop:non-letter"),
                Char(_) => out.tag("stop:cap"),
                Ligature(l) if l.font != *font => out.tag("stop:other-font"),
                Ligature(l) if !l.original_chars.chars().all(|c| c.is_ascii_alphabetic()) => out.tag("stop:lig-non-letter"),
                Ligature(_) => out.tag("stop:cap-lig"),
                n => out.tag(format!("stop:{}", kind_name(n))),
            },
        }
        if *start > 0 && !matches!(list[start - 1], Glue(_)) {
            out.tag("word:after-skipped-nodes");
        }
    }
}

// ---------------------------------------------------------------------------------------------
// The property
// ---------------------------------------------------------------------------------------------

fn field<'a>(reply: &'a str, key: &str) -> &'a str {
    for w in reply.split(' ') {
        if let Some(v) = w.strip_prefix(key) {
            if let Some(v) = v.strip_prefix('=') {
                return v;
            }
        }
    }
    ""
}

const WORDS: &[&str] = &[
    "difficult", "office", "affliction", "shuffle", "waffle", "efficient", "baffling", "fluffy", "coffin", "flat",
    "find", "Contents", "hyphenation", "affinity", "different", "afflict", "reflect", "conflict", "fifty", "stuffing",
    "AVATAR", "Table", "WAVE", "Toyota", "keyword", "journey", "baby", "sneezing", "aftershock", "halflife",
    "supercalifragilisticexpialidocious", "a", "I", "an", "of", "the", "fi", "ffi", "offbeat", "cufflink", "wolffish",
    "shelfful", "representation", "typographical", "discretionary", "ligature", "kerning", "boundary",
];
const PUNCT: &[&str] = &["3.0", ".", ",", "1,000", "--", "---", "``", "''", "!`", "?`", "(", ")", "42", ";", ":", "!", "?", "'", "`", "7"];
const NODES: &[&str] = &[
    "\\p0", "\\p10000", "\\k1000", "\\a500", "\\h", "\\v", "\\r", "\\mb", "\\ma", "\\f1", "\\f0", "\\M", "\\I", "\\A", "\\w", "\\d",
];

fn long_word(rng: &mut Rng, n: usize) -> String {
    let parts = ["dif", "fi", "cult", "of", "fice", "shuf", "fle", "ta", "ble", "con", "tents", "af", "flic", "tion", "hy", "phen", "a"];
    let mut s = String::new();
    while s.len() < n {
        s.push_str(*rng.pick(&parts));
    }
    s.truncate(n);
    s
}

fn gen_text_case(rng: &mut Rng) -> String {
    let lhm = if rng.chance(1, 12) { *rng.pick(&[-1, 5, 7, 64]) } else { rng.range(0, 4) };
    let rhm = if rng.chance(1, 12) { *rng.pick(&[-1, 5, 7, 64]) } else { rng.range(0, 4) };
    let mut toks: Vec<String> = vec![];
    let mut cur_font = 0i32;
    let n = rng.range(1, 8);
    if rng.chance(5, 6) {
        toks.push("x".into());
        toks.push("_".into());
    }
    for _ in 0..n {
        let mut w = match rng.below(20) {
            0..=9 => rng.pick(WORDS).to_string(),
            10 | 11 => {
                let k = rng.range(2, 12) as usize;
                long_word(rng, k)
            }
            12 => {
                let k = *rng.pick(&[62usize, 63, 64, 65, 70, 130]);
                long_word(rng, k)
            }
            13 | 14 => rng.pick(PUNCT).to_string(),
            15 => format!("{}-{}", rng.pick(WORDS), rng.pick(WORDS)),
            16 => rng.pick(WORDS).to_uppercase(),
            17 => format!("{}{}", rng.pick(PUNCT), rng.pick(WORDS)),
            _ => rng.pick(WORDS).to_string(),
        };
        if rng.chance(1, 5) {
            w.push_str(*rng.pick(&[".", ",", ";", "!", "?", "'", "''", ")", "-", "--", "1"]));
        }
        if rng.chance(1, 10) {
            w = format!("{}{}", rng.pick(&["(", "``", "`", "3", "-"]), w);
        }
        toks.push(w);
        // what follows the word (two words are never adjacent in the same font: each maximal run
        // of characters goes through one `add_word`, as in a list produced from text)
        let mut node = |rng: &mut Rng, cur: &mut i32| -> String {
            let t = rng.pick(NODES).to_string();
            if t.starts_with("\\f") {
                *cur = 1 - *cur;
                format!("\\f{}", *cur)
            } else {
                t
            }
        };
        match rng.below(12) {
            0..=6 => toks.push("_".into()),
            7 | 8 => {
                toks.push(node(rng, &mut cur_font));
                if rng.chance(1, 2) {
                    toks.push("_".into());
                }
            }
            9 => {
                toks.push("_".into());
                toks.push(node(rng, &mut cur_font));
            }
            10 => {
                toks.push("_".into());
                toks.push(rng.pick(PUNCT).to_string());
                toks.push("_".into());
            }
            _ => {
                cur_font = 1 - cur_font;
                toks.push(format!("\\f{cur_font}"));
            }
        }
    }
    format!("{lhm} {rhm} / cmr10 / plain / {}", toks.join(" "))
}

const LEFTS: &[char] = &['a', 'b', 'c', 'd', 'x', 'y', '-', '|'];
const RIGHTS: &[char] = &['a', 'b', 'c', 'd', 'x', 'y', '-', '|', '.', ','];
const REPL: &[char] = &['x', 'y', 'z', 'a', 'b', 'c', '-', '.', ','];
const TEMPLATES: &[&str] = &["L^XR", "LX^R", "LXR^", "L^X_", "LX^_", "_X^R", "_XR^", "_X^_", "K"];

fn mk_op(l: char, r: char, x: char, t: &str, k: i64) -> String {
    if t == "K" {
        return format!("{l}{r}->{l}[{k}]{r}");
    }
    let body: String = t
        .chars()
        .map(|c| match c {
            'L' => l,
            'R' => r,
            'X' => x,
            c => c,
        })
        .collect();
    format!("{l}{r}->{body}")
}

fn gen_op(rng: &mut Rng) -> String {
    let l = *rng.pick(LEFTS);
    let mut r = *rng.pick(RIGHTS);
    if l == '|' && r == '|' {
        r = 'a';
    }
    let x = *rng.pick(REPL);
    let t = rng.pick(TEMPLATES);
    mk_op(l, r, x, t, *rng.pick(&[100, 200, -50]))
}

fn gen_syn_word(rng: &mut Rng) -> String {
    let n = rng.range(2, 7);
    (0..n).map(|_| *rng.pick(&['a', 'b', 'c', 'd', 'a', 'b'])).collect()
}

/// Some letters of the text in upper case (the exceptions stay lower case: \lccode handling).
fn mixed_case(rng: &mut Rng, w: &str) -> String {
    if !rng.chance(1, 6) {
        return w.to_string();
    }
    w.chars().map(|c| if rng.chance(1, 2) { c.to_ascii_uppercase() } else { c }).collect()
}

fn hyphenate_at_random(rng: &mut Rng, w: &str) -> String {
    let mut s = String::new();
    for (i, c) in w.chars().enumerate() {
        if i > 0 && rng.chance(2, 5) {
            s.push('-');
        }
        s.push(c);
    }
    s
}

fn gen_syn_case(rng: &mut Rng) -> String {
    let lhm = rng.range(0, 4).min(rng.range(0, 4));
    let rhm = rng.range(0, 4).min(rng.range(0, 4));
    let nops = rng.range(1, 6);
    let mut ops: Vec<String> = (0..nops).map(|_| gen_op(rng)).collect();
    ops.sort();
    ops.dedup_by(|a, b| a[..2] == b[..2]);
    let nwords = rng.range(1, 3);
    let mut toks = vec!["x".to_string(), "_".to_string()];
    let mut excs = vec![];
    for i in 0..nwords {
        let w = gen_syn_word(rng);
        excs.push(hyphenate_at_random(rng, &w));
        let mut t = mixed_case(rng, &w);
        if rng.chance(1, 5) {
            t.push(*rng.pick(&['.', ',', '-', 'x']));
        }
        if rng.chance(1, 12) {
            t = format!("{}{}", rng.pick(&['.', ',', '-']), t);
        }
        if rng.chance(1, 12) {
            // an explicit hyphen inside the token
            let k = rng.range(1, t.len() as i64 - 1) as usize;
            t.insert(k, '-');
        }
        toks.push(t);
        if i + 1 < nwords || rng.chance(1, 3) {
            toks.push("_".into());
        }
    }
    format!("{lhm} {rhm} / P:{} / H:_:{} / {}", ops.join(";"), excs.join(","), toks.join(" "))
}

impl Property for C14 {
    fn id(&self) -> &'static str {
        "C14"
    }
    fn rule(&self) -> String {
        "corpus: the C14-a witness, ligature words in cmr10, the 33 word/program pairs of boxworks-hyphenate's own tests; \
         exhaustive: every single-operation program (8 ligature forms + kern, left in {a,b,-,|}, right in {a,b,-,|,.}, replacement in {x,-}) x words {ab,ba,aab,abb,aba} x one hyphen position x trailing {none,'.'}; \
         random cmr10: 1-8 words from a pool rich in ff/fi/fl/ffi/ffl, upper case, punctuation, digits, explicit hyphens, 62-130 letter words, with penalties, kerns of every kind, boxes, rules, math, marks, insertions, adjusts, whatsits, discretionaries and font switches between them, plain TeX patterns, (lhm,rhm) in 0..4 plus -1/5/7/64; \
         random synthetic: 1-6 random operations over {a,b,c,d,x,y,-,|,.,','} (fonts whose compilation reports an infinite loop are skipped), words over {a,b,c,d} with random exception hyphens, (lhm,rhm) in 0..4. \
         Non-trivial = the model reports at least one allowed hyphen position or the real output contains an inserted discretionary; distinct = distinct case string."
            .into()
    }
    fn builtin_corpus(&self) -> Vec<String> {
        let mut v: Vec<String> = vec![
            "2 3 / cmr10 / plain / x _ 3.0 _ Contents".into(),
            "2 3 / cmr10 / plain / x _ Contents".into(),
            "2 3 / cmr10 / plain / x _ difficult _ office _ affliction _ shuffle _ waffle".into(),
            "1 1 / cmr10 / plain / x _ difficult _ office _ affliction _ shuffle _ waffle".into(),
            "2 3 / cmr10 / plain / x _ well-known _ fifty-fifty".into(),
            "2 3 / cmr10 / plain / x _ (difficult) _ ``efficient'' _ 1,000 _ baffling.".into(),
            "2 3 / cmr10 / plain / difficult".into(),
            "2 3 / cmr10 / plain / x _ \\f1 difficult \\f0 difficult".into(),
            "2 3 / cmr10 / plain / x _ difficult \\h _ difficult \\p0 _ difficult \\mb".into(),
            "0 0 / cmr10 / plain / x _ AVATAR _ Table".into(),
        ];
        for n in [62, 63, 64, 65, 130] {
            let w: String = "difficultoffice".chars().cycle().take(n).collect();
            v.push(format!("2 3 / cmr10 / plain / x _ {w} _ after"));
        }
        // the word/program pairs of boxworks-hyphenate's own tests
        let own: &[(&str, &str, &str)] = &[
            ("a-b", "", "a-b"),
            ("a-b", "ab->axb^", ""),
            ("a-b", "a-->ax-^", ""),
            ("a-b", "a-->ax-^;ab->ac^_", ""),
            ("a-b", "|b->|c^_", ""),
            ("a-b", "|d->|c^_", ""),
            ("a-b", "|-->|c^_", ""),
            ("ab-c", "bc->_z^_;|b->|d^_", ""),
            ("abc-d", "ab->ax^_;xc->_y^_;yd->_z^_", ""),
            ("a-b", "-|->-c^|", ""),
            ("a-bc", "ab->_x^_;xc->_y^_", ""),
            ("a-bc", "ab->_x^_;xc->_y^_;bc->_z^_", ""),
            ("ab-c", "ab->_x^_;xc->_y^_", ""),
            ("ab-c", "ab->ax^_", ""),
            ("ab-c", "ab->ax^_;x-->xy^-", ""),
            ("ab-c", "ab->ax^b;x-->xy^-", ""),
            ("a-b", "ab->ax^b", ""),
            ("a-b", "ab->a[100]b", ""),
            ("a-b", "ab->a[100]b;a-->a[100]-", ""),
            ("a-bcdefgh", "ab->_x^_;bc->_y^_;cd->_z^_;de->_w^_;ef->_v^_", ""),
            ("a-bcd-ef-gh", "ab->_x^_;bc->_y^_;cd->_z^_;de->_w^_;ef->_v^_", ""),
            ("a-bcde", "ab->_x^_;bc->_y^_;xc->_y^_;yd->yzd^", ""),
            ("baby", "y,->y[100],;y|->y[200]|", ","),
            ("ba-by", "y,->y[100],;y|->y[200]|", ","),
            ("ba-by", "y|->y.^|", ""),
            ("a-b", "|b->|c^_;c.->c,^_", "."),
            ("jour-ney", "y.->y^,_;,|->,?^|", "."),
            ("jour-ney", "y.->y^,_;y,->y^?_", "."),
            ("jour-ney", "y.->y,^_", "."),
            ("jour-ney", "y.->y^,_;y,->y^?,", "."),
            ("sneez-ing", "y.->y^,_;y,->y^?,", ""),
            ("dif-fi-cult", "ff->_0^_;0i->_1^_", ""),
        ];
        for (w, p, tail) in own {
            let plain: String = w.chars().filter(|c| *c != '-').collect();
            v.push(format!("1 1 / P:{p} / H:_:{w} / x _ {plain}{tail}"));
        }
        v
    }
    fn generate(&mut self, ctx: &Ctx, rng: &mut Rng) -> Vec<String> {
        let mut v = vec![];
        // exhaustive small scope: single-operation programs
        for &l in &['a', 'b', '-', '|'] {
            for &r in &['a', 'b', '-', '|', '.'] {
                if l == '|' && r == '|' {
                    continue;
                }
                for &x in &['x', '-'] {
                    for t in TEMPLATES {
                        if *t == "K" && x != 'x' {
                            continue;
                        }
                        let op = mk_op(l, r, x, t, 100);
                        for w in ["ab", "ba", "aab", "abb", "aba"] {
                            for h in 1..w.len() {
                                for tail in ["", "."] {
                                    let e = format!("{}-{}", &w[..h], &w[h..]);
                                    v.push(format!("1 1 / P:{op} / H:_:{e} / x _ {w}{tail}"));
                                }
                            }
                        }
                    }
                }
            }
        }
        let (n_text, n_syn) = if ctx.thorough { (120_000, 650_000) } else { (12_000, 40_000) };
        // overrides for profiling the harness by hand
        let n_text = std::env::var("VERIF_C14_NTEXT").ok().and_then(|x| x.parse().ok()).unwrap_or(n_text);
        let n_syn = std::env::var("VERIF_C14_NSYN").ok().and_then(|x| x.parse().ok()).unwrap_or(n_syn);
        let mut r1 = rng.fork();
        for _ in 0..n_text {
            v.push(gen_text_case(&mut r1));
        }
        let mut r2 = rng.fork();
        for _ in 0..n_syn {
            v.push(gen_syn_case(&mut r2));
        }
        v
    }

    fn run_case(&mut self, case: &str, drv: &mut Driver) -> CaseOutcome {
        let _watch = Watch::new(case);
        let mut out = CaseOutcome::default();
        let Some(c) = parse_case(case) else {
            out.tag("bad-case");
            return out;
        };
        let Some(font) = self.font(&c.font) else {
            out.tag("font:rejected");
            return out;
        };
        if font.loops > 0 {
            out.tag("font:infinite-loop-skipped");
            return out;
        }
        out.tag(if c.font == "cmr10" { "font:cmr10" } else { "font:synthetic" });
        out.tag(format!("lhm={}", c.lhm.clamp(-1, 5)));
        out.tag(format!("rhm={}", c.rhm.clamp(-1, 5)));

        let inp = match caught(|| build_list(&font, &c.tokens)) {
            Ok(l) => l,
            Err(m) => {
                // the text preprocessor is not this property's subject
                out.tag(format!("preprocessor-panic {}", strip_msg(&m)));
                return out;
            }
        };
        let enc_in = enc_list(&inp);

        // the hyphenator
        let mut custom: Option<boxworks_hyphenate::Hyphenator> = None;
        if c.hyph == "plain" {
            if self.plain.is_none() {
                self.plain = Some(boxworks_hyphenate::Hyphenator::plain_tex_en_us(font.prog.clone()));
            }
        } else {
            let Some(rest) = c.hyph.strip_prefix("H:") else {
                out.tag("bad-case");
                return out;
            };
            let Some((pats, excs)) = rest.split_once(':') else {
                out.tag("bad-case");
                return out;
            };
            let mut h = hyphenate::Hyphenator::default();
            if pats != "_" {
                h.load_patterns(&pats.replace(',', " "));
            }
            if excs != "_" {
                h.insert_exceptions(&excs.replace(',', "\n"));
            }
            custom = Some(boxworks_hyphenate::Hyphenator {
                lig_kern_program: font.prog.clone(),
                hyphenator: h,
                left_hyphen_min: 0,
                right_hyphen_min: 0,
            });
        }
        let hy: &mut boxworks_hyphenate::Hyphenator = match custom.as_mut() {
            Some(h) => h,
            None => self.plain.as_mut().unwrap(),
        };
        hy.lig_kern_program = font.prog.clone();
        hy.left_hyphen_min = c.lhm;
        hy.right_hyphen_min = c.rhm;

        // M: the words
        let reply = drv.ask(&format!("fw {}", join(&enc_in)));
        let nums: Vec<i64> = if reply.starts_with("bad") { panic!("driver: {reply} on fw") } else { parse_i64s(&reply) };
        let mut words: Vec<(usize, usize, u32, String)> = vec![];
        let mut p = 1;
        for _ in 0..nums[0] {
            let (start, nodes, f, k) = (nums[p] as usize, nums[p + 1] as usize, nums[p + 2] as u32, nums[p + 3] as usize);
            let s: String = nums[p + 4..p + 4 + k].iter().map(|&c| char::from_u32(c as u32).unwrap()).collect();
            p += 4 + k;
            words.push((start, nodes, f, s));
        }
        discovery_tags(&inp, &words, &mut out);

        // raw Liang positions of each word from the real `hyphenate` crate (C13's subject)
        let lc = hyphenate::AsciiLowerCaser::default();
        let mut raws: Vec<i64> = vec![words.len() as i64];
        for (_, _, _, s) in &words {
            let r: Vec<usize> = hy.hyphenator.calculate_indices(&lc, s).collect();
            // hypothesis of `positions_exact`: Liang positions come in strictly ascending order
            if r.windows(2).any(|w| w[0] >= w[1]) {
                out.fail(Kind::ImplVsSpec, "liang", "raw positions not strictly ascending", format!("word {s}: {r:?}"));
            }
            raws.push(r.len() as i64);
            raws.extend(r.iter().map(|&x| x as i64));
        }

        // tie to C13: with a small pattern set the driver computes Liang's positions itself
        if let Some(rest) = c.hyph.strip_prefix("H:") {
            if let Some((pats, excs)) = rest.split_once(':') {
                for (_, _, _, s) in &words {
                    let real: Vec<usize> = hy.hyphenator.calculate_indices(&lc, s).collect();
                    let real = if real.is_empty() { "_".to_string() } else { real.iter().map(|x| x.to_string()).collect::<Vec<_>>().join(".") };
                    let want = drv.ask(&format!("li {pats} {excs} {s}"));
                    out.tag("c13-spec-compared");
                    if want != real {
                        out.fail(
                            Kind::ImplVsSpec,
                            "liang",
                            "raw positions differ from C13.specIndices",
                            format!("word {s}: hyphenate crate gives {real}, C13.specIndices gives {want}"),
                        );
                    }
                }
            }
        }

        // I: the real pass
        let mut list = inp.clone();
        let res = caught(|| {
            use boxworks::Hyphenator;
            hy.hyphenate(&mut list);
        });
        if let Err(m) = res {
            out.nontrivial = true;
            out.tag("impl-panic");
            out.fail(
                Kind::ImplPanic,
                "hyphenate",
                format!("panic {}", strip_msg(&m)),
                format!("input list: {}\npanic: {m}", show_list(&inp)),
            );
            return out;
        }
        let enc_out = enc_list(&list);
        let reply = drv.ask(&format!("chk {} {} {} {} {}", c.lhm, c.rhm, join(&enc_in), join(&enc_out), join(&raws)));
        if reply.starts_with("bad") {
            panic!("driver: {reply} on chk");
        }
        let f = |k: &str| field(&reply, k).to_string();
        let nd: usize = f("nd").parse().unwrap_or(0);
        out.nontrivial = nd > 0 || f("model") != "_";
        if nd > 0 {
            out.tag("discs-inserted");
        }
        for h in &list {
            if let ds::Horizontal::Discretionary(d) = h {
                if d.pre_break.is_empty() {
                    continue;
                }
                out.tag(format!("disc:rc={}", d.replace_count.min(4)));
                if !d.post_break.is_empty() {
                    out.tag("disc:post-break");
                }
                if d.pre_break.iter().any(|e| matches!(e, ds::DiscretionaryElem::Ligature(_))) {
                    out.tag("disc:pre-has-ligature");
                }
                if d.post_break.iter().any(|e| matches!(e, ds::DiscretionaryElem::Ligature(_))) {
                    out.tag("disc:post-has-ligature");
                }
                if d.pre_break.iter().chain(d.post_break.iter()).any(|e| matches!(e, ds::DiscretionaryElem::Kern(_))) {
                    out.tag("disc:has-kern");
                }
                if d.pre_break.iter().chain(d.post_break.iter()).any(
                    |e| matches!(e, ds::DiscretionaryElem::Ligature(l) if l.includes_left_boundary || l.includes_right_boundary),
                ) {
                    out.tag("disc:boundary-ligature");
                }
            }
        }

        // M for the reconstitution first: the signatures of the known findings are only emitted when
        // the model reproduces the real output exactly (then the recorded deviation is the only one)
        let rm_reply: Option<String> = match &font.enc {
            None => None,
            Some(pe) => {
                if self.last_prog.as_deref() != Some(c.font.as_str()) {
                    let ok = drv.ask(&format!("prog {pe}"));
                    if !ok.starts_with("ok") {
                        panic!("driver: {ok} on prog");
                    }
                    self.last_prog = Some(c.font.clone());
                }
                let reply = drv.ask(&format!("rm {} {} {} {} {}", c.lhm, c.rhm, join(&enc_in), join(&enc_out), join(&raws)));
                if reply.starts_with("bad") {
                    panic!("driver: {reply} on rm");
                }
                Some(reply)
            }
        };
        let rm_parts: Vec<&str> = rm_reply.as_deref().map(|r| r.split(" | ").collect()).unwrap_or_default();
        let model_exact = rm_parts.first().map(|v| v.trim() == "1").unwrap_or(false);
        let dev: String = rm_parts.get(3).and_then(|x| x.split(' ').find_map(|w| w.strip_prefix("dev="))).unwrap_or("").to_string();
        let detail = || format!("before: {}\nafter:  {}\ndriver: {reply}\nrm: {}", show_list(&inp), show_list(&list), rm_parts.first().unwrap_or(&"-").trim().to_string() + " " + rm_parts.get(3).unwrap_or(&""));

        // S on the real output
        if f("p1") != "1" {
            out.tag("P1-violated");
            // Known boundary artefacts (C14-f/g/i): only when the transcription model reproduces the real
            // output exactly and every word whose main run is not its nodes has the recorded shape
            // (`devClass` in the driver). Every other P1 failure keeps a signature of its own.
            let devs: Vec<char> = dev.chars().filter(|c| *c != '-').collect();
            // Stated boundary (not a finding): shapes g and j are what TeX itself does (TeX 896: ha is the
            // node before the first letter; TeX 903: the left boundary takes part only if ha is a
            // boundary ligature (init_lft) or the word starts with one (found2), and whatever precedes ha
            // stays) — chained left-boundary rules of synthetic fonts. Outside the quantifier when the
            // model reproduces the output exactly and every deviating word has shape g or j.
            if model_exact && !devs.is_empty() && devs.iter().all(|c| "gj".contains(*c)) {
                out.tag("boundary:TeX-compatible left-boundary chain (shape g/j), P1 not judged");
            } else {
            let sig = if model_exact && !devs.is_empty() && devs.iter().all(|c| "fgij".contains(*c)) {
                match devs.iter().find(|c| "fi".contains(**c)).copied().unwrap_or('f') {
                    'f' => "P1 C14-f right-boundary override artefact (model = output)".to_string(),
                    _ => "P1 C14-i left context of the word lost (model = output)".to_string(),
                }
            } else if model_exact {
                format!("P1 {} (model = output, unclassified deviation {})", f("mm"), dev)
            } else {
                format!("P1 {}{}", f("mm"), if nd == 0 { " without any discretionary" } else { "" })
            };
            out.fail(Kind::ImplVsSpec, "P1", sig, format!("deleting the inserted discretionaries does not give the input back\n{}", detail()));
            }
        }
        if f("p2") != "1" {
            out.tag("P2-violated");
            out.fail(Kind::ImplVsSpec, "P2", "P2 letters at a discretionary", format!("pre-break minus hyphen ++ post-break is not the letters of the replaced nodes\n{}", detail()));
        }
        let (imp, model, spec) = (f("impl"), f("model"), f("spec"));
        if f("extra") != "_" {
            out.fail(Kind::ImplVsSpec, "positions", "positions extra", format!("discretionary at a position that is not allowed: {}\n{}", f("extra"), detail()));
        }
        if f("missU") != "_" {
            let sig = "positions missing";
            out.fail(Kind::ImplVsSpec, "positions", sig, format!("no discretionary at allowed positions {}\n{}", f("missU"), detail()));
        }
        if f("missC") != "_" {
            out.tag("position-skipped-in-synchronisation");
            // C14-h only when the model (for which `positions_exact` characterises the skipped positions)
            // reproduces the output exactly
            let sig = if model_exact {
                "positions skipped during synchronisation (model = output)"
            } else {
                "positions missing inside the span of another discretionary (model does not reproduce the output)"
            };
            out.fail(
                Kind::ImplVsSpec,
                "positions",
                sig,
                format!("allowed positions {} lie inside the span replaced by another discretionary and get none\n{}", f("missC"), detail()),
            );
        }
        match &rm_reply {
            None => out.tag("recon-model:skipped(to_scaled panics)"),
            Some(_) => {
                let parts = rm_parts.clone();
                out.tag("recon-model:compared");
                match parts[0].trim() {
                    "1" => {}
                    "P" => out.fail(Kind::ImplVsModel, "recon", "reconstitution model panics or hangs", detail()),
                    _ => out.fail(
                        Kind::ImplVsModel,
                        "recon",
                        "reconstitution model differs from the real output",
                        format!("{}\nmodel:  {}", detail(), parts.get(2).unwrap_or(&"")),
                    ),
                }
                // `hyphenateM_invariants`: model output = real output and unbroken = input imply P1
                let ub = parts.get(3).map(|x| x.trim().split(' ').next().unwrap_or("")).unwrap_or("");
                out.tag(format!("recon-model:{}", if ub == "ub=1" { "unbroken=input" } else { "unbroken!=input (boundary artefact)" }));
                if parts[0].trim() == "1" && ub == "ub=1" && f("p1") != "1" {
                    out.fail(Kind::ModelVsSpec, "recon", "P1 fails although model = output and unbroken = input", detail());
                }
                if parts[0].trim() == "1" && f("p2") != "1" {
                    out.fail(Kind::ModelVsSpec, "recon", "P2 fails although model = output", detail());
                }
                // `positions_exact_list` on the real output, and `expectedM` vs the findWords-based positions
                let flag = |k: &str| parts.get(3).and_then(|x| x.split(' ').find_map(|w| w.strip_prefix(k))).unwrap_or("").to_string();
                if flag("ee=") != "1" {
                    out.fail(Kind::ModelVsSpec, "positions", "expectedM differs from the positions of findWords", detail());
                }
                if flag("pe=") != "1" {
                    out.tag("positions_exact_list:false-on-real-output");
                    if parts[0].trim() == "1" {
                        out.fail(Kind::ModelVsSpec, "positions", "positions_exact_list fails although model = output", detail());
                    } else if f("extra") == "_" && f("missU") == "_" {
                        out.fail(Kind::ImplVsSpec, "positions", "break positions are not the uncovered allowed positions", detail());
                    }
                } else {
                    out.tag("positions_exact_list:holds-on-real-output");
                }
                // the engine itself: items and separation points of every main run vs the real RunIter
                for run in parts.get(1).unwrap_or(&"").split(';').filter(|r| !r.trim().is_empty()) {
                    let v = parse_i64s(run);
                    let (dlb, rbo) = (v[0] != 0, if v[1] < 0 { None } else { char::from_u32(v[1] as u32) });
                    // the word is spelled by the originals of the model's items
                    let mut word = String::new();
                    let mut k = 3;
                    while k < v.len() {
                        match v[k] {
                            0 => {
                                word.push(char::from_u32(v[k + 1] as u32).unwrap());
                                k += 3;
                            }
                            1 => k += 3,
                            _ => {
                                let n = v[k + 4] as usize;
                                for j in 0..n {
                                    word.push(char::from_u32(v[k + 5 + j] as u32).unwrap());
                                }
                                k += 6 + n;
                            }
                        }
                    }
                    let mut real: Vec<i64> = vec![];
                    let mut count = 0i64;
                    let mut it = font.prog.run_with_options(
                        word.chars(),
                        tfm::ligkern::RunOptions { disable_left_boundary: dlb, right_boundary_override: rbo },
                    );
                    let first_sep = it.is_separation_point();
                    while let Some(item) = it.next() {
                        let sep = it.is_separation_point();
                        enc_run_item(&item, sep, &mut real);
                        count += 1;
                        if count > 10_000 {
                            break;
                        }
                    }
                    out.tag("engine-run:compared");
                    if !first_sep || real != v[3..] || count != v[2] {
                        out.fail(
                            Kind::ImplVsModel,
                            "engine",
                            "engine model (items / separation points) differs from RunIter",
                            format!("word {word} dlb={dlb} rbo={rbo:?}\nmodel: {}\nreal:  {} (separation point before the first item: {first_sep})", join(&v[3..]), join(&real)),
                        );
                    }
                }
            }
        }
        if std::env::var("VERIF_C14_DUMP").is_ok() && !out.failures.is_empty() {
            eprintln!("{}\t{}", case, out.failures.iter().map(|f| f.signature.clone()).collect::<Vec<_>>().join("|"));
        }
        if f("mw") != "1" || model != spec {
            out.fail(Kind::ModelVsSpec, "words", "findWords differs from specWords", detail());
        } else if imp != model && imp == spec {
            out.fail(Kind::ImplVsModel, "positions", "model positions differ", detail());
        }
        out
    }

    fn shrink(&self, case: &str) -> Vec<String> {
        let Some(c) = parse_case(case) else { return vec![] };
        let mut v = vec![];
        let with = |f: &dyn Fn(&mut Case)| {
            let mut d = Case { lhm: c.lhm, rhm: c.rhm, font: c.font.clone(), hyph: c.hyph.clone(), tokens: c.tokens.clone() };
            f(&mut d);
            show_case(&d)
        };
        let n = c.tokens.len();
        if n > 1 {
            v.push(with(&|d| {
                d.tokens.truncate(n / 2);
            }));
            v.push(with(&|d| {
                d.tokens.drain(..n / 2);
            }));
        }
        for i in 0..n {
            if n > 1 {
                v.push(with(&|d| {
                    d.tokens.remove(i);
                }));
            }
        }
        if let Some(ops) = c.font.strip_prefix("P:") {
            let ops: Vec<&str> = ops.split(';').filter(|o| !o.is_empty()).collect();
            for i in 0..ops.len() {
                let mut o = ops.clone();
                o.remove(i);
                v.push(with(&|d| d.font = format!("P:{}", o.join(";"))));
            }
        }
        if let Some(rest) = c.hyph.strip_prefix("H:") {
            if let Some((pats, excs)) = rest.split_once(':') {
                let es: Vec<&str> = excs.split(',').collect();
                for i in 0..es.len() {
                    if es.len() > 1 {
                        let mut e = es.clone();
                        e.remove(i);
                        v.push(with(&|d| d.hyph = format!("H:{pats}:{}", e.join(","))));
                    }
                    // drop one hyphen of one exception
                    for (k, ch) in es[i].char_indices() {
                        if ch == '-' {
                            let mut e: Vec<String> = es.iter().map(|s| s.to_string()).collect();
                            e[i].remove(k);
                            v.push(with(&|d| d.hyph = format!("H:{pats}:{}", e.join(","))));
                        }
                    }
                }
            }
        }
        for i in 0..n {
            let t = &c.tokens[i];
            if t.len() > 1 && !t.starts_with('\\') && t.is_ascii() {
                for k in 0..t.len() {
                    let mut s = t.clone();
                    s.remove(k);
                    v.push(with(&|d| d.tokens[i] = s.clone()));
                }
            }
        }
        if c.lhm != 1 {
            v.push(with(&|d| d.lhm = 1));
        }
        if c.rhm != 1 {
            v.push(with(&|d| d.rhm = 1));
        }
        v
    }
}

// ---------------------------------------------------------------------------------------------
// Watchdog: the code under test runs in-process; a change that makes the synchronisation loop (or a
// lig/kern run) spin for ever must be reported with its input instead of stalling the check.
// ---------------------------------------------------------------------------------------------

static WATCH: std::sync::Mutex<Option<(String, std::time::Instant)>> = std::sync::Mutex::new(None);
const HANG_SECS: u64 = 15;

struct Watch;
impl Watch {
    fn new(case: &str) -> Watch {
        *WATCH.lock().unwrap() = Some((case.to_string(), std::time::Instant::now()));
        Watch
    }
}
impl Drop for Watch {
    fn drop(&mut self) {
        if let Ok(mut w) = WATCH.lock() {
            *w = None;
        }
    }
}

fn start_watchdog() {
    let args: Vec<String> = std::env::args().collect();
    let arg = |k: &str| args.iter().position(|x| x == k).and_then(|i| args.get(i + 1).cloned());
    let out_path = arg("--out");
    let replay = arg("--replay-case").is_some();
    let tier = arg("--tier").unwrap_or_else(|| "quick".into());
    let seed: u64 = arg("--seed").and_then(|s| s.parse().ok()).unwrap_or(1);
    // CPU seconds (user + system) this process has used: a genuine endless loop burns CPU, a stall
    // (blocked on the driver's pipe, machine overloaded or suspended) does not.
    fn cpu_secs() -> f64 {
        let stat = std::fs::read_to_string("/proc/self/stat").unwrap_or_default();
        let after = stat.rsplit(')').next().unwrap_or("");
        let f: Vec<&str> = after.split_whitespace().collect();
        // fields after the command name: state is index 0, utime index 11, stime index 12
        let t = |i: usize| f.get(i).and_then(|x| x.parse::<f64>().ok()).unwrap_or(0.0);
        (t(11) + t(12)) / 100.0
    }
    std::thread::spawn(move || {
      let mut suspect: Option<(String, f64)> = None;
      loop {
        std::thread::sleep(std::time::Duration::from_millis(500));
        let active = WATCH.lock().ok().and_then(|w| w.as_ref().filter(|(_, t)| t.elapsed().as_secs() >= 3).map(|(c, _)| c.clone()));
        let hung = match (&active, &suspect) {
            (Some(c), Some((sc, base))) if c == sc => {
                if cpu_secs() - base >= HANG_SECS as f64 { Some(c.clone()) } else { None }
            }
            (Some(c), _) => {
                suspect = Some((c.clone(), cpu_secs()));
                None
            }
            (None, _) => {
                suspect = None;
                None
            }
        };
        if let Some(case) = hung {
            let sig = "hang: the hyphenation pass does not return";
            let detail = format!("no result after {HANG_SECS} s of CPU time on this one case (the Rust loop does not terminate on this input)");
            if replay {
                println!("replay: impl-panic stream=hyphenate signature={sig}\n  {detail}");
                std::process::exit(1);
            }
            let j = format!(
                "{{\n  \"property\": \"C14\",\n  \"tier\": {},\n  \"seed\": {seed},\n  \"evaluations\": 1,\n  \"distinct_nontrivial\": 1,\n  \"corpus_cases\": 0,\n  \"corpus_file_cases\": 0,\n  \"driver_requests\": 0,\n  \"failing_cases\": 1,\n  \"rule\": \"run aborted by the watchdog: a case did not return\",\n  \"samples\": [],\n  \"histogram\": {{\"impl-hang\": 1}},\n  \"failures\": [\n    {{\"kind\": \"impl-panic\", \"stream\": \"hyphenate\", \"signature\": {}, \"detail\": {}, \"case\": {}}}\n  ],\n  \"wall_s\": {HANG_SECS}.0\n}}\n",
                jstr(&tier),
                jstr(sig),
                jstr(&detail),
                jstr(&case)
            );
            match &out_path {
                Some(p) => std::fs::write(p, j).expect("write report"),
                None => print!("{j}"),
            }
            std::process::exit(0);
        }
      }
    });
}

fn main() {
    start_watchdog();
    let repo = std::env::var("VERIF_REPO").unwrap_or_else(|_| "/repo".into());
    let repo = {
        // --repo on the command line wins (same rule as vh::parse_args)
        let a: Vec<String> = std::env::args().collect();
        a.iter().position(|x| x == "--repo").and_then(|i| a.get(i + 1).cloned()).unwrap_or(repo)
    };
    let bytes = std::fs::read(format!("{repo}/crates/tfm/corpus/computer-modern/cmr10.tfm")).expect("cmr10.tfm");
    run(C14 { cmr10_bytes: bytes, fonts: HashMap::new(), plain: None, last_prog: None });
}
