//! Source-text generators: grammar-driven sources with free layout, mutations, arbitrary
//! token soup, and the corpus of box-language text found in the repository.

use vh::Rng;

pub fn hex(s: &str) -> String {
    let mut o = String::with_capacity(s.len() * 2);
    for b in s.as_bytes() {
        o.push_str(&format!("{b:02x}"));
    }
    o
}

pub fn unhex(h: &str) -> String {
    let b: Vec<u8> = (0..h.len() / 2).map(|i| u8::from_str_radix(&h[2 * i..2 * i + 2], 16).expect("hex")).collect();
    String::from_utf8_lossy(&b).into_owned()
}

const FUNCS: &[(&str, &[(&str, char)])] = &[
    ("chars", &[("content", 's'), ("font", 'i')]),
    ("glue", &[("width", 'd'), ("stretch", 'g'), ("shrink", 'g')]),
    ("penalty", &[("value", 'i')]),
    ("kern", &[("width", 'd')]),
    (
        "hbox",
        &[
            ("height", 'd'),
            ("width", 'd'),
            ("depth", 'd'),
            ("shift_amount", 'd'),
            ("glue_ratio", 'r'),
            ("glue_order", 'o'),
            ("content", 'H'),
        ],
    ),
    (
        "lig",
        &[
            ("char", 'c'),
            ("original_chars", 's'),
            ("font", 'i'),
            ("includes_left_boundary", 'b'),
            ("includes_right_boundary", 'b'),
        ],
    ),
    ("vbox", &[("height", 'd'), ("width", 'd'), ("depth", 'd'), ("shift_amount", 'd'), ("content", 'V')]),
    ("disc", &[("pre_break", 'D'), ("post_break", 'D'), ("replace_count", 'i')]),
    ("rule", &[("height", 'u'), ("width", 'u'), ("depth", 'u')]),
    ("mark", &[("dummy", 'i')]),
    ("adjust", &[("content", 'V')]),
    (
        "insertion",
        &[
            ("box_number", 'i'),
            ("height", 'd'),
            ("split_max_depth", 'd'),
            ("split_top_skip_width", 'd'),
            ("split_top_skip_stretch", 'g'),
            ("split_top_skip_shrink", 'g'),
            ("float_penalty", 'i'),
            ("vbox", 'V'),
        ],
    ),
    ("math", &[("kind", 'm')]),
];

const H_FUNCS: &[usize] = &[0, 1, 2, 3, 4, 5, 6, 7, 8, 9, 10, 11, 12];
const V_FUNCS: &[usize] = &[1, 2, 3, 4, 6, 8, 9, 11, 12];
const D_FUNCS: &[usize] = &[0, 3, 4, 5, 6, 8];

pub struct SrcGen<'a> {
    pub rng: &'a mut Rng,
    /// probability (in 1/100) of a deliberate type / name / arity error at each choice
    pub err_pct: u64,
}

impl<'a> SrcGen<'a> {
    fn ws(&mut self, out: &mut String) {
        match self.rng.below(12) {
            0..=5 => {}
            6 | 7 => out.push(' '),
            8 => out.push_str("\n  "),
            9 => out.push('\t'),
            10 => out.push_str(" # a comment, with (brackets] and \"quotes\n"),
            _ => out.push_str("\n#c\n"),
        }
    }
    fn number(&mut self, out: &mut String, frac: bool) {
        if self.rng.chance(1, 4) {
            out.push('-');
        }
        let ip = match self.rng.below(6) {
            0 => 0,
            1 => self.rng.below(10),
            2 => self.rng.below(1000),
            3 => self.rng.below(16384),
            4 => *self.rng.pick(&[16383, 16384, 32767, 32768, 226, 227, 5, 1]),
            _ => self.rng.below(200),
        };
        if self.rng.chance(1, 10) {
            out.push_str("00");
        }
        out.push_str(&ip.to_string());
        if frac {
            out.push('.');
            let n = *self.rng.pick(&[0u64, 1, 1, 2, 3, 5, 5, 6, 8, 17, 20]);
            for _ in 0..n {
                out.push((b'0' + self.rng.below(10) as u8) as char);
            }
            if n == 5 && self.rng.chance(1, 4) {
                out.truncate(out.len() - 5);
                out.push_str(*self.rng.pick(&["99999", "99998", "00001", "00000", "50000"]));
            }
        }
    }
    fn dim(&mut self, out: &mut String) {
        let frac = self.rng.chance(2, 3);
        self.number(out, frac);
        let u = if self.rng.chance(2, 3) { "pt" } else { *self.rng.pick(&["pc", "in", "bp", "cm", "mm", "dd", "cc", "sp", "pt"]) };
        out.push_str(u);
    }
    fn string(&mut self, out: &mut String, n: u64) {
        out.push('"');
        for _ in 0..n {
            match self.rng.below(16) {
                0..=7 => out.push(*self.rng.pick(&['a', 'Z', ' ', '0', '#', '(', ']', ',', '=', 'u', '{', '}'])),
                8 => out.push_str(*self.rng.pick(&["\\\"", "\\'", "\\\\", "\\n", "\\t", "\\0", "\\r"])),
                9 => out.push_str(*self.rng.pick(&["\\u{e4}", "\\u{E4}", "\\u{0041}", "\\u{10ffff}", "\\u{301}", "\\u{0}"])),
                10 => out.push(*self.rng.pick(&['ä', '中', '\u{301}', '\u{1f600}', '\u{a0}', '\''])),
                11 => out.push(*self.rng.pick(&['\n', '\t'])),
                12 if self.rng.chance(self.err_pct, 100) => {
                    out.push_str(*self.rng.pick(&["\\u{d800}", "\\u{110000}", "\\u{}", "\\u{zz}", "\\a", "\\u{fffffffff}"]))
                }
                _ => out.push('x'),
            }
        }
        out.push('"');
    }
    fn value(&mut self, out: &mut String, ty: char, depth: u32) {
        let ty = if self.rng.chance(self.err_pct, 300) { *self.rng.pick(&['s', 'i', 'd', 'g', 'H', 'o']) } else { ty };
        match ty {
            's' => {
                let n = self.rng.below(6);
                self.string(out, n)
            }
            'c' => {
                let n = if self.rng.chance(self.err_pct, 100) { self.rng.below(3) } else { 1 };
                self.string(out, n)
            }
            'i' => self.number(out, false),
            'd' => self.dim(out),
            'g' => {
                if self.rng.chance(1, 2) {
                    self.dim(out)
                } else {
                    let frac = self.rng.chance(1, 2);
                    self.number(out, frac);
                    out.push_str(*self.rng.pick(&["fil", "fill", "filll"]));
                }
            }
            'u' => {
                if self.rng.chance(1, 3) {
                    out.push_str("\"running\"")
                } else {
                    self.dim(out)
                }
            }
            'r' => {
                out.push('"');
                let frac = self.rng.chance(3, 4);
                self.number(out, frac);
                out.push('"');
            }
            'o' => out.push_str(*self.rng.pick(&["\"normal\"", "\"fil\"", "\"fill\"", "\"filll\""])),
            'b' => out.push_str(*self.rng.pick(&["\"true\"", "\"false\""])),
            'm' => out.push_str(*self.rng.pick(&["\"before\"", "\"after\"", "\"x\"", "\"\""])),
            'H' | 'V' | 'D' => {
                out.push('[');
                if depth > 0 {
                    let n = self.rng.below(4);
                    self.calls(out, ty, depth - 1, n);
                }
                self.ws(out);
                out.push(']');
            }
            _ => unreachable!(),
        }
    }
    pub fn calls(&mut self, out: &mut String, mode: char, depth: u32, n: u64) {
        let funcs = match mode {
            'H' => H_FUNCS,
            'V' => V_FUNCS,
            _ => D_FUNCS,
        };
        for _ in 0..n {
            self.ws(out);
            let fi = if self.rng.chance(self.err_pct, 400) { self.rng.below(13) as usize } else { *self.rng.pick(funcs) };
            let (name, fields) = FUNCS[fi];
            if self.rng.chance(self.err_pct, 400) {
                out.push_str("frob");
            } else {
                out.push_str(name);
            }
            self.ws(out);
            out.push('(');
            // choose the arguments: a positional prefix, then keywords in random order
            let npos = if self.rng.chance(1, 2) { self.rng.below(fields.len() as u64 + 1) as usize } else { 0 };
            let mut kw: Vec<usize> = (npos..fields.len()).filter(|_| self.rng.chance(3, 5)).collect();
            for i in (1..kw.len()).rev() {
                let j = self.rng.below(i as u64 + 1) as usize;
                kw.swap(i, j);
            }
            if self.rng.chance(self.err_pct, 300) && !fields.is_empty() {
                kw.push(self.rng.below(fields.len() as u64) as usize); // duplicate / positional clash
            }
            let total = npos + kw.len();
            let mut k = 0;
            for i in 0..npos {
                self.ws(out);
                self.value(out, fields[i].1, depth);
                k += 1;
                self.sep(out, k == total);
            }
            for i in kw {
                self.ws(out);
                if self.rng.chance(self.err_pct, 400) {
                    out.push_str("nosuch");
                } else {
                    out.push_str(fields[i].0);
                }
                self.ws(out);
                out.push('=');
                self.ws(out);
                self.value(out, fields[i].1, depth);
                k += 1;
                self.sep(out, k == total);
            }
            self.ws(out);
            out.push(')');
        }
    }
    fn sep(&mut self, out: &mut String, last: bool) {
        self.ws(out);
        // commas are optional everywhere; a trailing one is allowed
        if self.rng.chance(if last { 1 } else { 4 }, 5) {
            out.push(',');
        } else if !last {
            out.push(' ');
        }
    }
    pub fn source(&mut self, mode: char) -> String {
        let mut s = String::new();
        let n = self.rng.below(5);
        self.calls(&mut s, mode, 3, n);
        self.ws(&mut s);
        s
    }
}

const SOUP: &[&str] = &[
    "(", ")", "[", "]", ",", "=", "\"", "\\", "#", "\n", " ", "-", ".", "0", "1", "9", "16384", "2147483648", "pt", "sp", "in",
    "fil", "fill", "filll", "chars", "glue", "kern", "hbox", "vbox", "disc", "rule", "lig", "insertion", "content", "font",
    "width", "u", "{", "}", "ä", "$", "_", "x", "\\u", "\\u{", "\"running\"", "99999", "65536", "32768", "e", "\u{301}", "\u{1f600}",
    "\\u{ffffffff}", "\t", "\r", ";", "+", "\u{a0}", "A", "1.2.3pt", "1.5", "\\n", "\\\"", "true", "\"running\"", "=[", "])",
];

pub fn soup(rng: &mut Rng) -> String {
    let n = rng.below(24) + 1;
    let mut s = String::new();
    for _ in 0..n {
        s.push_str(*rng.pick(SOUP));
    }
    s
}

pub fn mutate(rng: &mut Rng, src: &str) -> String {
    let mut cs: Vec<char> = src.chars().collect();
    let k = rng.below(3) + 1;
    for _ in 0..k {
        let n = cs.len();
        match rng.below(6) {
            0 if n > 0 => {
                let i = rng.below(n as u64) as usize;
                cs.remove(i);
            }
            1 => {
                let i = rng.below(n as u64 + 1) as usize;
                let ins: Vec<char> = rng.pick(SOUP).chars().collect();
                for (j, c) in ins.into_iter().enumerate() {
                    cs.insert(i + j, c);
                }
            }
            2 if n > 0 => {
                let i = rng.below(n as u64) as usize;
                cs[i] = rng.pick(SOUP).chars().next().unwrap();
            }
            3 if n > 1 => {
                // delete a slice
                let i = rng.below(n as u64) as usize;
                let j = (i + 1 + rng.below(8) as usize).min(n);
                cs.drain(i..j);
            }
            4 if n > 1 => {
                // duplicate a slice
                let i = rng.below(n as u64) as usize;
                let j = (i + 1 + rng.below(8) as usize).min(n);
                let sl: Vec<char> = cs[i..j].to_vec();
                for (o, c) in sl.into_iter().enumerate() {
                    cs.insert(j + o, c);
                }
            }
            _ if n > 0 => {
                cs.truncate(rng.below(n as u64) as usize);
            }
            _ => {}
        }
    }
    cs.into_iter().collect()
}

/// Box-language (and other raw-string) text found in the repository.
pub fn repo_corpus(repo: &str, rng: &mut Rng, per_golden: usize) -> Vec<String> {
    let mut out = vec![];
    // 1. the error catalogue, whole and by paragraph
    if let Ok(s) = std::fs::read_to_string(format!("{repo}/crates/boxworks/src/lang/all_errors.box")) {
        for para in s.split("\n\n") {
            out.push(para.to_string());
        }
        out.push(s);
    }
    // 2. raw strings of the Rust sources (doc tests, unit tests): box sources and others
    let mut files = vec![];
    for dir in ["boxworks/src", "boxworks/src/lang", "boxworks-testing/src", "boxworks-bin/src", "boxworks-bin/tests",
        "boxworks-knuthplass/src", "boxworks-hyphenate/src", "boxworks-text/src"] {
        if let Ok(rd) = std::fs::read_dir(format!("{repo}/crates/{dir}")) {
            let mut v: Vec<_> = rd.filter_map(|e| e.ok()).map(|e| e.path()).filter(|p| p.extension().map(|e| e == "rs").unwrap_or(false)).collect();
            v.sort();
            files.extend(v);
        }
    }
    for f in files {
        let Ok(s) = std::fs::read_to_string(&f) else { continue };
        let mut rest = s.as_str();
        while let Some(i) = rest.find("r#\"") {
            let body = &rest[i + 3..];
            let Some(j) = body.find("\"#") else { break };
            let lit = &body[..j];
            if lit.len() <= 6000 && !lit.is_empty() {
                // doc comments: strip the `//! ` / `/// ` prefixes
                let cleaned: String = lit
                    .lines()
                    .map(|l| {
                        let t = l.trim_start();
                        t.strip_prefix("//! ").or(t.strip_prefix("/// ")).or(t.strip_prefix("//!")).or(t.strip_prefix("///")).unwrap_or(l)
                    })
                    .collect::<Vec<_>>()
                    .join("\n");
                out.push(cleaned);
            }
            rest = &body[j + 2..];
        }
    }
    // 3. the golden files of boxworks-bin: chunks between "#\n# hbox N" headers
    if let Ok(rd) = std::fs::read_dir(format!("{repo}/crates/boxworks-bin/tests")) {
        let mut v: Vec<_> = rd.filter_map(|e| e.ok()).map(|e| e.path()).filter(|p| p.extension().map(|e| e == "txt").unwrap_or(false)).collect();
        v.sort();
        for f in v {
            let Ok(s) = std::fs::read_to_string(&f) else { continue };
            if !s.starts_with("#\n# ") {
                continue;
            }
            let chunks: Vec<&str> = s.split("#\n# ").filter(|c| !c.is_empty()).collect();
            for k in 0..per_golden.min(chunks.len()) {
                let i = if k == 0 { 0 } else { rng.below(chunks.len() as u64) as usize };
                if chunks[i].len() <= 12000 {
                    out.push(format!("#\n# {}", chunks[i]));
                }
            }
        }
    }
    out
}
