//! The harness-side mirror of the Lean `Node` type: case encoding, conversion to the real
//! `ds` types, reply encoding of real `ds` values, and the random generator.

use boxworks::ds;
use common::{GlueOrder, Scaled};
use vh::Rng;

#[derive(Clone, Debug, PartialEq)]
pub enum N {
    Char(u32, u32),
    Glue { kind: u8, w: i32, st: i32, sto: u8, sh: i32, sho: u8 },
    Kern { kind: u8, w: i32 },
    Penalty(i32),
    Rule(i32, i32, i32),
    Lig { c: u32, font: u32, l: bool, r: bool, orig: Vec<u32> },
    Disc { rc: u32, pre: Vec<N>, post: Vec<N> },
    HBox { h: i32, w: i32, d: i32, s: i32, order: u8, num: i32, den: i32, list: Vec<N> },
    VBox { h: i32, w: i32, d: i32, s: i32, num: i32, den: i32, order: u8, list: Vec<N> },
    Mark(u32),
    Adjust(Vec<N>),
    Ins { bx: u8, h: i32, md: i32, w: i32, st: i32, sto: u8, sh: i32, sho: u8, fp: u32, list: Vec<N> },
    Math(bool),
}

#[derive(Clone, Copy, PartialEq, Debug)]
pub enum Mode {
    H,
    V,
    D,
}

impl N {
    pub fn kind_name(&self) -> &'static str {
        match self {
            N::Char(..) => "char",
            N::Glue { .. } => "glue",
            N::Kern { .. } => "kern",
            N::Penalty(_) => "penalty",
            N::Rule(..) => "rule",
            N::Lig { .. } => "lig",
            N::Disc { .. } => "disc",
            N::HBox { .. } => "hbox",
            N::VBox { .. } => "vbox",
            N::Mark(_) => "mark",
            N::Adjust(_) => "adjust",
            N::Ins { .. } => "insertion",
            N::Math(_) => "math",
        }
    }
    pub fn children(&self) -> Vec<&Vec<N>> {
        match self {
            N::Disc { pre, post, .. } => vec![pre, post],
            N::HBox { list, .. } | N::VBox { list, .. } | N::Adjust(list) | N::Ins { list, .. } => vec![list],
            _ => vec![],
        }
    }
    pub fn children_mut(&mut self) -> Vec<&mut Vec<N>> {
        match self {
            N::Disc { pre, post, .. } => vec![pre, post],
            N::HBox { list, .. } | N::VBox { list, .. } | N::Adjust(list) | N::Ins { list, .. } => vec![list],
            _ => vec![],
        }
    }
}

// ---------------------------------------------------------------- case encoding

pub fn enc_case_list(l: &[N], out: &mut Vec<i64>) {
    out.push(l.len() as i64);
    for n in l {
        enc_case(n, out);
    }
}

pub fn enc_case(n: &N, out: &mut Vec<i64>) {
    match n {
        N::Char(c, f) => out.extend([0, *c as i64, *f as i64]),
        N::Glue { kind, w, st, sto, sh, sho } => {
            out.extend([1, *kind as i64, *w as i64, *st as i64, *sto as i64, *sh as i64, *sho as i64])
        }
        N::Kern { kind, w } => out.extend([2, *kind as i64, *w as i64]),
        N::Penalty(p) => out.extend([3, *p as i64]),
        N::Rule(h, w, d) => out.extend([4, *h as i64, *w as i64, *d as i64]),
        N::Lig { c, font, l, r, orig } => {
            out.extend([5, *c as i64, *font as i64, *l as i64, *r as i64, orig.len() as i64]);
            out.extend(orig.iter().map(|c| *c as i64));
        }
        N::Disc { rc, pre, post } => {
            out.extend([6, *rc as i64]);
            enc_case_list(pre, out);
            enc_case_list(post, out);
        }
        N::HBox { h, w, d, s, order, num, den, list } => {
            out.extend([7, *h as i64, *w as i64, *d as i64, *s as i64, *order as i64, *num as i64, *den as i64]);
            enc_case_list(list, out);
        }
        N::VBox { h, w, d, s, num, den, order, list } => {
            out.extend([8, *h as i64, *w as i64, *d as i64, *s as i64, *num as i64, *den as i64, *order as i64]);
            enc_case_list(list, out);
        }
        N::Mark(n) => out.extend([9, *n as i64]),
        N::Adjust(l) => {
            out.push(10);
            enc_case_list(l, out);
        }
        N::Ins { bx, h, md, w, st, sto, sh, sho, fp, list } => {
            out.extend([
                11, *bx as i64, *h as i64, *md as i64, *w as i64, *st as i64, *sto as i64, *sh as i64, *sho as i64,
                *fp as i64,
            ]);
            enc_case_list(list, out);
        }
        N::Math(a) => out.extend([12, *a as i64]),
    }
}

pub struct Cur<'a>(pub &'a [i64]);
impl<'a> Cur<'a> {
    fn next(&mut self) -> i64 {
        let (h, t) = self.0.split_first().expect("truncated node encoding");
        self.0 = t;
        *h
    }
}

pub fn dec_case_list(c: &mut Cur) -> Vec<N> {
    let n = c.next();
    (0..n).map(|_| dec_case(c)).collect()
}

pub fn dec_case(c: &mut Cur) -> N {
    match c.next() {
        0 => N::Char(c.next() as u32, c.next() as u32),
        1 => N::Glue {
            kind: c.next() as u8,
            w: c.next() as i32,
            st: c.next() as i32,
            sto: c.next() as u8,
            sh: c.next() as i32,
            sho: c.next() as u8,
        },
        2 => N::Kern { kind: c.next() as u8, w: c.next() as i32 },
        3 => N::Penalty(c.next() as i32),
        4 => N::Rule(c.next() as i32, c.next() as i32, c.next() as i32),
        5 => {
            let (ch, font, l, r) = (c.next() as u32, c.next() as u32, c.next() != 0, c.next() != 0);
            let n = c.next();
            N::Lig { c: ch, font, l, r, orig: (0..n).map(|_| c.next() as u32).collect() }
        }
        6 => N::Disc { rc: c.next() as u32, pre: dec_case_list(c), post: dec_case_list(c) },
        7 => N::HBox {
            h: c.next() as i32,
            w: c.next() as i32,
            d: c.next() as i32,
            s: c.next() as i32,
            order: c.next() as u8,
            num: c.next() as i32,
            den: c.next() as i32,
            list: dec_case_list(c),
        },
        8 => N::VBox {
            h: c.next() as i32,
            w: c.next() as i32,
            d: c.next() as i32,
            s: c.next() as i32,
            num: c.next() as i32,
            den: c.next() as i32,
            order: c.next() as u8,
            list: dec_case_list(c),
        },
        9 => N::Mark(c.next() as u32),
        10 => N::Adjust(dec_case_list(c)),
        11 => N::Ins {
            bx: c.next() as u8,
            h: c.next() as i32,
            md: c.next() as i32,
            w: c.next() as i32,
            st: c.next() as i32,
            sto: c.next() as u8,
            sh: c.next() as i32,
            sho: c.next() as u8,
            fp: c.next() as u32,
            list: dec_case_list(c),
        },
        12 => N::Math(c.next() != 0),
        t => panic!("bad node tag {t}"),
    }
}

// ---------------------------------------------------------------- to the real types

fn order(o: u8) -> GlueOrder {
    match o {
        0 => GlueOrder::Normal,
        1 => GlueOrder::Fil,
        2 => GlueOrder::Fill,
        _ => GlueOrder::Filll,
    }
}
fn order_code(o: GlueOrder) -> i64 {
    match o {
        GlueOrder::Normal => 0,
        GlueOrder::Fil => 1,
        GlueOrder::Fill => 2,
        GlueOrder::Filll => 3,
    }
}
fn ch(c: u32) -> char {
    char::from_u32(c).expect("case holds a non-scalar character")
}
fn glue_kind(k: u8) -> ds::GlueKind {
    match k {
        0 => ds::GlueKind::Normal,
        1 => ds::GlueKind::ConditionalMath,
        2 => ds::GlueKind::Math,
        3 => ds::GlueKind::AlignedLeader,
        4 => ds::GlueKind::CenteredLeader,
        _ => ds::GlueKind::ExpandedLeader,
    }
}
fn kern_kind(k: u8) -> ds::KernKind {
    match k {
        0 => ds::KernKind::Normal,
        1 => ds::KernKind::Explicit,
        2 => ds::KernKind::Accent,
        _ => ds::KernKind::Math,
    }
}

fn mk_glue(kind: u8, w: i32, st: i32, sto: u8, sh: i32, sho: u8) -> ds::Glue {
    ds::Glue {
        kind: glue_kind(kind),
        value: common::Glue {
            width: Scaled(w),
            stretch: Scaled(st),
            stretch_order: order(sto),
            shrink: Scaled(sh),
            shrink_order: order(sho),
        },
    }
}
fn mk_lig(c: u32, font: u32, l: bool, r: bool, orig: &[u32]) -> ds::Ligature {
    let s: String = orig.iter().map(|c| ch(*c)).collect();
    ds::Ligature { char: ch(c), font, original_chars: s.into(), includes_left_boundary: l, includes_right_boundary: r }
}
fn mk_hbox(n: &N) -> ds::HBox {
    let N::HBox { h, w, d, s, order: o, num, den, list } = n else { unreachable!() };
    ds::HBox {
        height: Scaled(*h),
        width: Scaled(*w),
        depth: Scaled(*d),
        shift_amount: Scaled(*s),
        list: to_h_list(list),
        glue_ratio: ds::GlueRatio { num: Scaled(*num), den: Scaled(*den) },
        glue_order: order(*o),
    }
}
pub fn mk_vbox(n: &N) -> ds::VBox {
    let N::VBox { h, w, d, s, num, den, order: o, list } = n else { unreachable!() };
    ds::VBox {
        height: Scaled(*h),
        width: Scaled(*w),
        depth: Scaled(*d),
        shift_amount: Scaled(*s),
        list: to_v_list(list),
        glue_ratio: ds::GlueRatio { num: Scaled(*num), den: Scaled(*den) },
        glue_order: order(*o),
    }
}
fn mk_ins(n: &N) -> ds::Insertion {
    let N::Ins { bx, h, md, w, st, sto, sh, sho, fp, list } = n else { unreachable!() };
    ds::Insertion {
        box_number: *bx,
        height: Scaled(*h),
        split_max_depth: Scaled(*md),
        split_top_skip: mk_glue(0, *w, *st, *sto, *sh, *sho).value,
        float_penalty: *fp,
        vbox: to_v_list(list),
    }
}

pub fn to_h_list(l: &[N]) -> Vec<ds::Horizontal> {
    l.iter().map(to_h).collect()
}
pub fn to_v_list(l: &[N]) -> Vec<ds::Vertical> {
    l.iter().map(to_v).collect()
}
pub fn to_d_list(l: &[N]) -> Vec<ds::DiscretionaryElem> {
    l.iter().map(to_d).collect()
}

pub fn to_h(n: &N) -> ds::Horizontal {
    match n {
        N::Char(c, f) => ds::Char { char: ch(*c), font: *f }.into(),
        N::Glue { kind, w, st, sto, sh, sho } => mk_glue(*kind, *w, *st, *sto, *sh, *sho).into(),
        N::Kern { kind, w } => ds::Kern { width: Scaled(*w), kind: kern_kind(*kind) }.into(),
        N::Penalty(p) => ds::Penalty(*p).into(),
        N::Rule(h, w, d) => ds::Rule { height: Scaled(*h), width: Scaled(*w), depth: Scaled(*d) }.into(),
        N::Lig { c, font, l, r, orig } => mk_lig(*c, *font, *l, *r, orig).into(),
        N::Disc { rc, pre, post } => {
            ds::Discretionary { pre_break: to_d_list(pre), post_break: to_d_list(post), replace_count: *rc }.into()
        }
        N::HBox { .. } => mk_hbox(n).into(),
        N::VBox { .. } => mk_vbox(n).into(),
        N::Mark(k) => ds::Mark { list: vec![(); *k as usize] }.into(),
        N::Adjust(l) => ds::Adjust { list: to_v_list(l) }.into(),
        N::Ins { .. } => mk_ins(n).into(),
        N::Math(a) => (if *a { ds::Math::After } else { ds::Math::Before }).into(),
    }
}

pub fn to_v(n: &N) -> ds::Vertical {
    match n {
        N::Glue { kind, w, st, sto, sh, sho } => mk_glue(*kind, *w, *st, *sto, *sh, *sho).into(),
        N::Kern { kind, w } => ds::Kern { width: Scaled(*w), kind: kern_kind(*kind) }.into(),
        N::Penalty(p) => ds::Penalty(*p).into(),
        N::Rule(h, w, d) => ds::Rule { height: Scaled(*h), width: Scaled(*w), depth: Scaled(*d) }.into(),
        N::HBox { .. } => mk_hbox(n).into(),
        N::VBox { .. } => mk_vbox(n).into(),
        N::Mark(k) => ds::Mark { list: vec![(); *k as usize] }.into(),
        N::Ins { .. } => mk_ins(n).into(),
        N::Math(a) => (if *a { ds::Math::After } else { ds::Math::Before }).into(),
        other => panic!("bad case: {} in a vertical list", other.kind_name()),
    }
}

pub fn to_d(n: &N) -> ds::DiscretionaryElem {
    match n {
        N::Char(c, f) => ds::DiscretionaryElem::Char(ds::Char { char: ch(*c), font: *f }),
        N::Kern { kind, w } => ds::DiscretionaryElem::Kern(ds::Kern { width: Scaled(*w), kind: kern_kind(*kind) }),
        N::Rule(h, w, d) => {
            ds::DiscretionaryElem::Rule(ds::Rule { height: Scaled(*h), width: Scaled(*w), depth: Scaled(*d) })
        }
        N::Lig { c, font, l, r, orig } => ds::DiscretionaryElem::Ligature(mk_lig(*c, *font, *l, *r, orig)),
        N::HBox { .. } => ds::DiscretionaryElem::HBox(mk_hbox(n)),
        N::VBox { .. } => ds::DiscretionaryElem::VBox(mk_vbox(n)),
        other => panic!("bad case: {} in a discretionary list", other.kind_name()),
    }
}

// ---------------------------------------------------------------- request encoding (N → driver)

/// Same as the case encoding except: an hbox carries the printed text of its glue ratio,
/// a vbox a flag "glue set differs from the default".
pub fn enc_req_list(l: &[N], out: &mut Vec<i64>) {
    out.push(l.len() as i64);
    for n in l {
        enc_req(n, out);
    }
}

pub fn ratio_text(num: i32, den: i32) -> String {
    format!("{}", ds::GlueRatio { num: Scaled(num), den: Scaled(den) })
}

pub fn enc_req(n: &N, out: &mut Vec<i64>) {
    match n {
        N::Disc { rc, pre, post } => {
            out.extend([6, *rc as i64]);
            enc_req_list(pre, out);
            enc_req_list(post, out);
        }
        N::HBox { h, w, d, s, order, num, den, list } => {
            out.extend([7, *h as i64, *w as i64, *d as i64, *s as i64, *order as i64]);
            let t = ratio_text(*num, *den);
            out.push(t.chars().count() as i64);
            out.extend(t.chars().map(|c| c as i64));
            enc_req_list(list, out);
        }
        N::VBox { h, w, d, s, num, den, order, list } => {
            let gset = ratio_text(*num, *den) != "0.0" || *order != 0;
            out.extend([8, *h as i64, *w as i64, *d as i64, *s as i64, gset as i64]);
            enc_req_list(list, out);
        }
        N::Adjust(l) => {
            out.push(10);
            enc_req_list(l, out);
        }
        N::Ins { bx, h, md, w, st, sto, sh, sho, fp, list } => {
            out.extend([
                11, *bx as i64, *h as i64, *md as i64, *w as i64, *st as i64, *sto as i64, *sh as i64, *sho as i64,
                *fp as i64,
            ]);
            enc_req_list(list, out);
        }
        leaf => enc_case(leaf, out),
    }
}

// ---------------------------------------------------------------- reply encoding (real ds → ints)

fn glue_kind_code(k: &ds::GlueKind) -> i64 {
    match k {
        ds::GlueKind::Normal => 0,
        ds::GlueKind::ConditionalMath => 1,
        ds::GlueKind::Math => 2,
        ds::GlueKind::AlignedLeader => 3,
        ds::GlueKind::CenteredLeader => 4,
        ds::GlueKind::ExpandedLeader => 5,
    }
}
fn kern_kind_code(k: ds::KernKind) -> i64 {
    match k {
        ds::KernKind::Normal => 0,
        ds::KernKind::Explicit => 1,
        ds::KernKind::Accent => 2,
        ds::KernKind::Math => 3,
    }
}
fn r_glue(g: &ds::Glue, out: &mut Vec<i64>) {
    out.extend([
        1,
        glue_kind_code(&g.kind),
        g.value.width.0 as i64,
        g.value.stretch.0 as i64,
        order_code(g.value.stretch_order),
        g.value.shrink.0 as i64,
        order_code(g.value.shrink_order),
    ]);
}
fn r_lig(l: &ds::Ligature, out: &mut Vec<i64>) {
    out.extend([
        5,
        l.char as i64,
        l.font as i64,
        l.includes_left_boundary as i64,
        l.includes_right_boundary as i64,
        l.original_chars.chars().count() as i64,
    ]);
    out.extend(l.original_chars.chars().map(|c| c as i64));
}
fn r_hbox(b: &ds::HBox, out: &mut Vec<i64>) {
    // A parsed ratio always has den = 1.0; anything else is encoded so that it cannot match.
    let ratio = if b.glue_ratio.den == Scaled::ONE {
        b.glue_ratio.num.0 as i64
    } else if b.glue_ratio.num.0 == 0 && b.glue_ratio.den.0 == 1 {
        0 // `GlueRatio::default()`: the argument was not given
    } else {
        i64::MIN
    };
    out.extend([
        7,
        b.height.0 as i64,
        b.width.0 as i64,
        b.depth.0 as i64,
        b.shift_amount.0 as i64,
        order_code(b.glue_order),
        ratio,
    ]);
    r_h_list(&b.list, out);
}
fn r_vbox(b: &ds::VBox, out: &mut Vec<i64>) {
    let gset = b.glue_ratio != ds::GlueRatio::default() || b.glue_order != GlueOrder::Normal;
    out.extend([8, b.height.0 as i64, b.width.0 as i64, b.depth.0 as i64, b.shift_amount.0 as i64, gset as i64]);
    r_v_list(&b.list, out);
}
fn r_rule(r: &ds::Rule, out: &mut Vec<i64>) {
    out.extend([4, r.height.0 as i64, r.width.0 as i64, r.depth.0 as i64]);
}
fn r_ins(i: &ds::Insertion, out: &mut Vec<i64>) {
    out.extend([
        11,
        i.box_number as i64,
        i.height.0 as i64,
        i.split_max_depth.0 as i64,
        i.split_top_skip.width.0 as i64,
        i.split_top_skip.stretch.0 as i64,
        order_code(i.split_top_skip.stretch_order),
        i.split_top_skip.shrink.0 as i64,
        order_code(i.split_top_skip.shrink_order),
        i.float_penalty as i64,
    ]);
    r_v_list(&i.vbox, out);
}

pub fn r_h_list(l: &[ds::Horizontal], out: &mut Vec<i64>) {
    out.push(l.len() as i64);
    for n in l {
        use ds::Horizontal::*;
        match n {
            Char(c) => out.extend([0, c.char as i64, c.font as i64]),
            Glue(g) => r_glue(g, out),
            Kern(k) => out.extend([2, kern_kind_code(k.kind), k.width.0 as i64]),
            Penalty(p) => out.extend([3, p.0 as i64]),
            Rule(r) => r_rule(r, out),
            Ligature(l) => r_lig(l, out),
            Discretionary(d) => {
                out.extend([6, d.replace_count as i64]);
                r_d_list(&d.pre_break, out);
                r_d_list(&d.post_break, out);
            }
            HBox(b) => r_hbox(b, out),
            VBox(b) => r_vbox(b, out),
            Mark(m) => out.extend([9, m.list.len() as i64]),
            Adjust(a) => {
                out.push(10);
                r_v_list(&a.list, out);
            }
            Insertion(i) => r_ins(i, out),
            Math(m) => out.extend([12, matches!(m, ds::Math::After) as i64]),
            Whatsit(_) => out.push(99),
        }
    }
}

pub fn r_v_list(l: &[ds::Vertical], out: &mut Vec<i64>) {
    out.push(l.len() as i64);
    for n in l {
        use ds::Vertical::*;
        match n {
            Glue(g) => r_glue(g, out),
            Kern(k) => out.extend([2, kern_kind_code(k.kind), k.width.0 as i64]),
            Penalty(p) => out.extend([3, p.0 as i64]),
            Rule(r) => r_rule(r, out),
            HBox(b) => r_hbox(b, out),
            VBox(b) => r_vbox(b, out),
            Mark(m) => out.extend([9, m.list.len() as i64]),
            Insertion(i) => r_ins(i, out),
            Math(m) => out.extend([12, matches!(m, ds::Math::After) as i64]),
            Whatsit(_) => out.push(99),
        }
    }
}

pub fn r_d_list(l: &[ds::DiscretionaryElem], out: &mut Vec<i64>) {
    out.push(l.len() as i64);
    for n in l {
        use ds::DiscretionaryElem::*;
        match n {
            Char(c) => out.extend([0, c.char as i64, c.font as i64]),
            Kern(k) => out.extend([2, kern_kind_code(k.kind), k.width.0 as i64]),
            Rule(r) => r_rule(r, out),
            Ligature(l) => r_lig(l, out),
            HBox(b) => r_hbox(b, out),
            VBox(b) => r_vbox(b, out),
        }
    }
}

// ---------------------------------------------------------------- generator

pub const MAXD: i32 = (1 << 30) - 1;

/// Characters by escape class (all 13 classes of `escape_debug` + the lexer's escapes).
pub const CHAR_CLASSES: &[(&str, &[u32])] = &[
    ("ascii", &[0x61, 0x5a, 0x30, 0x20, 0x7e, 0x23, 0x28, 0x5d, 0x2c, 0x3d, 0x7b, 0x7d, 0x75]),
    ("dquote", &[0x22]),
    ("squote", &[0x27]),
    ("backslash", &[0x5c]),
    ("nul", &[0]),
    ("tab", &[9]),
    ("cr", &[13]),
    ("lf", &[10]),
    ("control", &[1, 0x1b, 0x7f, 0x85, 0x9f]),
    ("latin1", &[0xe4, 0xa0, 0xff, 0xad]),
    ("bmp", &[0x4e2d, 0x3b1, 0x2028, 0x3000, 0xfffd, 0xffff]),
    ("extend", &[0x301, 0x200d, 0xfe0f]),
    ("unprintable", &[0x200b, 0xe000, 0x378, 0xd7ff, 0x110000 - 1, 0xe0001]),
    ("astral", &[0x1f600, 0x10000, 0x1d11e]),
];

pub struct Gen<'a> {
    pub rng: &'a mut Rng,
    /// this case may contain values outside what the language expresses
    pub wild: bool,
}

impl<'a> Gen<'a> {
    pub fn chr(&mut self) -> u32 {
        if self.rng.chance(3, 5) {
            return *self.rng.pick(CHAR_CLASSES[0].1);
        }
        let cls = self.rng.pick(CHAR_CLASSES);
        if self.rng.chance(1, 10) {
            // any scalar value
            loop {
                let c = self.rng.below(0x110000) as u32;
                if char::from_u32(c).is_some() {
                    return c;
                }
            }
        }
        *self.rng.pick(cls.1)
    }
    pub fn dim(&mut self) -> i32 {
        if self.wild && self.rng.chance(1, 5) {
            return vh::interesting_i32(self.rng);
        }
        const B: &[i32] = &[
            0, 1, -1, 2, 3, 65535, 65536, 65537, -65536, 32768, 21845, 43691, 6554, 655, 66, 7, 98304, MAXD, -MAXD,
            MAXD - 1, MAXD - 65536, 1 << 29, 655360, 6553600, 65536000,
        ];
        match self.rng.below(4) {
            0 | 1 => *self.rng.pick(B),
            2 => self.rng.range(-(MAXD as i64), MAXD as i64) as i32,
            _ => self.rng.range(-2_000_000, 2_000_000) as i32,
        }
    }
    pub fn stretch(&mut self) -> (i32, u8) {
        let o = self.rng.below(4) as u8;
        if o == 0 {
            return (self.dim(), 0);
        }
        if self.wild && self.rng.chance(1, 5) {
            return (vh::interesting_i32(self.rng), o);
        }
        let v = match self.rng.below(4) {
            0 => *self.rng.pick(&[i32::MAX, -i32::MAX, i32::MAX - 1, 1 << 30, -(1 << 30), 65536, 0, 1, -1]),
            1 => self.rng.next_u64() as i32,
            _ => self.dim(),
        };
        (if v == i32::MIN { -i32::MAX } else { v }, o)
    }
    pub fn rule_dim(&mut self) -> i32 {
        if self.rng.chance(1, 3) {
            i32::MIN
        } else {
            self.dim()
        }
    }
    pub fn int(&mut self) -> i32 {
        let v = vh::interesting_i32(self.rng);
        if v == i32::MIN && !self.wild {
            -i32::MAX
        } else {
            v
        }
    }
    pub fn u32v(&mut self) -> u32 {
        if self.rng.chance(1, 2) {
            return self.rng.below(4) as u32;
        }
        let v = vh::interesting_u32(self.rng);
        if v == 1 << 31 && !self.wild {
            v + 1
        } else {
            v
        }
    }
    pub fn kind(&mut self, n: u64) -> u8 {
        if self.wild && self.rng.chance(1, 4) {
            self.rng.below(n) as u8
        } else {
            0
        }
    }
    pub fn ratio(&mut self) -> (i32, i32) {
        // the whole range `GlueRatio` can hold: small, around the dimension limit 16384, up to and
        // beyond the display cap 20000, non-terminating fractions, negative, zero denominators
        match self.rng.below(10) {
            6 => (self.rng.range(16000, 21000) as i32, 1),
            7 => (self.rng.range(1, i32::MAX as i64) as i32, self.rng.range(1, 70000) as i32),
            8 => (*self.rng.pick(&[16383, 16384, 19999, 20000, 20001, 32767, 32768, i32::MAX, -20000]), *self.rng.pick(&[1, 3, 7, -1])),
            9 => (self.rng.range(-(1 << 20), 1 << 20) as i32, *self.rng.pick(&[0, 1, 3, 65536, -65536])),
            0 => (0, 1),
            1 => (self.rng.range(0, 1 << 20) as i32, 65536),
            2 => (self.rng.range(-100000, 100000) as i32, self.rng.range(1, 100000) as i32),
            3 => (vh::interesting_i32(self.rng), vh::interesting_i32(self.rng)),
            4 => (self.rng.range(0, MAXD as i64) as i32, 65536),
            _ => (self.rng.range(0, 70000) as i32, self.rng.range(1, 70000) as i32),
        }
    }
    pub fn list(&mut self, m: Mode, depth: u32, max_len: u64) -> Vec<N> {
        let n = self.rng.below(max_len + 1);
        let mut out = vec![];
        for _ in 0..n {
            // runs of characters so that merging is exercised
            if m == Mode::H && self.rng.chance(1, 3) {
                let font = self.u32v();
                for _ in 0..self.rng.range(1, 4) {
                    out.push(N::Char(self.chr(), font));
                }
                continue;
            }
            out.push(self.node(m, depth));
        }
        out
    }
    pub fn node(&mut self, m: Mode, depth: u32) -> N {
        let kinds: &[u8] = match m {
            Mode::H => &[0, 1, 2, 3, 4, 5, 6, 7, 8, 9, 10, 11, 12],
            Mode::V => &[1, 2, 3, 4, 7, 8, 9, 11, 12],
            Mode::D => &[0, 2, 4, 5, 7, 8],
        };
        let mut k = *self.rng.pick(kinds);
        if depth == 0 && matches!(k, 6 | 7 | 8 | 10 | 11) && self.rng.chance(2, 3) {
            k = 2;
        }
        let sub = |g: &mut Gen, m: Mode| if depth == 0 { vec![] } else { g.list(m, depth - 1, 3) };
        match k {
            0 => N::Char(self.chr(), self.u32v()),
            1 => {
                let (st, sto) = self.stretch();
                let (sh, sho) = self.stretch();
                N::Glue { kind: self.kind(6), w: self.dim(), st, sto, sh, sho }
            }
            2 => N::Kern { kind: self.kind(4), w: self.dim() },
            3 => N::Penalty(self.int()),
            4 => N::Rule(self.rule_dim(), self.rule_dim(), self.rule_dim()),
            5 => {
                let n = self.rng.below(4);
                N::Lig {
                    c: self.chr(),
                    font: self.u32v(),
                    l: self.rng.chance(1, 2),
                    r: self.rng.chance(1, 2),
                    orig: (0..n).map(|_| self.chr()).collect(),
                }
            }
            6 => N::Disc { rc: self.u32v(), pre: sub(self, Mode::D), post: sub(self, Mode::D) },
            7 => {
                let (num, den) = self.ratio();
                N::HBox {
                    h: self.dim(),
                    w: self.dim(),
                    d: self.dim(),
                    s: self.dim(),
                    order: self.rng.below(4) as u8,
                    num,
                    den,
                    list: sub(self, Mode::H),
                }
            }
            8 => {
                let (num, den, order) =
                    if self.wild && self.rng.chance(1, 3) { (self.rng.range(0, 99999) as i32, 65536, self.rng.below(4) as u8) } else { (0, 1, 0) };
                N::VBox { h: self.dim(), w: self.dim(), d: self.dim(), s: self.dim(), num, den, order, list: sub(self, Mode::V) }
            }
            9 => N::Mark(if self.wild && self.rng.chance(1, 3) { 2 } else { 0 }),
            10 => N::Adjust(sub(self, Mode::V)),
            11 => {
                let (st, sto) = self.stretch();
                let (sh, sho) = self.stretch();
                N::Ins {
                    bx: self.rng.below(256) as u8,
                    h: self.dim(),
                    md: self.dim(),
                    w: self.dim(),
                    st,
                    sto,
                    sh,
                    sho,
                    fp: self.u32v(),
                    list: sub(self, Mode::V),
                }
            }
            _ => N::Math(self.rng.chance(1, 2)),
        }
    }
}
