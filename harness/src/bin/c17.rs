//! C17 — font-metric arithmetic: fix_word text round trip, `to_scaled` = TeX's store_scaled,
//! lossy table compression, next-larger chains.
//!
//! Case strings (one ASCII line each):
//!   `pp v…`          fix_words (i32): printed with the real `Display`, written into a property
//!                    list by the real `pl::File::display` (FONTDIMEN parameters), read back by
//!                    the real `pl::File::from_pl_source_code`. I vs M: printed text and parsed
//!                    (value, warning). I vs S: the value read back is the value written and no
//!                    warning is raised.
//!   `ps c…`          arbitrary property-value text (character codes) through the real reader as
//!                    `(DESIGNUNITS <text>)`; I vs M on (value, warning); S: no panic.
//!   `swf ip neg`     Rust-only sweep (I vs S) over all 2^20 fractions of the integer part `ip`
//!                    with sign `neg`, multi-threaded, 254 values per generated property list.
//!   `sws a s n`      Rust-only sweep over `a + k·s`, `k < n`.
//!   `sc v ds`        `FixWord(v).to_scaled(FixWord(ds))`; I vs M (value or panic); inside the
//!                    guard (0 ≤ ds, −2^24 ≤ v < 2^24) I vs S = TeX §571–572 evaluated by Lean.
//!   `cp max n v…`    `compress`; I vs M (table, sorted map); I vs S = Lean `checkCompress` on the
//!                    real output (≤ max classes, within half the tolerance, tolerance minimal).
//!   `nl drop k ne… n (s l)…`  `NextLargerProgram::new` with `character_exists = c ∉ ne`; warnings
//!                    and `get(c)` for all 256 characters against the Lean transcription and the
//!                    cut-graph specification.
//!   `tf kind n v…`   the real PL → TFM path: a property list with `n` characters whose width (kind 0),
//!                    height (1), depth (2) or italic correction (3) takes the values `v…`, through
//!                    `pl::File::from_pl_source_code` → `tfm::File::from` → `serialize` → `deserialize`;
//!                    I vs S = Lean `checkTfmTable` on the table and indices read back, with the TRUE
//!                    PLtoTF limits 255/15/15/63; I vs M = `compress(values, limit)`.
//!   `plnl n (s l)…`  the same graph as a property list (one CHARACTER entry per endpoint with
//!                    NEXTLARGER) through `pl::File::from_pl_source_code`: InfiniteLoop warnings and
//!                    the links that survive in `char_tags` against the specification.

use std::collections::{BTreeSet, HashMap};
use tfm::{Char, FixWord, NextLargerProgram, NextLargerProgramWarning};
use vh::*;

const MIN: i64 = i32::MIN as i64;

// ------------------------------------------------------------------------------------------
// print / parse
// ------------------------------------------------------------------------------------------

/// 0 none, 1 invalid prefix, 2 too big, 9 anything else.
fn warn_code(ws: &[tfm::pl::ParseWarning]) -> u8 {
    use tfm::pl::ParseWarningKind as K;
    let mut code = 0;
    for w in ws {
        let c = match &w.kind {
            K::DecimalNumberIsTooBig => 2,
            K::InvalidPrefixForDecimalNumber => 1,
            K::JunkAfterPropertyValue { .. } => 0, // digits beyond the seventh, trailing text: not modelled
            _ => 9,
        };
        if c > code {
            code = c;
        }
    }
    code
}

/// Write the values as FONTDIMEN parameters 1..n with the real printer, read the text back.
fn file_round_trip(vals: &[i32]) -> (Vec<i32>, u8) {
    let mut f = tfm::pl::File::default();
    f.params = vals.iter().map(|v| FixWord(*v)).collect();
    let text = format!("{}", f.display(3, tfm::pl::CharDisplayFormat::Default));
    let (g, ws) = tfm::pl::File::from_pl_source_code(&text);
    (g.params.iter().map(|p| p.0).collect(), warn_code(&ws))
}

/// `exact_c17a`: the input is exactly the word 0x80000000 and the implementation did exactly what
/// the known finding C17-a records (and the model reproduces): printed `-2048.0`, the reader
/// answered (0, DecimalNumberIsTooBig). Only then the known signature is used; any other failure
/// of that word, and every failure of another word, gets its own signature.
fn rt_signature(v: i32, got: Option<i32>, warn: u8, exact_c17a: bool) -> String {
    if v == i32::MIN && exact_c17a {
        "round trip: fix_word 0x80000000 (-2048.0) is rejected by the reader".into()
    } else if v == i32::MIN {
        format!("round trip: fix_word 0x80000000 fails differently from C17-a (read back {got:?}, warning {warn})")
    } else if warn == 8 {
        "round trip: panic".into()
    } else if warn != 0 {
        format!("round trip: reader warning {warn}")
    } else if got.is_none() {
        "round trip: value missing".into()
    } else {
        "round trip: different value read back".into()
    }
}

/// Rust-only check of a slice of values; returns the failures (value, read back, warning).
fn check_values(vals: &[i32]) -> Vec<(i32, Option<i32>, u8)> {
    let mut bad = vec![];
    for chunk in vals.chunks(254) {
        if let Ok((got, 0)) = caught(|| file_round_trip(chunk)) {
            if got == chunk {
                continue;
            }
        }
        for &v in chunk {
            match caught(|| file_round_trip(&[v])) {
                Ok((g, w)) => {
                    if w != 0 || g != [v] {
                        bad.push((v, g.first().copied(), w));
                    }
                }
                // 8 = the printer or the reader panicked
                Err(_) => bad.push((v, None, 8)),
            }
        }
    }
    bad
}

fn sweep(jobs: usize, n: u64, f: impl Fn(u64) -> i32 + Sync) -> Vec<(i32, Option<i32>, u8)> {
    let per = n.div_ceil(jobs as u64);
    let mut all = vec![];
    std::thread::scope(|s| {
        let hs: Vec<_> = (0..jobs as u64)
            .map(|j| {
                let f = &f;
                s.spawn(move || {
                    let lo = j * per;
                    let hi = ((j + 1) * per).min(n);
                    let mut bad = vec![];
                    let mut buf = Vec::with_capacity(254);
                    let mut k = lo;
                    while k < hi {
                        buf.clear();
                        while k < hi && buf.len() < 254 {
                            buf.push(f(k));
                            k += 1;
                        }
                        bad.extend(check_values(&buf));
                        if bad.len() > 100 {
                            break;
                        }
                    }
                    bad
                })
            })
            .collect();
        for h in hs {
            all.extend(h.join().unwrap());
        }
    });
    all.sort();
    all
}

fn sweep_of(case: &str, jobs: usize) -> Vec<(i32, Option<i32>, u8)> {
    let (cmd, rest) = case.split_once(' ').unwrap_or((case, ""));
    let a = parse_i64s(rest);
    match cmd {
        "swf" => {
            let (ip, neg) = (a[0], a[1] != 0);
            sweep(jobs, 1 << 20, |k| {
                let m = ip * (1 << 20) + k as i64;
                (if neg { -m } else { m }).clamp(MIN, i32::MAX as i64) as i32
            })
        }
        "sws" => {
            let (start, stride, n) = (a[0], a[1], a[2] as u64);
            sweep(jobs, n, |k| (start + stride * k as i64).clamp(MIN, i32::MAX as i64) as i32)
        }
        _ => vec![],
    }
}

// ------------------------------------------------------------------------------------------

struct C17 {
    jobs: usize,
    swept: u64,
    /// `compress` calls abandoned by the watchdog (their threads keep spinning).
    hung: u32,
}

/// Run `f` on a helper thread; `None` if it has not finished after `secs` seconds (the thread
/// is abandoned). `compress` is a loop whose termination is part of what is checked.
fn with_timeout<T: Send + 'static>(secs: u64, f: impl FnOnce() -> T + Send + 'static) -> Option<T> {
    let (tx, rx) = std::sync::mpsc::channel();
    std::thread::spawn(move || {
        let _ = tx.send(f());
    });
    rx.recv_timeout(std::time::Duration::from_secs(secs)).ok()
}

fn frac_digits(text: &str) -> usize {
    text.split_once('.').map(|(_, f)| f.len()).unwrap_or(0)
}

impl C17 {
    fn run_pp(&mut self, case: &str, rest: &str, drv: &mut Driver, out: &mut CaseOutcome) {
        let vals: Vec<i32> = parse_i64s(rest).into_iter().map(|x| x as i32).collect();
        out.nontrivial = vals.iter().any(|v| v % (1 << 20) != 0);
        let reply = drv.ask(case);
        let ms: Vec<&str> = reply.split(' ').collect();
        assert_eq!(ms.len(), vals.len(), "driver reply malformed: {reply}");
        // batch through one property list; attribute per value only when something is off
        let batch = caught(|| file_round_trip(&vals));
        let batch_ok = matches!(&batch, Ok((g, 0)) if g == &vals);
        for (v, m) in vals.iter().zip(ms) {
            let mut mp = m.split(':');
            let (m_text, m_val, m_warn) = (mp.next().unwrap(), mp.next().unwrap(), mp.next().unwrap());
            let text = match caught(|| format!("{}", FixWord(*v))) {
                Ok(t) => t,
                Err(p) => {
                    out.fail(Kind::ImplPanic, "print", format!("panic {}", strip_msg(&p)), format!("Display panicked on {v}: {p}"));
                    continue;
                }
            };
            let ip = (*v as i64 / (1 << 20)).abs();
            out.tag(format!(
                "pp:{}int={}",
                if *v < 0 { "neg," } else { "" },
                match ip {
                    0 => "0",
                    1..=15 => "1..15",
                    16..=2046 => "16..2046",
                    2047 => "2047",
                    _ => "2048",
                }
            ));
            out.tag(format!("pp:digits={}", frac_digits(&text)));
            if text != m_text {
                out.fail(Kind::ImplVsModel, "print", "printed text differs", format!("value {v}: impl {text:?} model {m_text:?}"));
            }
            let (got, warn) = if batch_ok {
                (Some(*v), 0)
            } else {
                match caught(|| file_round_trip(&[*v])) {
                    Ok((g, w)) => (g.first().copied(), w),
                    Err(p) => {
                        out.fail(Kind::ImplPanic, "parse", format!("panic {}", strip_msg(&p)), format!("property list round trip panicked on {v} ({text}): {p}"));
                        continue;
                    }
                }
            };
            let i_show = format!("{}:{}", got.map(|g| g.to_string()).unwrap_or("missing".into()), warn);
            if i_show != format!("{m_val}:{m_warn}") {
                out.fail(Kind::ImplVsModel, "parse", "parsed value differs", format!("value {v} text {text}: impl {i_show} model {m_val}:{m_warn}"));
            }
            if got != Some(*v) || warn != 0 {
                out.tag("pp:round-trip-fails");
                out.fail(
                    Kind::ImplVsSpec,
                    "roundtrip",
                    rt_signature(*v, got, warn, text == "-2048.0" && text == m_text && got == Some(0) && warn == 2 && m_val == "0" && m_warn == "2"),
                    format!("fix_word {v} prints as {text}; the reader returns {i_show} (value:warning)"),
                );
            }
            if m_val.parse::<i64>().ok() != Some(*v as i64) && *v != i32::MIN {
                out.fail(Kind::ModelVsSpec, "roundtrip", "model round trip", format!("value {v}: model reads {m_val}"));
            }
        }
    }

    fn run_ps(&mut self, case: &str, rest: &str, drv: &mut Driver, out: &mut CaseOutcome) {
        let text: String = parse_i64s(rest).into_iter().map(|c| c as u8 as char).collect();
        out.nontrivial = text.chars().any(|c| c.is_ascii_digit());
        let m = drv.ask(case);
        let src = format!("(DESIGNUNITS {text})");
        match caught(|| tfm::pl::File::from_pl_source_code(&src)) {
            Err(p) => out.fail(Kind::ImplPanic, "ps", format!("panic {}", strip_msg(&p)), format!("reader panicked on {text:?}: {p}")),
            Ok((f, ws)) => {
                let w = warn_code(&ws);
                out.tag(format!("ps:warn={w}"));
                if text.contains('.') {
                    out.tag("ps:fraction");
                }
                let i = format!("{} {}", f.design_units.0, w);
                if i != m {
                    out.fail(Kind::ImplVsModel, "ps", "reader differs", format!("text {text:?}: impl {i} model {m}"));
                }
            }
        }
    }

    fn run_sweep(&mut self, case: &str, out: &mut CaseOutcome) {
        out.nontrivial = true;
        let bad = sweep_of(case, self.jobs);
        let a = parse_i64s(case.split_once(' ').unwrap().1);
        self.swept += if case.starts_with("swf") { 1 << 20 } else { a[2] as u64 };
        out.tag(if case.starts_with("swf") { "sweep:all-fractions" } else { "sweep:stride" });
        let mut seen = BTreeSet::new();
        for (v, got, w) in bad {
            let exact = v == i32::MIN && got == Some(0) && w == 2 && caught(|| format!("{}", FixWord(v))).ok().as_deref() == Some("-2048.0");
            let sig = rt_signature(v, got, w, exact);
            if seen.insert(sig.clone()) {
                out.fail(
                    Kind::ImplVsSpec,
                    "roundtrip",
                    sig,
                    format!("fix_word {v} prints as {}; the reader returns {got:?} warning {w}", FixWord(v)),
                );
            }
        }
    }

    fn run_sc(&mut self, case: &str, rest: &str, drv: &mut Driver, out: &mut CaseOutcome) {
        let a = parse_i64s(rest);
        let (v, ds) = (a[0] as i32, a[1] as i32);
        let reply = drv.ask(case);
        let (m, s) = reply.split_once(' ').unwrap();
        let (m, s) = (m.trim_start_matches("M="), s.trim_start_matches("S="));
        let in_guard = ds >= 0 && (-(1 << 24)..(1 << 24)).contains(&v);
        out.nontrivial = in_guard && v != 0 && ds != 0;
        let a_byte = (v as u32) >> 24;
        out.tag(format!("sc:a={}", if a_byte == 0 { "0" } else if a_byte == 255 { "255" } else { "other" }));
        let z = ds / 16;
        out.tag(format!(
            "sc:z={}",
            if z < 0 { "neg".to_string() } else if z < (1 << 23) { "<2^23".into() } else { format!("halve{}", 32 - (z as u32).leading_zeros() - 23) }
        ));
        let i = match caught(|| FixWord(v).to_scaled(FixWord(ds)).0) {
            Ok(x) => x.to_string(),
            Err(_) => "panic".to_string(),
        };
        if i != m {
            out.fail(Kind::ImplVsModel, "sc", "to_scaled differs from model", format!("v={v} ds={ds}: impl {i} model {m}"));
        }
        if in_guard {
            out.tag("sc:in-guard");
            if i == "panic" {
                out.fail(Kind::ImplPanic, "sc", "to_scaled panics inside TeX's legal range", format!("v={v} ds={ds}"));
            } else if i != s {
                out.fail(Kind::ImplVsSpec, "sc", "to_scaled differs from store_scaled", format!("v={v} ds={ds}: impl {i} TeX {s}"));
            }
            if m != s {
                out.fail(Kind::ModelVsSpec, "sc", "model differs from store_scaled", format!("v={v} ds={ds}: model {m} TeX {s}"));
            }
        } else if ds >= 0 && (i == "panic") != (s == "abort") {
            // to_scaled_guard: outside the fix_word range the assert fires exactly where TeX aborts
            out.fail(Kind::ImplVsSpec, "sc", "assert/abort mismatch", format!("v={v} ds={ds}: impl {i} TeX {s}"));
        }
    }

    fn run_cp(&mut self, case: &str, rest: &str, drv: &mut Driver, out: &mut CaseOutcome) {
        let a = parse_i64s(rest);
        let max = a[0];
        let n = a[1] as usize;
        let vals: Vec<i64> = a[2..2 + n].to_vec();
        let distinct: BTreeSet<i64> = vals.iter().copied().collect();
        // every i32 is inside the quantifier since /repo 3d2d8d9 (search and midpoints in i64)
        let in_q = (1..=255).contains(&max) && n <= 300;
        out.nontrivial = distinct.len() > max as usize;
        out.tag(if distinct.len() <= max as usize { "cp:fits" } else { "cp:search" });
        if !in_q {
            out.tag("cp:outside-quantifier");
        }
        if self.hung >= 3 {
            out.tag("cp:skipped-after-hangs");
            return;
        }
        let m = drv.ask(case);
        let fw: Vec<FixWord> = vals.iter().map(|v| FixWord(*v as i32)).collect();
        let res = match with_timeout(10, move || caught(|| tfm::compress(&fw, max as u8))) {
            Some(r) => r,
            None => {
                self.hung += 1;
                out.fail(Kind::ImplPanic, "cp", "compress does not terminate", format!("no result after 10 s; model {m}"));
                return;
            }
        };
        match res {
            Err(p) => {
                out.tag("cp:panic");
                if m != "panic" {
                    out.fail(Kind::ImplVsModel, "cp", "compress panics, model does not", format!("{p}; model {m}"));
                }
                if in_q {
                    out.fail(Kind::ImplPanic, "cp", format!("panic {}", strip_msg(&p)), format!("compress panicked: {p}"));
                }
            }
            Ok((table, map)) => {
                let mut pairs: Vec<(i32, u8)> = map.iter().map(|(k, v)| (k.0, v.get())).collect();
                pairs.sort();
                let mut t: Vec<i64> = vec![table.len() as i64];
                t.extend(table.iter().map(|x| x.0 as i64));
                let mut p: Vec<i64> = vec![pairs.len() as i64];
                for (k, v) in &pairs {
                    p.push(*k as i64);
                    p.push(*v as i64);
                }
                let i = format!("ok {} {}", join(&t), join(&p));
                if i != m {
                    out.fail(Kind::ImplVsModel, "cp", "compress output differs", format!("impl {i}\nmodel {m}"));
                }
                if table.len() > 2 && distinct.len() > max as usize {
                    out.tag("cp:several-classes");
                }
                if in_q {
                    let verdict = drv.ask(&format!("cpchk {} {} {} {}", max, join(&a[1..2 + n]), join(&t), join(&p)));
                    if verdict != "le=1 near=1 min=1" {
                        out.fail(Kind::ImplVsSpec, "cp", format!("compress spec: {verdict}"), format!("output {i}\nverdict {verdict}"));
                    }
                }
            }
        }
    }

    /// The same graphs through a property list: one CHARACTER entry per endpoint, NEXTLARGER
    /// links; observed: the InfiniteLoop warnings and the links that survive in `char_tags`.
    fn run_plnl(&mut self, rest: &str, drv: &mut Driver, out: &mut CaseOutcome) {
        let a = parse_i64s(rest);
        let n = a[0] as usize;
        let es: Vec<(u8, u8)> = (0..n).map(|i| (a[1 + 2 * i] as u8, a[2 + 2 * i] as u8)).collect();
        let link: std::collections::BTreeMap<u8, u8> = es.iter().copied().collect();
        if link.len() != es.len() {
            out.tag("plnl:duplicate-smaller-skipped");
            return;
        }
        out.nontrivial = n >= 2;
        out.tag("plnl:cases");
        let nodes: BTreeSet<u8> = es.iter().flat_map(|e| [e.0, e.1]).collect();
        let mut src = String::new();
        for c in &nodes {
            match link.get(c) {
                Some(l) => src.push_str(&format!("(CHARACTER O {:o} (CHARWD R 1.0) (NEXTLARGER O {:o}))\n", c, l)),
                None => src.push_str(&format!("(CHARACTER O {:o} (CHARWD R 1.0))\n", c)),
            }
        }
        // specification: same request as `nl`, nothing dropped, every endpoint exists
        let reply = drv.ask(&nl_case(false, &[], &es));
        let spec = reply.split(" | ").next().unwrap().to_string();
        let spec_loops = spec.split(" ; ").nth(1).unwrap_or("0").to_string();
        let lv = parse_i64s(&spec_loops);
        let cut: BTreeSet<u8> = (0..lv[0] as usize).map(|i| lv[1 + 2 * i] as u8).collect();
        let mut want_links: Vec<i64> = vec![];
        for (s, l) in &link {
            if !cut.contains(s) {
                want_links.extend([*s as i64, *l as i64]);
            }
        }
        match caught(|| tfm::pl::File::from_pl_source_code(&src)) {
            Err(p) => out.fail(Kind::ImplPanic, "plnl", format!("panic {}", strip_msg(&p)), format!("from_pl_source_code panicked on {} CHARACTER entries with NEXTLARGER: {p}", nodes.len())),
            Ok((f, ws)) => {
                let mut loops: Vec<i64> = vec![];
                let mut other = 0;
                for w in &ws {
                    match &w.kind {
                        tfm::pl::ParseWarningKind::CycleInNextLargerProgram(NextLargerProgramWarning::InfiniteLoop { original, next_larger }) => {
                            loops.extend([original.0 as i64, next_larger.0 as i64])
                        }
                        _ => other += 1,
                    }
                }
                let mut links: Vec<i64> = vec![];
                for (c, t) in &f.char_tags {
                    if let Some(l) = t.list() {
                        links.extend([c.0 as i64, l.0 as i64]);
                    }
                }
                let i_loops = if loops.is_empty() { "0".to_string() } else { format!("{} {}", loops.len() / 2, join(&loops)) };
                if !loops.is_empty() {
                    out.tag("plnl:cycle-cut");
                }
                if i_loops != spec_loops || other != 0 {
                    out.fail(Kind::ImplVsSpec, "plnl", "property list: InfiniteLoop warnings differ", format!("impl {i_loops} (+{other} other warnings)\nspec {spec_loops}"));
                }
                if links != want_links {
                    out.fail(Kind::ImplVsSpec, "plnl", "property list: surviving NEXTLARGER links differ", format!("impl {}\nspec {}", join(&links), join(&want_links)));
                }
            }
        }
    }

    /// The real PL → TFM path: property list text → `pl::File::from_pl_source_code` →
    /// `tfm::File::from` → `serialize` → `deserialize`; one dimension table (`kind` 0 width,
    /// 1 height, 2 depth, 3 italic) is checked by Lean against the true PLtoTF limit.
    fn run_tf(&mut self, rest: &str, drv: &mut Driver, out: &mut CaseOutcome) {
        const LIMIT: [i64; 4] = [255, 15, 15, 63];
        const NAME: [&str; 4] = ["CHARWD", "CHARHT", "CHARDP", "CHARIC"];
        const KIND: [&str; 4] = ["width", "height", "depth", "italic"];
        let a = parse_i64s(rest);
        let kind = a[0] as usize;
        let n = a[1] as usize;
        let vals: Vec<i64> = a[2..2 + n].to_vec();
        assert!(kind < 4 && n <= 256);
        let compressed: Vec<i64> = vals.iter().copied().filter(|v| kind == 0 || *v != 0).collect();
        let distinct: BTreeSet<i64> = compressed.iter().copied().collect();
        out.nontrivial = distinct.len() as i64 > LIMIT[kind];
        let d = distinct.len() as i64 - LIMIT[kind];
        out.tag(format!("tf:{}:distinct{}", KIND[kind], match d { i64::MIN..=-2 => "<limit-1", -1 => "=limit-1", 0 => "=limit", 1 => "=limit+1", 2 => "=limit+2", _ => ">limit+2" }));
        let mut src = String::from("(DESIGNSIZE R 10.0)\n");
        for (c, v) in vals.iter().enumerate() {
            if kind == 0 {
                src.push_str(&format!("(CHARACTER O {:o} (CHARWD R {}))\n", c, FixWord(*v as i32)));
            } else {
                src.push_str(&format!("(CHARACTER O {:o} (CHARWD R 1.0) ({} R {}))\n", c, NAME[kind], FixWord(*v as i32)));
            }
        }
        let res = caught(|| {
            let (pl, ws) = tfm::pl::File::from_pl_source_code(&src);
            let t: tfm::File = pl.into();
            let before = match kind { 0 => t.widths.clone(), 1 => t.heights.clone(), 2 => t.depths.clone(), _ => t.italic_corrections.clone() };
            let bytes = t.serialize();
            let (back, _) = tfm::File::deserialize(&bytes);
            (ws.len(), before, back)
        });
        let (n_warn, before, back) = match res {
            Err(p) => {
                out.fail(Kind::ImplPanic, "tf", format!("panic {}", strip_msg(&p)), format!("PL -> TFM -> bytes -> TFM panicked ({} {} values): {p}", n, KIND[kind]));
                return;
            }
            Ok(x) => x,
        };
        if n_warn != 0 {
            out.tag("tf:pl-warnings");
        }
        let file = match back {
            Err(e) => {
                out.fail(Kind::ImplVsSpec, "tf", format!("tfm {}: serialised file is rejected by the reader", KIND[kind]), format!("{e:?}"));
                return;
            }
            Ok(f) => f,
        };
        let table: Vec<FixWord> = match kind { 0 => file.widths.clone(), 1 => file.heights.clone(), 2 => file.depths.clone(), _ => file.italic_corrections.clone() };
        if table != before {
            out.fail(Kind::ImplVsSpec, "tf", format!("tfm {}: table changes on serialisation", KIND[kind]), format!("before {} entries, after {}", before.len(), table.len()));
        }
        // (value, index read back) per character; one index per value
        let mut idx: std::collections::BTreeMap<i64, i64> = Default::default();
        let mut inconsistent = false;
        for (c, v) in vals.iter().enumerate() {
            let i = match file.char_dimens.get(&Char(c as u8)) {
                None => -1,
                Some(d) => match kind {
                    0 => d.width_index.valid().map(|x| x.get() as i64).unwrap_or(0),
                    1 => d.height_index as i64,
                    2 => d.depth_index as i64,
                    _ => d.italic_index as i64,
                },
            };
            if let Some(old) = idx.insert(*v, i) {
                if old != i {
                    inconsistent = true;
                }
            }
        }
        if inconsistent || idx.values().any(|i| *i < 0) {
            out.fail(Kind::ImplVsSpec, "tf", format!("tfm {}: characters with one value get different indices, or a character is missing", KIND[kind]), format!("{idx:?}"));
            return;
        }
        let mut t: Vec<i64> = vec![table.len() as i64];
        t.extend(table.iter().map(|x| x.0 as i64));
        let mut p: Vec<i64> = vec![idx.len() as i64];
        for (v, i) in &idx {
            p.push(*v);
            p.push(*i);
        }
        // S: Lean checker with the true PLtoTF limit
        let verdict = drv.ask(&format!("tfchk {} {} {} {} {}", kind, n, join(&vals), join(&t), join(&p)).replace("  ", " "));
        if verdict != "le=1 near=1 min=1 zero=1" {
            out.fail(
                Kind::ImplVsSpec,
                "tf",
                format!("tfm {} table (limit {}): {verdict}", KIND[kind], LIMIT[kind]),
                format!("{} distinct compressed values, table of {} entries read back from the serialised file\nverdict {verdict}\ntable {}\n(value index)… {}", distinct.len(), table.len(), join(&t), join(&p)),
            );
        }
        // M: the model of the remapping (`remapDim`: compress with the true limit, then the index of
        // every character, zero heights/depths/italics at index 0)
        let m = drv.ask(&format!("tfm {} {} {}", kind, n, join(&vals)).trim_end().to_string());
        let per_char: Vec<i64> = vals.iter().map(|v| idx[v]).collect();
        let i_show = format!("ok {} {} {}", join(&t), n, join(&per_char)).trim_end().to_string();
        if i_show != m {
            out.fail(Kind::ImplVsModel, "tf", format!("tfm {} table or character indices differ from the model of the remapping (limit {})", KIND[kind], LIMIT[kind]), format!("impl {i_show}\nmodel {m}"));
        }
    }

    fn run_nl(&mut self, case: &str, rest: &str, drv: &mut Driver, out: &mut CaseOutcome) {
        let a = parse_i64s(rest);
        let drop = a[0] != 0;
        let k = a[1] as usize;
        let ne: BTreeSet<u8> = a[2..2 + k].iter().map(|x| *x as u8).collect();
        let n = a[2 + k] as usize;
        let es: Vec<(u8, u8)> = (0..n).map(|i| (a[3 + k + 2 * i] as u8, a[4 + k + 2 * i] as u8)).collect();
        let smallers: BTreeSet<u8> = es.iter().map(|e| e.0).collect();
        let functional = smallers.len() == es.len();
        out.nontrivial = n >= 2;
        out.tag(if functional { "nl:functional" } else { "nl:duplicate-smaller" });
        {
            let mut indeg = [0u32; 256];
            for e in &es {
                indeg[e.1 as usize] += 1;
            }
            let mx = indeg.iter().copied().max().unwrap_or(0);
            out.tag(format!("nl:max-in-degree={}", match mx { 0..=1 => "0..1", 2..=15 => "2..15", 16..=127 => "16..127", 128..=254 => "128..254", 255 => "255", _ => "256" }));
            if es.len() == 256 {
                out.tag("nl:all-256-characters-linked");
            }
        }
        let m = drv.ask(case);
        // reply: `<specification> | <transcription, ascending order> | <same for descending order>`
        let mut parts = m.split(" | ");
        let (m_spec, m_tr, m_same) = (parts.next().unwrap().to_string(), parts.next().unwrap().to_string(), parts.next().unwrap().to_string());
        let res = caught(|| {
            let (prog, warnings) = NextLargerProgram::new(es.iter().map(|e| (Char(e.0), Char(e.1))), |c| !ne.contains(&c.0), drop);
            let chains: Vec<Vec<u8>> = (0..=255u8).map(|c| prog.get(Char(c)).map(|c| c.0).collect()).collect();
            (warnings, chains)
        });
        match res {
            Err(p) => {
                if functional {
                    out.fail(Kind::ImplPanic, "nl", format!("panic {}", strip_msg(&p)), format!("NextLargerProgram::new panicked: {p}"));
                } else {
                    // Two links for one character: not a functional graph, outside the property
                    // (the in-degree bookkeeping of `new` counts the overwritten link and panics).
                    // Recorded in the histogram and in notes/C17.md only.
                    out.tag("nl:duplicate-smaller-panics");
                    if m_tr != "panic" {
                        out.tag("nl:duplicate-smaller-transcription-does-not-panic");
                    }
                }
            }
            Ok((warnings, chains)) => {
                let mut w1: Vec<i64> = vec![];
                let mut w2: Vec<i64> = vec![];
                let mut order_ok = true;
                for w in &warnings {
                    match w {
                        NextLargerProgramWarning::NonExistentCharacter { original, next_larger } => {
                            if !w2.is_empty() {
                                order_ok = false;
                            }
                            w1.extend([original.0 as i64, next_larger.0 as i64])
                        }
                        NextLargerProgramWarning::InfiniteLoop { original, next_larger } => w2.extend([original.0 as i64, next_larger.0 as i64]),
                    }
                }
                let mut ch: Vec<i64> = vec![];
                let mut nk = 0;
                let mut longest = 0;
                for (c, l) in chains.iter().enumerate() {
                    if !l.is_empty() {
                        nk += 1;
                        longest = longest.max(l.len());
                        ch.push(c as i64);
                        ch.push(l.len() as i64);
                        ch.extend(l.iter().map(|x| *x as i64));
                    }
                }
                if !w2.is_empty() {
                    out.tag("nl:cycle-cut");
                }
                if w2.len() > 2 {
                    out.tag("nl:several-cycles");
                }
                if !w1.is_empty() {
                    out.tag(if drop { "nl:nonexistent-dropped" } else { "nl:nonexistent-kept" });
                }
                out.tag(format!("nl:longest={}", match longest { 0 => "0", 1 => "1", 2..=4 => "2..4", 5..=30 => "5..30", _ => ">30" }));
                let fmt = |v: &Vec<i64>| if v.is_empty() { "0".to_string() } else { format!("{} {}", v.len() / 2, join(v)) };
                let chs = if ch.is_empty() { "0".to_string() } else { format!("{} {}", nk, join(&ch)) };
                let i = format!("{} ; {} ; {}", fmt(&w1), fmt(&w2), chs);
                let m_main = m_spec.as_str();
                // I vs M: the transcription of `new`/`get` (loop warnings and chains)
                let i_tr = format!("{} ; {}", fmt(&w2), chs);
                if i_tr != m_tr {
                    if functional {
                        let what = if m_tr == "panic" || m_tr == "fuel" { m_tr.as_str() } else if i_tr.split(" ; ").next() != m_tr.split(" ; ").next() { "cycle cuts" } else { "chains" };
                        out.fail(Kind::ImplVsModel, "nl", format!("next-larger differs from the transcription: {what}"), format!("impl {i_tr}\nmodel {m_tr}"));
                    } else {
                        out.tag("nl:duplicate-smaller-differs-from-transcription");
                    }
                }
                if i != m_main || !order_ok {
                    // which part?
                    let ip: Vec<&str> = i.split(" ; ").collect();
                    let mp: Vec<&str> = m_main.split(" ; ").collect();
                    let part = if ip.first() != mp.first() {
                        "non-existent warnings"
                    } else if ip.get(1) != mp.get(1) {
                        "cycle cuts"
                    } else {
                        "chains"
                    };
                    if functional {
                        out.fail(Kind::ImplVsSpec, "nl", format!("next-larger differs: {part}"), format!("impl {i}\nspec {m_main}"));
                    } else {
                        out.tag("nl:duplicate-smaller-differs");
                    }
                }
                if functional && m_same != "1" {
                    out.fail(Kind::ModelVsSpec, "nl", "transcription depends on the HashMap iteration order", m.to_string());
                }
                if functional && m_tr != format!("{} ; {}", m_main.split(" ; ").nth(1).unwrap_or(""), m_main.split(" ; ").nth(2).unwrap_or("")) {
                    out.fail(Kind::ModelVsSpec, "nl", "transcription differs from the cut-graph specification", m.to_string());
                }
            }
        }
    }
}

// ------------------------------------------------------------------------------------------
// generators
// ------------------------------------------------------------------------------------------

fn gen_fix(r: &mut Rng) -> i32 {
    match r.below(10) {
        0 => interesting_i32(r),
        1 => r.next_u64() as i32,
        2 => r.range(-(1 << 24), 1 << 24) as i32,
        3 => r.range(-(1 << 21), 1 << 21) as i32,
        4 => {
            // decimal fractions k/10^j
            let j = r.range(1, 7) as u32;
            let k = r.range(0, 10i64.pow(j));
            (((k << 20) + 10i64.pow(j) / 2) / 10i64.pow(j) + r.range(-1, 1)) as i32
        }
        5 => ((r.range(-2048, 2047) << 20) + r.range(-3, 3)).clamp(MIN, i32::MAX as i64) as i32,
        6 => ((r.range(2040, 2047) << 20) + r.range(0, (1 << 20) - 1)) as i32,
        7 => (-((r.range(2040, 2047) << 20) + r.range(0, (1 << 20) - 1))) as i32,
        8 => (1i64 << r.range(0, 30)) as i32 * if r.chance(1, 2) { -1 } else { 1 },
        _ => r.range(-4000, 4000) as i32,
    }
}

fn gen_text(r: &mut Rng) -> String {
    let mut s = String::new();
    let sp = |r: &mut Rng, s: &mut String| {
        for _ in 0..*r.pick(&[0, 0, 1, 1, 2]) {
            s.push(' ');
        }
    };
    sp(r, &mut s);
    s.push(*r.pick(&['R', 'R', 'R', 'R', 'R', 'R', 'D', 'D', 'r', 'd', 'X', '1', '-']));
    if r.chance(1, 30) {
        s.pop();
    }
    sp(r, &mut s);
    for _ in 0..*r.pick(&[0, 0, 0, 1, 1, 2, 3]) {
        s.push(*r.pick(&['-', '-', '+', ' ']));
    }
    match r.below(8) {
        0 => {}
        1 => s.push_str(&r.range(2040, 2050).to_string()),
        2 => s.push_str(&r.range(0, 20).to_string()),
        3 => s.push_str(&format!("{:05}", r.range(0, 3000))),
        4 => s.push_str(&r.range(0, 99_999_999_999).to_string()),
        5 => s.push_str("2047"),
        _ => s.push_str(&r.range(0, 2100).to_string()),
    }
    if r.chance(4, 5) {
        s.push('.');
        match r.below(6) {
            0 => {}
            1 => s.push_str(&"9".repeat(r.range(1, 9) as usize)),
            2 => s.push_str(&format!("{:07}", r.range(9_999_900, 9_999_999))),
            _ => {
                for _ in 0..r.range(0, 9) {
                    s.push((b'0' + r.below(10) as u8) as char);
                }
            }
        }
    }
    if r.chance(1, 6) {
        s.push_str(*r.pick(&[" ", "X", " 5", "-", ".", ".5", "e3"]));
    }
    s
}

fn text_case(t: &str) -> String {
    format!("ps {}", join(&t.bytes().map(|b| b as i64).collect::<Vec<_>>()))
}

fn gen_cp(r: &mut Rng) -> String {
    let n = match r.below(8) {
        0 => r.range(0, 3),
        1 => 300,
        2 => r.range(250, 300),
        _ => r.range(1, 60),
    } as usize;
    let max = match r.below(6) {
        0 => 1,
        1 => 255,
        2 => r.range(1, 255),
        3 => *r.pick(&[15, 16, 63, 64]),
        _ => r.range(1, 12),
    };
    let max = if r.chance(1, 60) { 0 } else { max };
    let style = r.below(8);
    let base = r.range(-(1 << 24), 1 << 24);
    let vals: Vec<i64> = (0..n)
        .map(|i| match style {
            0 => r.range(-20, 20),
            1 => if base % 2 == 0 { r.range(-(1 << 24), (1 << 24) - 1) } else { r.next_u64() as i32 as i64 },
            2 => base + (i as i64) * 7 + r.range(0, 1),
            3 => (r.range(0, 6) << 18) + r.range(-40, 40),
            4 => r.range(0, 1 << 20),
            5 => -(r.range(0, 1 << 20)),
            6 => {
                if r.chance(1, 25) {
                    interesting_i32(r) as i64
                } else {
                    r.range(-3000, 3000)
                }
            }
            _ => ((1i64 << r.range(0, 31)) * if r.chance(1, 2) { -1 } else { 1 }).clamp(MIN, i32::MAX as i64),
        })
        .collect();
    format!("cp {} {} {}", max, n, join(&vals))
}

fn nl_case(drop: bool, ne: &[u8], es: &[(u8, u8)]) -> String {
    let mut v: Vec<i64> = vec![drop as i64, ne.len() as i64];
    v.extend(ne.iter().map(|x| *x as i64));
    v.push(es.len() as i64);
    for e in es {
        v.push(e.0 as i64);
        v.push(e.1 as i64);
    }
    format!("nl {}", join(&v))
}

/// Structured extreme functional graphs on the full 256-character set (every character has at
/// most one link): hubs of maximal in-degree, long paths, permutations of every cycle type.
fn extreme_fixed() -> Vec<Vec<(u8, u8)>> {
    let all = || 0..=255u8;
    let mut out: Vec<Vec<(u8, u8)>> = vec![];
    // stars onto a hub, without / with the hub's self-loop: in-degree 255 / 256
    for h in [0u8, 65, 200, 255] {
        out.push(all().filter(|c| *c != h).map(|c| (c, h)).collect());
        out.push(all().map(|c| (c, h)).collect());
        // 254 links + self loop (in-degree 255 incl. itself)
        out.push(all().filter(|c| *c != h.wrapping_add(1)).map(|c| (c, h)).collect());
    }
    // several hubs sharing the characters (hubs point at each other / themselves)
    for k in [2usize, 3, 4, 16] {
        let hubs: Vec<u8> = (0..k).map(|i| (i * 255 / (k - 1).max(1)) as u8).collect();
        out.push(all().map(|c| (c, hubs[c as usize % k])).collect());
        out.push(all().filter(|c| !hubs.contains(c)).map(|c| (c, hubs[c as usize % k])).collect());
    }
    // two hubs with 128 links each, the hubs in a 2-cycle
    out.push(all().map(|c| if c == 0 { (0, 255) } else if c == 255 { (255, 0) } else { (c, if c < 128 { 0 } else { 255 }) }).collect());
    // long paths 0 -> 1 -> ... -> 255 ending in a cycle of length j+1 (j = 0: self-loop; 255: the 256-cycle)
    for j in [0u8, 1, 2, 127, 254, 255] {
        out.push(all().map(|c| if c == 255 { (255, 255 - j) } else { (c, c + 1) }).collect());
    }
    // the same downwards (the largest character is the entry of the path, not on the cycle)
    for j in [0u8, 1, 5, 255] {
        out.push(all().map(|c| if c == 0 { (0, j) } else { (c, c - 1) }).collect());
    }
    // paths of length 255 / 254 without a cycle
    out.push((0..255u8).map(|c| (c, c + 1)).collect());
    out.push((1..=255u8).map(|c| (c, c - 1)).collect());
    out.push((0..254u8).map(|c| (c, c + 1)).collect());
    // "all point to c + k mod 256": gcd(k, 256) cycles of length 256 / gcd
    for k in [1u16, 2, 3, 4, 64, 127, 128, 255] {
        out.push(all().map(|c| (c, ((c as u16 + k) % 256) as u8)).collect());
    }
    // 128 two-cycles, interleaved and nested
    out.push(all().map(|c| (c, c ^ 1)).collect());
    out.push(all().map(|c| (c, 255 - c)).collect());
    // cycles of lengths 1, 2, 3, …, 22 and one of 3 (sum 256), consecutive blocks
    let mut lens: Vec<usize> = (1..=22).collect();
    lens.push(3);
    for ls in [lens, vec![128, 128], vec![255, 1], vec![1, 255], vec![85, 85, 86], vec![2; 128], vec![1; 256]] {
        let mut es = vec![];
        let mut start = 0usize;
        for l in ls {
            for i in 0..l {
                es.push(((start + i) as u8, (start + (i + 1) % l) as u8));
            }
            start += l;
        }
        out.push(es);
    }
    out
}

fn extreme_random(r: &mut Rng) -> Vec<(u8, u8)> {
    let mut es: Vec<(u8, u8)> = match r.below(4) {
        0 => {
            // a few hubs of high in-degree, the rest random
            let hubs: Vec<u8> = (0..r.range(1, 4)).map(|_| r.below(256) as u8).collect();
            let p = r.range(50, 100) as u64;
            (0..=255u8).map(|c| (c, if r.chance(p, 100) { *r.pick(&hubs) } else { r.below(256) as u8 })).collect()
        }
        1 => {
            // random permutation: random cycle type
            let mut p: Vec<u8> = (0..=255u8).collect();
            for i in (1..256usize).rev() {
                let j = r.below((i + 1) as u64) as usize;
                p.swap(i, j);
            }
            (0..=255u8).map(|c| (c, p[c as usize])).collect()
        }
        2 => {
            // a star under a random relabelling, hub in or out
            let h = r.below(256) as u8;
            let with_self = r.chance(1, 2);
            (0..=255u8).filter(|c| with_self || *c != h).map(|c| (c, h)).collect()
        }
        _ => {
            // a long path through a random relabelling, closed somewhere
            let mut p: Vec<u8> = (0..=255u8).collect();
            for i in (1..256usize).rev() {
                let j = r.below((i + 1) as u64) as usize;
                p.swap(i, j);
            }
            let back = r.below(256) as usize;
            (0..256usize).map(|i| (p[i], if i == 255 { p[back] } else { p[i + 1] })).collect()
        }
    };
    if r.chance(1, 2) {
        for i in (1..es.len()).rev() {
            let j = r.below((i + 1) as u64) as usize;
            es.swap(i, j);
        }
    }
    es
}

fn plnl_case(es: &[(u8, u8)]) -> String {
    let mut v: Vec<i64> = vec![es.len() as i64];
    for e in es {
        v.push(e.0 as i64);
        v.push(e.1 as i64);
    }
    format!("plnl {}", join(&v))
}

/// `tf` cases: `n` characters whose `kind` dimension takes `n` (mostly distinct) values.
fn gen_tf(r: &mut Rng, kind: usize, n: usize, style: u64) -> String {
    let n = n.min(256);
    let mut vals: Vec<i64> = match style {
        // arithmetic progression: the optimal tolerance is a known multiple of the step
        0 => {
            let step = *r.pick(&[1i64, 2, 3, 1000, 65536]);
            (0..n as i64).map(|i| (i + 1) * step).collect()
        }
        // random distinct values in the legal range, both signs
        1 => {
            let mut s = BTreeSet::new();
            while s.len() < n {
                let v = r.range(-(1 << 24) + 1, (1 << 24) - 1);
                if v != 0 {
                    s.insert(v);
                }
            }
            s.into_iter().collect()
        }
        // widely spread with a few very close pairs: the optimal tolerance is tiny
        2 => {
            let mut v: Vec<i64> = (0..n as i64).map(|i| (i + 1) * 60000).collect();
            for _ in 0..r.range(1, 3) {
                let i = r.below(n.max(2) as u64 - 1) as usize;
                if i + 1 < v.len() {
                    v[i + 1] = v[i] + r.range(1, 3);
                }
            }
            v
        }
        // with zeros and duplicates
        _ => (0..n).map(|_| if r.chance(1, 10) { 0 } else { r.range(1, (n as i64) * 2) * 4096 }).collect(),
    };
    // characters in random order
    for i in (1..vals.len()).rev() {
        let j = r.below((i + 1) as u64) as usize;
        vals.swap(i, j);
    }
    format!("tf {} {} {}", kind, vals.len(), join(&vals)).trim_end().to_string()
}

fn gen_nl(r: &mut Rng, max_nodes: usize) -> String {
    let n = 1 + r.below(max_nodes as u64) as usize;
    // distinct labels
    let mut labels: Vec<u8> = (0..=255u8).collect();
    for i in 0..n {
        let j = i + r.below((256 - i) as u64) as usize;
        labels.swap(i, j);
    }
    let labels = &labels[..n];
    let style = r.below(6);
    let mut es: Vec<(u8, u8)> = vec![];
    for i in 0..n {
        let has = match style {
            0 | 2 | 3 => true,
            1 => r.chance(1, 2),
            _ => r.chance(4, 5),
        };
        if !has {
            continue;
        }
        let t = match style {
            2 => (i + 1) % n,                       // one big cycle
            3 => if i + 1 < n { i + 1 } else { i }, // a chain ending in a self loop
            4 => r.below((i + 1) as u64) as usize,  // links to earlier nodes: forests + self loops
            _ => r.below(n as u64) as usize,
        };
        es.push((labels[i], labels[t]));
    }
    // shuffle edge order
    for i in (1..es.len()).rev() {
        let j = r.below((i + 1) as u64) as usize;
        es.swap(i, j);
    }
    let ne: Vec<u8> = if r.chance(1, 3) { (0..r.range(1, 3)).map(|_| *r.pick(labels)).collect() } else { vec![] };
    if r.chance(1, 40) && !es.is_empty() {
        // outside the quantifier: two links for one character
        let e = *r.pick(&es);
        es.push((e.0, *r.pick(labels)));
    }
    nl_case(r.chance(1, 2), &ne, &es)
}

impl Property for C17 {
    fn id(&self) -> &'static str {
        "C17"
    }
    fn rule(&self) -> String {
        "pp: boundary fix_words (powers of two ±3, integer parts 0/15/16/2047/2048, decimal fractions k/10^j ±1) then random ones, 32 per case, each through Display + pl::File::display + from_pl_source_code and through the Lean model; \
         swf/sws: Rust-only exhaustive sweeps of the round trip (quick: all 2^20 fractions of integer parts 0 and -2047, stride 65521 over all 2^32 patterns; thorough: ALL 2^32 patterns in 64 cases of 2^26 unless VERIF_C17_FULL=0, then all 2^20 fractions x 64 integer parts + stride 257; see extra.swept_fix_words_rust_only); \
         ps: structured random decimal texts (prefix, signs, integer part around 2047/2048, 0..9 fraction digits, junk) through the real reader; \
         sc: (value, design size) grid over boundary values (bytes of v, z at every halving threshold) and random pairs; \
         cp: all lists of length ≤ 4 over 6 values × class limits 1..3, then random multisets of ≤ 300 values (clustered, progressions, legal range, powers of two, a few at the ends of the i32 range) × class limits 1..255; \
         tf: property lists with n characters whose width/height/depth/italic takes n values, n at and around the true limits (254..256 widths, 14..17 and 30 heights/depths, 62..65 and 126 italics, 256 of each), as arithmetic progressions, random legal values of both signs, spread values with a few close pairs, values with zeros and duplicates, characters shuffled, through from_pl_source_code -> tfm::File::from -> serialize -> deserialize, the table and indices read back checked by Lean against the TRUE PLtoTF limits 255/15/15/63 and against the model of compress; nl: all functional graphs on ≤ 5 nodes (quick: ≤ 4, and a third of those on 5) with permuted labels, random graphs ≤ 256 nodes (random maps, permutations, one big cycle, chains, forests), non-existent targets kept/dropped; structured extreme graphs on all 256 characters (stars onto hubs 0/65/200/255 with in-degree 254/255/256, several hubs, paths of length 254..256 into cycles of length 1..256, c -> c+k mod 256, 128 two-cycles, permutations of many cycle types) as a fixed set plus random ones (hubs, random permutations, relabelled stars and paths), and the same shapes through a property list with one CHARACTER/NEXTLARGER entry per character (plnl: InfiniteLoop warnings and surviving links against the cut graph; quick: a quarter of them, thorough: all). \
         Non-trivial = pp: some value with a non-zero fraction; ps: text contains a digit; sc: inside the guard with v ≠ 0 and ds ≠ 0; cp: more distinct values than classes; tf: more distinct compressed values than the true limit; nl: at least 2 edges; sweeps always. distinct = distinct case string."
            .into()
    }
    fn builtin_corpus(&self) -> Vec<String> {
        let mut v = vec![];
        // C17-a
        v.push("pp -2147483648".to_string());
        let mut b: Vec<i64> = vec![0, 1, -1, 2, 5, 10, 524288, -524288, 1048575, 1048576, 1048577, -1048575, -1048576, -1048577, 104858, 104857, 10486, 1049, 105, 2147483647, -2147483647, 2146435072, -2146435072, 2146435071, 16777216, 16777215, -16777216, -16777217];
        for k in 0..31 {
            for d in -3..=3 {
                b.push(((1i64 << k) + d).clamp(MIN, i32::MAX as i64));
                b.push((-(1i64 << k) + d).clamp(MIN, i32::MAX as i64));
            }
        }
        for c in b.chunks(32) {
            v.push(format!("pp {}", join(c)));
        }
        for t in [
            "R 1.0", "R -2048.0", "R 2048", "R 2047.9999999", "R 2047.9999995", "R 2047.999999", "R -2047.9999999", "D 0.5", "r .5", "d -.5", "R --1.5", "R +-+ -2.25", "R", "", "X 1.0", "R 1.", "R .", "R -", "R 0.00000049", "R 0.0000005", "R 0.9999999", "R 1.99999999", "R 15.9999999", "R 00000001.5", "R 99999999999999999999.5", "R 1.5X", "R 1 .5", "  R  1.5  ",
        ] {
            v.push(text_case(t));
        }
        // to_scaled boundaries
        let vs: &[i64] = &[0, 1, -1, 255, 256, 65535, 65536, 1048576, -1048576, 16777215, -16777216, 16777216, -16777217, 2147483647, -2147483648, 11184810, -11184810, 8388607, -8388608];
        let dss: &[i64] = &[0, 1, 15, 16, 17, 1048576, 10485760, 134217712, 134217727, 134217728, 134217744, 268435455, 268435456, 536870912, 1073741824, 2147483647, -1, -16, -1048576, -2147483648];
        for &x in vs {
            for &d in dss {
                v.push(format!("sc {x} {d}"));
            }
        }
        // compress: the repository's own unit-test inputs and edge cases
        for c in [
            "cp 1 0", "cp 1 1 5", "cp 0 1 5", "cp 0 2 5 6", "cp 1 2 5 6", "cp 2 3 1 4 5", "cp 1 3 1 4 5", "cp 2 5 1 4 5 100 101", "cp 2 4 0 1 2 3", "cp 2 4 -3 -2 0 1",
            "cp 1 2 -3 0", "cp 1 2 -2147483648 2147483647", "cp 1 2 1073741824 1073741825", "cp 1 2 -1073741824 -1073741825", "cp 3 6 1 1 1 2 2 9", "cp 255 3 1 2 3",
            "cp 2 6 0 10 20 30 40 50", "cp 3 7 0 1 3 6 10 15 21", "cp 2 3 -1073741823 0 1073741823",
        ] {
            v.push(c.to_string());
        }
        // next larger: the documented examples
        v.push(nl_case(true, &[], &[(65, 66), (66, 67)]));
        v.push(nl_case(true, &[], &[(65, 66), (66, 67), (67, 65)]));
        v.push(nl_case(true, &[], &[(1, 1)]));
        v.push(nl_case(true, &[], &[(1, 2), (2, 1), (3, 4), (4, 3), (5, 1)]));
        v.push(nl_case(false, &[67], &[(65, 66), (66, 67)]));
        v.push(nl_case(true, &[67], &[(65, 66), (66, 67)]));
        v.push(nl_case(true, &[], &[]));
        v
    }

    fn generate(&mut self, ctx: &Ctx, rng: &mut Rng) -> Vec<String> {
        self.jobs = ctx.jobs.max(1);
        let mut v = vec![];
        let t = ctx.thorough;
        // exhaustive small scope: compress
        let pool = [-2i64, 0, 1, 3, 4, 9];
        for len in 0..=4usize {
            let mut idx = vec![0usize; len];
            loop {
                let vals: Vec<i64> = idx.iter().map(|i| pool[*i]).collect();
                for max in 1..=3 {
                    v.push(format!("cp {} {} {}", max, len, join(&vals)).trim_end().to_string());
                }
                let mut k = 0;
                while k < len {
                    idx[k] += 1;
                    if idx[k] < pool.len() {
                        break;
                    }
                    idx[k] = 0;
                    k += 1;
                }
                if k == len {
                    break;
                }
            }
        }
        // exhaustive small scope: functional graphs
        let label_sets: [[u8; 5]; 2] = [[3, 200, 7, 255, 0], [10, 11, 12, 13, 14]];
        let mut count = 0u64;
        for n in 1..=5usize {
            let mut tgt = vec![0usize; n]; // 0 = no edge, k = edge to node k-1
            loop {
                count += 1;
                if t || n <= 4 || count % 3 == 0 {
                    let labels = &label_sets[(count % 2) as usize];
                    let mut es: Vec<(u8, u8)> = (0..n).filter(|i| tgt[*i] > 0).map(|i| (labels[i], labels[tgt[i] - 1])).collect();
                    if count % 4 >= 2 {
                        es.reverse();
                    }
                    v.push(nl_case(true, &[], &es));
                }
                let mut k = 0;
                while k < n {
                    tgt[k] += 1;
                    if tgt[k] <= n {
                        break;
                    }
                    tgt[k] = 0;
                    k += 1;
                }
                if k == n {
                    break;
                }
            }
        }
        // sweeps
        if t && std::env::var("VERIF_C17_FULL").map(|v| v != "0").unwrap_or(true) {
            // all 2^32 bit patterns, 64 cases of 2^26 (measured: 104 CPU-minutes in total, 6.5 min
            // wall on 16 idle cores, 15 min on a machine with load 30). VERIF_C17_FULL=0 cuts this
            // to all 2^20 fractions x 64 integer parts + every 257th pattern.
            for k in 0..64i64 {
                v.push(format!("sws {} 1 {}", MIN + (k << 26), 1u64 << 26));
            }
        } else if t {
            for ip in [0i64, 1, 2, 7, 9, 10, 15, 16, 99, 100, 255, 256, 999, 1000, 1023, 1024, 2000, 2046, 2047] {
                v.push(format!("swf {ip} 0"));
                v.push(format!("swf {ip} 1"));
            }
            let mut r = rng.fork();
            for _ in 0..26 {
                v.push(format!("swf {} {}", r.range(0, 2047), r.below(2)));
            }
            // every 257th pattern over all 2^32
            v.push(format!("sws {} 257 {}", MIN, (1u64 << 32) / 257 + 1));
        } else {
            v.push("swf 0 0".into());
            v.push("swf 2047 1".into());
            v.push(format!("sws {} 65521 {}", MIN, (1u64 << 32) / 65521 + 1));
        }
        let (n_pp, n_ps, n_sc, n_cp, n_nl, n_nl_big) = if t { (20_000, 100_000, 200_000, 30_000, 30_000, 300) } else { (2_000, 10_000, 20_000, 3_000, 3_000, 30) };
        let mut r = rng.fork();
        for _ in 0..n_pp {
            let vals: Vec<i64> = (0..32).map(|_| gen_fix(&mut r) as i64).collect();
            v.push(format!("pp {}", join(&vals)));
        }
        let mut r = rng.fork();
        for _ in 0..n_ps {
            v.push(text_case(&gen_text(&mut r)));
        }
        let mut r = rng.fork();
        let ds_b: &[i64] = &[0, 16, 1 << 20, 10 << 20, (1 << 27) - 16, 1 << 27, 1 << 28, 1 << 29, 1 << 30, i32::MAX as i64];
        for _ in 0..n_sc {
            let x = match r.below(6) {
                0 => interesting_i32(&mut r) as i64,
                1 => r.next_u64() as i32 as i64,
                2 => *r.pick(&[-(1i64 << 24), (1 << 24) - 1, 1 << 24, -(1 << 24) - 1]) + r.range(-2, 2),
                _ => r.range(-(1 << 24), (1 << 24) - 1),
            };
            let d = match r.below(6) {
                0 => *r.pick(ds_b) + r.range(-17, 17),
                1 => r.next_u64() as i32 as i64,
                2 => r.range(1 << 20, 100 << 20),
                3 => 1i64 << r.range(0, 30),
                _ => r.range(0, i32::MAX as i64),
            };
            v.push(format!("sc {} {}", x.clamp(MIN, i32::MAX as i64), d.clamp(MIN, i32::MAX as i64)));
        }
        let mut r = rng.fork();
        for _ in 0..n_cp {
            v.push(gen_cp(&mut r));
        }
        let mut r = rng.fork();
        for _ in 0..n_nl {
            v.push(gen_nl(&mut r, 24));
        }
        // the real PL -> TFM path at and around the true class limits 255 / 15 / 15 / 63
        {
            let mut r = rng.fork();
            let limits = [255usize, 15, 15, 63];
            for kind in 0..4 {
                let l = limits[kind];
                let mut ns = vec![1, l - 1, l, l + 1, l + 2, 2 * l, 256];
                if kind == 0 {
                    ns = vec![1, 100, 254, 255, 256];
                }
                for n in ns {
                    for style in 0..4 {
                        if t || style < 3 || n == l + 1 {
                            v.push(gen_tf(&mut r, kind, n, style));
                        }
                    }
                }
            }
            for _ in 0..(if t { 600 } else { 40 }) {
                let kind = r.below(4) as usize;
                let l = limits[kind];
                let n = match r.below(4) {
                    0 => r.range(1, 256) as usize,
                    1 => l + 1,
                    _ => (l as i64 + r.range(-3, 6)).clamp(1, 256) as usize,
                };
                let style = r.below(4);
                v.push(gen_tf(&mut r, kind, n, style));
            }
        }
        // structured extreme graphs on all 256 characters (hubs of in-degree 255/256, long paths,
        // permutations of every cycle type): a fixed set, then random ones; the same shapes
        // through a property list (256 CHARACTER entries with NEXTLARGER)
        let fixed = extreme_fixed();
        for (i, es) in fixed.iter().enumerate() {
            v.push(nl_case(i % 2 == 0, &[], es));
            if t || i % 4 == 0 {
                v.push(plnl_case(es));
            }
        }
        for i in 0..(if t { 400 } else { 24 }) {
            let es = extreme_random(&mut r);
            v.push(nl_case(r.chance(1, 2), &[], &es));
            if t || i % 6 == 0 {
                v.push(plnl_case(&es));
            }
        }
        for _ in 0..n_nl_big {
            v.push(gen_nl(&mut r, 256));
        }
        v
    }

    fn run_case(&mut self, case: &str, drv: &mut Driver) -> CaseOutcome {
        let mut out = CaseOutcome::default();
        let (cmd, rest) = case.split_once(' ').unwrap_or((case, ""));
        match cmd {
            "pp" => self.run_pp(case, rest, drv, &mut out),
            "ps" => self.run_ps(case, rest, drv, &mut out),
            "swf" | "sws" => self.run_sweep(case, &mut out),
            "sc" => self.run_sc(case, rest, drv, &mut out),
            "cp" => self.run_cp(case, rest, drv, &mut out),
            "nl" => self.run_nl(case, rest, drv, &mut out),
            "plnl" => self.run_plnl(rest, drv, &mut out),
            "tf" => self.run_tf(rest, drv, &mut out),
            _ => panic!("bad case {case}"),
        }
        out
    }

    fn shrink(&self, case: &str) -> Vec<String> {
        let (cmd, rest) = case.split_once(' ').unwrap_or((case, ""));
        let mut c = vec![];
        let halves = |xs: &[i64], f: &dyn Fn(&[i64]) -> String, c: &mut Vec<String>| {
            if xs.len() > 1 {
                c.push(f(&xs[..xs.len() / 2]));
                c.push(f(&xs[xs.len() / 2..]));
                for i in 0..xs.len() {
                    let mut o = xs.to_vec();
                    o.remove(i);
                    c.push(f(&o));
                }
            }
        };
        match cmd {
            "swf" | "sws" => {
                for (v, _, _) in sweep_of(case, self.jobs).into_iter().take(3) {
                    c.push(format!("pp {v}"));
                }
            }
            "pp" => halves(&parse_i64s(rest), &|x| format!("pp {}", join(x)), &mut c),
            "ps" => halves(&parse_i64s(rest), &|x| format!("ps {}", join(x)), &mut c),
            "cp" => {
                let a = parse_i64s(rest);
                let max = a[0];
                halves(&a[2..], &|x| format!("cp {} {} {}", max, x.len(), join(x)), &mut c);
                // smaller numbers
                let small: Vec<i64> = a[2..].iter().map(|x| x / 2).collect();
                c.push(format!("cp {} {} {}", max, small.len(), join(&small)));
            }
            "tf" => {
                let a = parse_i64s(rest);
                let kind = a[0];
                halves(&a[2..], &|x| format!("tf {} {} {}", kind, x.len(), join(x)).trim_end().to_string(), &mut c);
            }
            "plnl" => {
                let a = parse_i64s(rest);
                let n = a[0] as usize;
                let es: Vec<(u8, u8)> = (0..n).map(|i| (a[1 + 2 * i] as u8, a[2 + 2 * i] as u8)).collect();
                if n > 1 {
                    c.push(plnl_case(&es[..n / 2]));
                    c.push(plnl_case(&es[n / 2..]));
                    for i in 0..n {
                        let mut o = es.clone();
                        o.remove(i);
                        c.push(plnl_case(&o));
                    }
                }
            }
            "nl" => {
                let a = parse_i64s(rest);
                let k = a[1] as usize;
                let ne: Vec<u8> = a[2..2 + k].iter().map(|x| *x as u8).collect();
                let n = a[2 + k] as usize;
                let es: Vec<(u8, u8)> = (0..n).map(|i| (a[3 + k + 2 * i] as u8, a[4 + k + 2 * i] as u8)).collect();
                if n > 1 {
                    c.push(nl_case(a[0] != 0, &ne, &es[..n / 2]));
                    c.push(nl_case(a[0] != 0, &ne, &es[n / 2..]));
                    for i in 0..n {
                        let mut o = es.clone();
                        o.remove(i);
                        c.push(nl_case(a[0] != 0, &ne, &o));
                    }
                }
                if !ne.is_empty() {
                    c.push(nl_case(a[0] != 0, &[], &es));
                }
            }
            _ => {}
        }
        c
    }

    fn extra_evidence(&self) -> Option<String> {
        Some(format!("\"swept_fix_words_rust_only\": {}", self.swept))
    }
}

#[allow(dead_code)]
fn _unused(_: HashMap<u8, u8>) {}

fn main() {
    run(C17 { jobs: 16, swept: 0, hung: 0 });
}
