//! C10 — TFM and PL readers are total; PL→TFM output is always a readable TFM.
//!
//! Case strings (one ASCII line each):
//!   `h <len> <fill> <hex>`     a file of `len` bytes: the bytes `<hex>` (at most `len` of them),
//!                              padded by the pattern `fill` (0 = zeros). Header sweeps.
//!   `hs <len> <fill> <hex> <word> <start> <count> <stride>`
//!                              a sweep: the `h` file with header word `<word>` set to
//!                              `start + k*stride` for `k < count` (values ≥ 2^16 skipped); the
//!                              model queries of a sweep are pipelined. Shrinks to one `h` case.
//!   `hc <24> <fill> <hex> <word> <start> <count> <stride>`
//!                              the same sweep, but `lf` and the file length are recomputed
//!                              for every value so that the size table stays consistent (the
//!                              values reach the accepting path and the sub-file bodies).
//!   `b <hex>`                  literal bytes.
//!   `t <file> <mut>*`          a corpus .tfm (path relative to `<repo>/crates/`) with byte
//!                              mutations `T<n>` truncate to n, `S<pos>:<byte>` set a byte,
//!                              `X<n>:<fill>` append n pattern bytes, `W<idx>:<u16>` set header
//!                              word idx (0..11).
//!   `p <file> <mut>*`          a corpus property list with token mutations `D<i>` delete token
//!                              i, `R<i>:<hex>` replace it by the text `<hex>`, `I<i>:<hex>`
//!                              insert text before it, `C<i>` cut the file after token i,
//!                              `U<i>:<n>` repeat token i n times, `N<i>:<hex>` replace (or with a
//!                              leading/trailing `+`: prefix/suffix) the value token after the next
//!                              data-type prefix (`C D O H R F`) or character/string property. Tokens: `(`, `)`, runs of
//!                              blanks, runs of other characters.
//!   `pt <text>`                literal property-list text (`\n`, `\\`, `\xHH` escapes).
//!   `e <k> <hex> <text case>`  the text of the inner case without its last k characters, followed
//!                              by the ending `<hex>` (`\r`, `\r\r`, `\r\n`, `\n\r`, `\`, U+0085, …).
//!   `el <mode> <n> <file>`     a corpus list with its line endings rewritten (crlf, cr, crcrlf,
//!                              lfcr, mixed) and cut after n characters.
//!   `pn <n> <text>`            the text followed by n opening parentheses (nesting depth).
//!   `ct <text>`                a canonical rendering of a well-formed tree: the real CST and the
//!                              Lean model must read it without warnings and render it back.
//!   `nf|nu|nb <data>`          the data of one property: the `FixWord` / `u32` / `u8` reader of
//!                              pl/ast.rs (through `DESIGNUNITS` / `CHECKSUM` / `BOUNDARYCHAR`)
//!                              against the Lean readers `Num.parseFix` / `parseU32` / `parseU8`
//!                              (value, span, every warning with span and offset).
//!   `pg <key=n>*`              a property list built from counts (see `gen_counts_pl`): sub-file
//!                              counts at and just beyond each format limit, produced from text.
//!
//! Texts nested deeper than 20 000 are run in a child process (a stack overflow aborts the
//! process and cannot be caught); the abort is reported as `impl-panic` with signature
//! `abort: stack overflow on a deeply nested property list`.
//!
//! Byte cases: real `RawFile::deserialize` (I) vs the Lean model `rawCore false` (M), the Lean
//! spec `layoutOKB` on the real slice bounds (S); then the whole `tfm::algorithms::tfm_to_pl`
//! as `tftopl` calls it, with every message rendered; `validate_and_fix`'s index clamps
//! against the Lean `clampDims`/`clampTag`; and the PL text that comes out is fed to
//! `pl_to_tfm` and read again.
//! Text cases: real `tfm::algorithms::pl_to_tfm` as `pltotf` calls it, every warning rendered;
//! the output bytes must be accepted by the real reader *and* by the Lean model (S), and
//! `tfm_to_pl` must convert them without a panic.
//! A panic anywhere is `impl-panic` with signature `panic <file>:<line>`.

use std::collections::BTreeMap;
use vh::*;

// ------------------------------------------------------------------------------------------
// encodings
// ------------------------------------------------------------------------------------------

fn hex(b: &[u8]) -> String {
    let mut s = String::with_capacity(b.len() * 2);
    for x in b {
        s.push_str(&format!("{x:02x}"));
    }
    s
}
fn unhex(s: &str) -> Vec<u8> {
    let s = s.trim();
    if s == "-" {
        return vec![];
    }
    (0..s.len() / 2).map(|i| u8::from_str_radix(&s[2 * i..2 * i + 2], 16).expect("hex")).collect()
}
fn hex_or_dash(b: &[u8]) -> String {
    if b.is_empty() {
        "-".into()
    } else {
        hex(b)
    }
}
fn fill_byte(i: usize, fill: u64) -> u8 {
    if fill == 0 {
        0
    } else {
        let mut z = (i as u64).wrapping_add(fill).wrapping_mul(0x9E3779B97F4A7C15);
        z ^= z >> 29;
        z = z.wrapping_mul(0xBF58476D1CE4E5B9);
        (z >> 32) as u8
    }
}
fn esc(s: &str) -> String {
    let mut o = String::new();
    for c in s.chars() {
        match c {
            '\n' => o.push_str("\\n"),
            '\\' => o.push_str("\\\\"),
            ' '..='~' => o.push(c),
            c => {
                let mut buf = [0u8; 4];
                for b in c.encode_utf8(&mut buf).bytes() {
                    o.push_str(&format!("\\x{b:02x}"));
                }
            }
        }
    }
    o
}
fn unesc(s: &str) -> String {
    let b = s.as_bytes();
    let mut o: Vec<u8> = vec![];
    let mut i = 0;
    while i < b.len() {
        if b[i] == b'\\' && i + 1 < b.len() {
            match b[i + 1] {
                b'n' => {
                    o.push(b'\n');
                    i += 2;
                }
                b'\\' => {
                    o.push(b'\\');
                    i += 2;
                }
                b'x' if i + 3 < b.len() => {
                    o.push(u8::from_str_radix(&s[i + 2..i + 4], 16).unwrap_or(b'?'));
                    i += 4;
                }
                _ => {
                    o.push(b[i]);
                    i += 1;
                }
            }
        } else {
            o.push(b[i]);
            i += 1;
        }
    }
    String::from_utf8_lossy(&o).into_owned()
}

fn tokens(s: &str) -> Vec<String> {
    let mut out: Vec<String> = vec![];
    let mut cur = String::new();
    let mut cur_kind = 0u8; // 1 = blank run, 2 = word
    for c in s.chars() {
        let k = match c {
            '(' | ')' => 0,
            c if c.is_whitespace() => 1,
            _ => 2,
        };
        if k == 0 || k != cur_kind {
            if !cur.is_empty() {
                out.push(std::mem::take(&mut cur));
            }
        }
        cur.push(c);
        cur_kind = k;
        if k == 0 {
            out.push(std::mem::take(&mut cur));
        }
    }
    if !cur.is_empty() {
        out.push(cur);
    }
    out
}

/// Files longer than this are not sent to the body model.
const BODY_LIMIT: usize = 6_000;

/// Texts longer than this (in characters) are not sent to the CST model.
const CST_LIMIT: usize = 10_000;
/// … and the (well-formed) output of tftopl only up to this length.
const CST_LIMIT_TFTOPL: usize = 3_000;

/// Texts with more unclosed '(' than this are run in a child process.
const NEST_LIMIT: usize = 20_000;

fn max_depth(s: &str) -> usize {
    let (mut d, mut m) = (0usize, 0usize);
    for c in s.bytes() {
        if c == b'(' {
            d += 1;
            m = m.max(d);
        } else if c == b')' {
            d = d.saturating_sub(1);
        }
    }
    m
}

fn header_word(b: &[u8], i: usize) -> i64 {
    i16::from_be_bytes([b[2 * i], b[2 * i + 1]]) as i64
}

// ------------------------------------------------------------------------------------------
// the property
// ------------------------------------------------------------------------------------------

struct C10 {
    repo: String,
    files: BTreeMap<String, Vec<u8>>,
    /// header-word values evaluated inside `hs` sweeps (one case = up to 256 values)
    header_values: u64,
    /// path of the Lean driver (for the child process that runs deeply nested texts)
    driver: String,
    /// seconds spent per case kind (evidence: where the time goes)
    seconds: BTreeMap<String, f64>,
}


fn sizes_vec(s: &tfm::SubFileSizes) -> Vec<i64> {
    [s.lf, s.lh, s.bc, s.ec, s.nw, s.nh, s.nd, s.ni, s.nl, s.nk, s.ne, s.np].iter().map(|x| *x as i64).collect()
}

/// The real `RawFile::deserialize`, rendered exactly like `DrvC10.showOutcome`.
fn real_raw(bytes: &[u8]) -> String {
    use tfm::DeserializationError as E;
    let (r, warnings) = tfm::RawFile::deserialize(bytes);
    let junk = if warnings.is_empty() { 0 } else { 1 };
    match r {
        Ok(raw) => {
            let base = bytes.as_ptr() as usize;
            let mut v = vec![junk];
            v.extend(sizes_vec(&raw.sub_file_sizes));
            v.push(raw.begin_char.0 as i64);
            v.push(raw.end_char.0 as i64);
            for sl in [
                raw.raw_sub_file_sizes,
                raw.header,
                raw.char_infos,
                raw.widths,
                raw.heights,
                raw.depths,
                raw.italic_corrections,
                raw.lig_kern_instructions,
                raw.kerns,
                raw.extensible_recipes,
                raw.params,
            ] {
                let start = sl.as_ptr() as usize - base;
                v.push(start as i64);
                v.push((start + sl.len()) as i64);
            }
            format!("ok {}", join(&v))
        }
        Err(e) => {
            let (name, p): (&str, Vec<i64>) = match &e {
                E::FileIsEmpty => ("empty", vec![]),
                E::FileHasOneByte(b) => ("onebyte", vec![*b as i64]),
                E::InternalFileLengthIsZero => ("lfzero", vec![]),
                E::InternalFileLengthIsNegative(lf) => ("lfneg", vec![*lf as i64]),
                E::InternalFileLengthIsTooBig(lf, n) => ("lftoobig", vec![*lf as i64, *n as i64]),
                E::InternalFileLengthIsTooSmall(lf, n) => ("lftoosmall", vec![*lf as i64, *n as i64]),
                E::SubFileSizeIsNegative(s) => ("negative", sizes_vec(s)),
                E::HeaderLengthIsTooSmall(lh) => ("lhsmall", vec![*lh as i64]),
                E::InvalidCharacterRange(a, b) => ("range", vec![*a as i64, *b as i64]),
                E::IncompleteSubFiles(s) => ("incomplete", sizes_vec(s)),
                E::TooManyExtensibleCharacters(n) => ("manyext", vec![*n as i64]),
                E::InconsistentSubFileSizes(s) => ("inconsistent", sizes_vec(s)),
            };
            // rendering the message is part of what `tftopl` does with an error
            let _ = e.tftopl_message();
            let _ = e.tftopl_section();
            if p.is_empty() {
                format!("err {name} {junk}")
            } else {
                format!("err {name} {junk} {}", join(&p))
            }
        }
    }
}

fn class_of(outcome: &str) -> String {
    let mut w = outcome.split(' ');
    match (w.next(), w.next()) {
        (Some("err"), Some(n)) => format!("err:{n}"),
        (Some("panic"), Some(n)) => format!("panic:{n}"),
        (Some(a), _) => a.to_string(),
        _ => "?".into(),
    }
}

/// `tftopl`'s conversion step, with every message rendered the way the binary prints it.
fn real_tftopl(bytes: &[u8]) -> Result<String, String> {
    let output = tfm::algorithms::tfm_to_pl(bytes, 3, &|pl_file| {
        // tfm-bin/src/shared.rs, CharcodeFormat::Default
        let scheme = match &pl_file.header.character_coding_scheme {
            None => String::new(),
            Some(scheme) => scheme.to_uppercase(),
        };
        if scheme.starts_with("TEX MATH SY") || scheme.starts_with("TEX MATH EX") {
            tfm::pl::CharDisplayFormat::Octal
        } else {
            tfm::pl::CharDisplayFormat::Default
        }
    })
    .unwrap();
    for m in &output.error_messages {
        let _ = m.tftopl_message();
    }
    match output.pl_data {
        Ok(s) => Ok(s),
        Err(e) => Err(e.tftopl_message()),
    }
}

/// `pltotf`'s conversion step; every warning is then rendered the way the binary prints it
/// (separately caught, so that a panic while printing does not hide the bytes from the
/// remaining checks). Returns the bytes, the number of warnings and the first message panic.
fn real_pltotf(text: &str) -> (Vec<u8>, usize, Vec<(String, String)>) {
    let (bytes, warnings) = tfm::algorithms::pl_to_tfm(text);
    // every distinct panic while printing, with the signature of the *defect*: for the
    // `todo!("unhandled {kind:?}")` of `ParseWarningKind::data` (known finding C10-f) the kind
    // that has no message text is part of the signature, so that any other kind that starts
    // to hit the same line is a different, unknown failure
    let mut msg_panics: Vec<(String, String)> = vec![];
    // Printing one warning scans the source from its start (context line), so printing all
    // of n warnings is quadratic: beyond MSG_CAP warnings only the first of every kind and an
    // even sample are printed.
    const MSG_CAP: usize = 200;
    let stride = (warnings.len() / MSG_CAP).max(1);
    let mut kinds_seen: Vec<std::mem::Discriminant<tfm::pl::ParseWarningKind>> = vec![];
    for (j, w) in warnings.iter().enumerate() {
        let d = std::mem::discriminant(&w.kind);
        let first_of_kind = !kinds_seen.contains(&d);
        if first_of_kind {
            kinds_seen.push(d);
        }
        if !(j < MSG_CAP || j % stride == 0 || first_of_kind) {
            continue;
        }
        if let Err(p) = caught(|| w.pltotf_message(text)) {
            let kind_dbg = format!("{:?}", w.kind);
            let kind_name: String = kind_dbg.chars().take_while(|c| c.is_alphanumeric()).collect();
            let sig = match p.split_once("not yet implemented: unhandled ") {
                Some((_, rest)) if rest.starts_with(&kind_name) => format!("panic {} unhandled {kind_name}", strip_msg(&p)),
                _ => format!("panic {} (while printing a {kind_name} warning)", strip_msg(&p)),
            };
            if !msg_panics.iter().any(|(s, _)| *s == sig) {
                msg_panics.push((sig, p));
            }
        }
    }
    (bytes, warnings.len(), msg_panics)
}

/// Does the text contain a `KRN` step whose value is at least 16 in absolute value? (The shape
/// of known finding C10-h: such a kern reaches the `assert!` of `FixWord::to_scaled`.)
fn has_big_kern(text: &str) -> bool {
    use tfm::pl::ast::{Ast, LigTable, Root};
    caught(|| {
        let (Ast(roots), _) = Ast::from_pl_source_code(text);
        roots.iter().any(|r| match r {
            Root::LigTable(b) => b.children.iter().any(|c| match c {
                LigTable::Kern(v) => (v.right.0 as i64).abs() >= 16 << 20,
                _ => false,
            }),
            _ => false,
        })
    })
    .unwrap_or(false)
}

/// The counts of a real `tfm::File` that determine its size table (`C10.FileShape`), as the
/// argument list of the driver's `ser` request, and the first 24 bytes `serialize` writes
/// (or its panic). `pl_to_tfm` is replayed step by step through the same public functions:
/// `pl::File::from_pl_source_code`, `From<pl::File> for tfm::File`, `File::serialize`.
fn real_shape(text: &str) -> (String, Result<Vec<u8>, String>) {
    let (pl_file, _) = tfm::pl::File::from_pl_source_code(text);
    let steps = pl_file.lig_kern_program.instructions.len();
    let file: tfm::File = pl_file.into();
    let (has, bc, ec) = match (file.char_dimens.keys().next(), file.char_dimens.keys().next_back()) {
        (Some(b), Some(e)) => (1, b.0 as usize, e.0 as usize),
        _ => (0, 0, 0),
    };
    let nl = file.lig_kern_program.instructions.len();
    let shape = format!(
        "{} {has} {bc} {ec} {} {} {} {} {} {} {} {} {}",
        file.header.additional_data.len(),
        file.widths.len(),
        file.heights.len(),
        file.depths.len(),
        file.italic_corrections.len(),
        steps.min(nl),
        nl - steps.min(nl),
        file.kerns.len(),
        file.extensible_chars.len(),
        file.params.len()
    );
    let bytes = caught(|| file.serialize());
    (shape, bytes)
}

/// The real `Cst::from_pl_source_code`, encoded exactly like `DrvC10.handleCst`'s reply.
fn real_cst(text: &str) -> String {
    use tfm::pl::cst::{Cst, Node};
    use tfm::pl::ParseWarningKind as K;
    fn chars(s: &str, out: &mut Vec<u64>) {
        out.push(s.chars().count() as u64);
        out.extend(s.chars().map(|c| c as u64));
    }
    fn nodes(ns: &[Node], out: &mut Vec<u64>) {
        // explicit stack: the tree can be 20 000 levels deep
        enum W<'a> {
            N(&'a Node),
        }
        let mut stack: Vec<W> = ns.iter().rev().map(W::N).collect();
        while let Some(W::N(n)) = stack.pop() {
            match n {
                Node::Comment(t) => {
                    out.push(0);
                    chars(t, out);
                }
                Node::Regular(r) => {
                    out.extend([
                        1,
                        r.opening_parenthesis_span.start as u64,
                        r.key_span.start as u64,
                        r.key_span.end as u64,
                        r.data_span.start as u64,
                        r.data_span.end as u64,
                        r.closing_parenthesis_span.start as u64,
                        r.closing_parenthesis_span.end as u64,
                    ]);
                    if r.opening_parenthesis_span.end != r.opening_parenthesis_span.start + 1 {
                        out.push(77777777);
                    }
                    chars(&r.key, out);
                    match &r.data {
                        Some(d) => chars(d, out),
                        None => out.push(99999999),
                    }
                    match &r.children {
                        Some(c) => {
                            out.push(c.len() as u64);
                            for ch in c.iter().rev() {
                                stack.push(W::N(ch));
                            }
                        }
                        None => out.push(99999999),
                    }
                }
            }
        }
    }
    let (Cst(tree), warnings) = Cst::from_pl_source_code(text);
    let mut out: Vec<u64> = vec![tree.len() as u64];
    nodes(&tree, &mut out);
    out.push(warnings.len() as u64);
    for w in &warnings {
        let off = w.knuth_pltotf_offset.map(|x| x as u64).unwrap_or(88888888);
        match &w.kind {
            K::UnbalancedOpeningParenthesis { opening_parenthesis_span: o } => {
                out.extend([0, w.span.start as u64, o.start as u64]);
                if w.span.end != w.span.start || o.end != o.start + 1 || off != w.span.start as u64 {
                    out.push(77777777);
                }
            }
            K::UnexpectedClosingParenthesis => {
                out.extend([1, w.span.start as u64]);
                if w.span.end != w.span.start + 1 || off != w.span.start as u64 {
                    out.push(77777777);
                }
            }
            K::JunkInsidePropertyList { junk } => {
                out.extend([2, w.span.start as u64, w.span.end as u64]);
                chars(junk, &mut out);
                if off != w.span.start as u64 + 1 {
                    out.push(77777777);
                }
            }
            _ => out.push(9),
        }
    }
    // the tree is dropped here: deep trees are dropped recursively by the compiler-generated
    // Drop (that is C10-i); callers bound the nesting depth
    join(&out)
}

/// The real number readers, reached through the public AST (`DESIGNUNITS` = `FixWord`,
/// `CHECKSUM` = `u32`, `BOUNDARYCHAR` = `u8`), rendered like `DrvC10.showRes`. Positions are
/// made relative to the start of the data.
fn real_num(which: &str, data: &str) -> String {
    use tfm::pl::ast::{Ast, Root};
    use tfm::pl::ParseWarningKind as K;
    let key = match which {
        "fix" => "DESIGNUNITS",
        "u32" => "CHECKSUM",
        _ => "BOUNDARYCHAR",
    };
    let base = key.len() + 2;
    let (Ast(roots), warnings) = Ast::from_pl_source_code(&format!("({key} {data})"));
    let (value, span): (i64, std::ops::Range<usize>) = match roots.first() {
        Some(Root::DesignUnits(v)) => (v.data.0 as i64, v.data_span.clone()),
        Some(Root::Checksum(v)) => (v.data as i64, v.data_span.clone()),
        Some(Root::BoundaryChar(v)) => (v.data.0 as i64, v.data_span.clone()),
        _ => return format!("unexpected ast ({} roots)", roots.len()),
    };
    let mut ws: Vec<i64> = vec![];
    let mut n = 0;
    for w in &warnings {
        let (k, r): (i64, i64) = match &w.kind {
            K::InvalidPrefixForInteger { .. } => (0, 0),
            K::InvalidOctalDigit { .. } => (1, 0),
            K::IntegerIsTooBig { radix } => (2, *radix as i64),
            K::InvalidPrefixForDecimalNumber => (3, 0),
            K::DecimalNumberIsTooBig => (4, 0),
            K::SmallIntegerIsTooBig { radix } => (5, *radix as i64),
            K::EmptyCharacterValue => (6, 0),
            K::InvalidFaceCode => (7, 0),
            K::InvalidPrefixForSmallInteger => (8, 0),
            K::JunkAfterPropertyValue { .. } => (9, 0),
            K::NonVisibleAsciiCharacter { .. } => continue,
            _ => (99, 0),
        };
        n += 1;
        let off = w.knuth_pltotf_offset.map(|x| x as i64 - base as i64).unwrap_or(-1);
        ws.extend([k, r, w.span.start as i64 - base as i64, w.span.end as i64 - base as i64, off]);
    }
    format!("ok {value} {} {} {n} {}", span.start as i64 - base as i64, span.end as i64 - base as i64, join(&ws)).trim_end().to_string()
}

/// The canonical one-line rendering of a CST (`C10.Cst.render`): `(` key ` ` data children `)`,
/// comments as `(COMMENT` text `)`.
fn render_cst(nodes: &[tfm::pl::cst::Node], out: &mut String) {
    use tfm::pl::cst::Node;
    for n in nodes {
        match n {
            Node::Comment(t) => {
                out.push_str("(COMMENT");
                out.push_str(t);
                out.push(')');
            }
            Node::Regular(r) => {
                out.push('(');
                out.push_str(&r.key);
                out.push(' ');
                out.push_str(r.data.as_deref().unwrap_or(""));
                render_cst(r.children.as_deref().unwrap_or(&[]), out);
                out.push(')');
            }
        }
    }
}

/// A random well-formed tree in canonical rendering: keys over `[A-Za-z0-9/>]` (possibly empty,
/// never `COMMENT`), data without parentheses that does not start with a blank, comments with
/// balanced parentheses that do not start with a key character.
fn gen_canonical(r: &mut Rng, depth: u32, out: &mut String) {
    let n = r.below(4) + if depth == 0 { 1 } else { 0 };
    for _ in 0..n {
        if r.chance(1, 6) {
            out.push_str("(COMMENT");
            let mut open = 0;
            out.push(*r.pick(&[' ', '\n', '-', '.']));
            for _ in 0..r.below(12) {
                match r.below(6) {
                    0 => {
                        out.push('(');
                        open += 1;
                    }
                    1 if open > 0 => {
                        out.push(')');
                        open -= 1;
                    }
                    _ => out.push(*r.pick(&['a', 'Z', ' ', '\n', '7', '/', '>', '.', '-'])),
                }
            }
            for _ in 0..open {
                out.push(')');
            }
            out.push(')');
        } else {
            out.push('(');
            let key: String = match r.below(8) {
                0 => String::new(),
                1 => "COMMENTS".into(),
                2 => "/LIG/>".into(),
                3 => "COMMEN".into(),
                _ => (0..1 + r.below(8)).map(|_| *r.pick(&['A', 'b', 'C', 'O', 'M', 'E', 'N', 'T', '9', '/', '>'])).collect(),
            };
            let key = if key == "COMMENT" { "COMMENT9".to_string() } else { key };
            out.push_str(&key);
            out.push(' ');
            if r.chance(3, 4) {
                out.push(*r.pick(&['R', 'D', 'x', '-', '.', '5']));
                for _ in 0..r.below(8) {
                    out.push(*r.pick(&['a', ' ', ' ', '\n', '1', '.', '-', 'Z']));
                }
            }
            if depth < 4 && r.chance(1, 2) {
                gen_canonical(r, depth + 1, out);
            }
            out.push(')');
        }
    }
}

/// The real `tfm::File::deserialize` (before validation), encoded exactly like `DrvC10.encBody`.
fn real_body(bytes: &[u8]) -> String {
    use tfm::ligkern::lang::{Operation, PostLigOperation as P};
    let (r, warnings) = tfm::File::deserialize(bytes);
    let f = match r {
        Ok(f) => f,
        Err(_) => return "err".into(),
    };
    let mut v: Vec<i64> = vec![];
    let opt_str = |s: &Option<String>, v: &mut Vec<i64>| match s {
        None => v.push(-1),
        Some(s) => {
            v.push(s.chars().count() as i64);
            v.extend(s.chars().map(|c| c as i64));
        }
    };
    let h = &f.header;
    v.push(h.checksum.map(|x| x as i64).unwrap_or(-7));
    v.push(h.design_size.0 as i64);
    opt_str(&h.character_coding_scheme, &mut v);
    opt_str(&h.font_family, &mut v);
    v.push(match h.seven_bit_safe {
        None => -1,
        Some(b) => b as i64,
    });
    v.push(match h.face {
        None => -1,
        Some(face) => u8::from(face) as i64,
    });
    v.push(h.additional_data.len() as i64);
    v.extend(h.additional_data.iter().map(|x| *x as i64));
    v.push(f.smallest_char.0 as i64);
    // the characters bc..=ec that have a char-info word: dims and tags are kept in two maps
    let sfs = tfm::RawFile::deserialize(bytes).0.ok().map(|r| (r.begin_char.0 as i64, r.end_char.0 as i64, r.char_infos.len() / 4));
    let (bc, ec, nci) = sfs.unwrap_or((1, 0, 0));
    let n = ((ec + 1 - bc).max(0) as usize).min(nci);
    v.push(n as i64);
    for k in 0..n {
        let c = tfm::Char((bc as usize + k) as u8);
        v.push(c.0 as i64);
        match f.char_dimens.get(&c) {
            None => v.extend([0, 0, 0, 0, 0]),
            Some(d) => v.extend([1, d.width_index.get() as i64, d.height_index as i64, d.depth_index as i64, d.italic_index as i64]),
        }
        match f.char_tags.get(&c) {
            None => v.extend([0, 0, 0]),
            Some(tfm::CharTag::Ligature(l)) => v.extend([1, 1, *l as i64]),
            Some(tfm::CharTag::List(l)) => v.extend([1, 2, l.0 as i64]),
            Some(tfm::CharTag::Extension(e)) => v.extend([1, 3, *e as i64]),
        }
    }
    for t in [&f.widths, &f.heights, &f.depths, &f.italic_corrections] {
        v.push(t.len() as i64);
        v.extend(t.iter().map(|x| x.0 as i64));
    }
    let lk = &f.lig_kern_program;
    v.push(lk.instructions.len() as i64);
    for i in &lk.instructions {
        v.push(i.next_instruction.map(|x| x as i64).unwrap_or(-1));
        v.push(i.right_char.0 as i64);
        match i.operation {
            Operation::Kern(_) => v.extend([9, 0, 0, 0]),
            Operation::KernAtIndex(k) => v.extend([0, k as i64, 0, 0]),
            Operation::Ligature { char_to_insert, post_lig_operation, post_lig_tag_invalid } => {
                let op = match post_lig_operation {
                    P::RetainBothMoveNowhere => 0,
                    P::RetainBothMoveToInserted => 1,
                    P::RetainBothMoveToRight => 2,
                    P::RetainLeftMoveNowhere => 3,
                    P::RetainLeftMoveToInserted => 4,
                    P::RetainRightMoveToInserted => 5,
                    P::RetainRightMoveToRight => 6,
                    P::RetainNeitherMoveToInserted => 7,
                };
                v.extend([1, char_to_insert.0 as i64, op, post_lig_tag_invalid as i64]);
            }
            Operation::EntrypointRedirect(t, flag) => v.extend([2, t as i64, 0, if flag { 0 } else { 5 }]),
        }
    }
    v.push(lk.right_boundary_char.map(|c| c.0 as i64).unwrap_or(-1));
    v.push(lk.left_boundary_char_entrypoint.map(|c| c as i64).unwrap_or(-1));
    let mut pass: Vec<i64> = lk.passthrough.iter().map(|x| *x as i64).collect();
    pass.sort();
    v.push(pass.len() as i64);
    v.extend(pass);
    v.push(f.kerns.len() as i64);
    v.extend(f.kerns.iter().map(|x| x.0 as i64));
    v.push(f.extensible_chars.len() as i64);
    for e in &f.extensible_chars {
        v.extend([e.top.map(|c| c.0 as i64).unwrap_or(0), e.middle.map(|c| c.0 as i64).unwrap_or(0), e.bottom.map(|c| c.0 as i64).unwrap_or(0), e.rep.0 as i64]);
    }
    v.push(f.params.len() as i64);
    v.extend(f.params.iter().map(|x| x.0 as i64));
    format!("ok {} {}", if warnings.is_empty() { 0 } else { 1 }, join(&v))
}

struct Clamp {
    table: [usize; 4],
    nl: usize,
    ne: usize,
    pre: Vec<(u8, [u8; 4])>,
    post: Vec<(u8, [u8; 4])>,
    pre_tags: Vec<(u8, tfm::CharTag)>,
    post_tags: Vec<(u8, tfm::CharTag)>,
    /// for every instruction: the redirect target if it is an entry-point redirect
    redirects: Vec<Option<u16>>,
    post_chars: Vec<u8>,
    pieces_ok: bool,
    cleared: bool,
}

fn dims_of(file: &tfm::File) -> Vec<(u8, [u8; 4])> {
    let mut v: Vec<(u8, [u8; 4])> = file
        .char_dimens
        .iter()
        .map(|(c, d)| (c.0, [d.width_index.get(), d.height_index, d.depth_index, d.italic_index]))
        .collect();
    v.sort();
    v
}
fn tags_of(file: &tfm::File) -> Vec<(u8, tfm::CharTag)> {
    let mut v: Vec<(u8, tfm::CharTag)> = file.char_tags.iter().map(|(c, t)| (c.0, t.clone())).collect();
    v.sort_by_key(|t| t.0);
    v
}

fn real_clamp(bytes: &[u8]) -> Option<Clamp> {
    let mut file = tfm::File::deserialize(bytes).0.ok()?;
    let pre = dims_of(&file);
    let pre_tags = tags_of(&file);
    let table = [file.widths.len(), file.heights.len(), file.depths.len(), file.italic_corrections.len()];
    let nl = file.lig_kern_program.instructions.len();
    let ne = file.extensible_chars.len();
    let redirects: Vec<Option<u16>> = file
        .lig_kern_program
        .instructions
        .iter()
        .map(|i| match i.operation {
            tfm::ligkern::lang::Operation::EntrypointRedirect(t, _) => Some(t),
            _ => None,
        })
        .collect();
    let warnings = file.validate_and_fix();
    let cleared = warnings.iter().any(|w| {
        matches!(w, tfm::ValidationWarning::LigKernWarning(tfm::ligkern::lang::ValidationWarning::InfiniteLoop(_)))
    });
    let post = dims_of(&file);
    let post_chars: Vec<u8> = post.iter().map(|p| p.0).collect();
    let mut pieces_ok = true;
    for e in &file.extensible_chars {
        for p in [e.top, e.middle, e.bottom].into_iter().flatten() {
            if !file.char_dimens.contains_key(&p) {
                pieces_ok = false;
            }
        }
    }
    Some(Clamp { table, nl, ne, pre, post, pre_tags, post_tags: tags_of(&file), redirects, post_chars, pieces_ok, cleared })
}

impl C10 {
    fn load(&mut self, rel: &str) -> Vec<u8> {
        if let Some(b) = self.files.get(rel) {
            return b.clone();
        }
        let p = format!("{}/crates/{}", self.repo, rel);
        let b = std::fs::read(&p).unwrap_or_else(|e| panic!("cannot read corpus file {p}: {e}"));
        self.files.insert(rel.to_string(), b.clone());
        b
    }

    fn corpus_files(&self, exts: &[&str]) -> Vec<(String, usize)> {
        let mut out = vec![];
        let root = format!("{}/crates", self.repo);
        let mut stack: Vec<std::path::PathBuf> = vec![];
        if let Ok(rd) = std::fs::read_dir(&root) {
            for e in rd.flatten() {
                let n = e.file_name().to_string_lossy().into_owned();
                if n.starts_with("tfm") && e.path().is_dir() {
                    stack.push(e.path());
                }
            }
        }
        while let Some(d) = stack.pop() {
            let Ok(rd) = std::fs::read_dir(&d) else { continue };
            for e in rd.flatten() {
                let p = e.path();
                let n = e.file_name().to_string_lossy().into_owned();
                if p.is_dir() {
                    if n != "target" && n != "src" && !n.starts_with('.') {
                        stack.push(p);
                    }
                } else if let Some(ext) = p.extension().and_then(|x| x.to_str()) {
                    if exts.contains(&ext) && !n.contains(' ') {
                        let rel = p.strip_prefix(&root).unwrap().to_string_lossy().into_owned();
                        let len = e.metadata().map(|m| m.len() as usize).unwrap_or(0);
                        out.push((rel, len));
                    }
                }
            }
        }
        out.sort();
        out
    }

    fn bytes_of_case(&mut self, cmd: &str, rest: &str) -> Vec<u8> {
        match cmd {
            "b" => unhex(rest),
            "h" => {
                let mut w = rest.split(' ');
                let len: usize = w.next().unwrap().parse().expect("len");
                let fill: u64 = w.next().unwrap().parse().expect("fill");
                let mut b = unhex(w.next().unwrap_or("-"));
                b.truncate(len);
                while b.len() < len {
                    b.push(fill_byte(b.len(), fill));
                }
                b
            }
            "t" => {
                let mut w = rest.split(' ');
                let mut b = self.load(w.next().unwrap());
                for m in w {
                    let (k, a) = m.split_at(1);
                    match k {
                        "T" => b.truncate(a.parse().expect("T")),
                        "S" => {
                            let (p, v) = a.split_once(':').expect("S");
                            let p: usize = p.parse().expect("S pos");
                            if p < b.len() {
                                b[p] = v.parse::<u16>().expect("S val") as u8;
                            }
                        }
                        "X" => {
                            let (n, f) = a.split_once(':').expect("X");
                            let n: usize = n.parse().expect("X n");
                            let f: u64 = f.parse().expect("X fill");
                            for _ in 0..n {
                                b.push(fill_byte(b.len(), f));
                            }
                        }
                        "W" => {
                            let (i, v) = a.split_once(':').expect("W");
                            let i: usize = i.parse().expect("W idx");
                            let v: u16 = v.parse().expect("W val");
                            if 2 * i + 1 < b.len() {
                                b[2 * i] = (v >> 8) as u8;
                                b[2 * i + 1] = v as u8;
                            }
                        }
                        _ => panic!("bad mutation {m}"),
                    }
                }
                b
            }
            _ => unreachable!(),
        }
    }

    fn text_of_case(&mut self, cmd: &str, rest: &str) -> String {
        match cmd {
            "pt" => unesc(rest),
            "pn" => {
                let (n, prefix) = rest.split_once(' ').unwrap_or((rest, ""));
                let n: usize = n.parse().expect("pn count");
                format!("{}{}", unesc(prefix), "(".repeat(n))
            }
            "pg" => gen_counts_pl(rest),
            "e" => {
                // `e <k> <ending hex> <inner text case>`: the inner text without its last k
                // characters, followed by the ending
                let mut w = rest.splitn(3, ' ');
                let k: usize = w.next().unwrap().parse().expect("e k");
                let ending = String::from_utf8_lossy(&unhex(w.next().unwrap())).into_owned();
                let inner = w.next().unwrap_or("pt ");
                let (icmd, irest) = inner.split_once(' ').unwrap_or((inner, ""));
                let t = self.text_of_case(icmd, irest);
                let n = t.chars().count();
                let mut out: String = t.chars().take(n.saturating_sub(k)).collect();
                out.push_str(&ending);
                out
            }
            "el" => {
                // `el <mode> <n> <file>`: a corpus list with its line endings rewritten
                // (crlf | cr | crcrlf | lfcr | mixed), cut after n characters
                let mut w = rest.splitn(3, ' ');
                let mode = w.next().unwrap();
                let n: usize = w.next().unwrap().parse().expect("el n");
                let src = String::from_utf8_lossy(&self.load(w.next().unwrap())).into_owned();
                let unix = src.replace("\r\n", "\n").replace('\r', "\n");
                let mut out = String::new();
                for (i, line) in unix.split('\n').enumerate() {
                    if i > 0 {
                        out.push_str(match mode {
                            "crlf" => "\r\n",
                            "cr" => "\r",
                            "crcrlf" => "\r\r\n",
                            "lfcr" => "\n\r",
                            _ => ["\r\n", "\n", "\r", "\r\r\n"][i % 4],
                        });
                    }
                    out.push_str(line);
                }
                out.chars().take(n).collect()
            }
            "p" => {
                let mut w = rest.split(' ');
                let src = String::from_utf8_lossy(&self.load(w.next().unwrap())).into_owned();
                let mut toks = tokens(&src);
                for m in w {
                    let (k, a) = m.split_at(1);
                    let (i, arg) = match a.split_once(':') {
                        Some((i, arg)) => (i, arg),
                        None => (a, ""),
                    };
                    let i: usize = i.parse().expect("token index");
                    if toks.is_empty() {
                        break;
                    }
                    let i = i % toks.len();
                    match k {
                        "D" => {
                            toks.remove(i);
                        }
                        "R" => toks[i] = String::from_utf8_lossy(&unhex(arg)).into_owned(),
                        "I" => toks.insert(i, String::from_utf8_lossy(&unhex(arg)).into_owned()),
                        "C" => toks.truncate(i + 1),
                        "N" => {
                            // the value token after the next data-type prefix / string property
                            // at or after token i is replaced by the text
                            const PRE: &[&str] = &["C", "D", "O", "H", "R", "F", "CODINGSCHEME", "FAMILY", "FACE", "LABEL", "KRN", "LIG", "NEXTLARGER", "TOP", "MID", "BOT", "REP", "BOUNDARYCHAR", "CHARACTER"];
                            let n = toks.len();
                            let mut done = false;
                            for d in 0..n {
                                let j = (i + d) % n;
                                if PRE.contains(&toks[j].as_str()) && j + 2 < n && toks[j + 1].chars().all(|c| c.is_whitespace()) && toks[j + 2] != "(" && toks[j + 2] != ")" {
                                    let t = String::from_utf8_lossy(&unhex(arg)).into_owned();
                                    // a leading '+' keeps the old token after the text, a trailing '+' before it
                                    toks[j + 2] = if let Some(x) = t.strip_prefix('+') {
                                        format!("{x}{}", toks[j + 2])
                                    } else if let Some(x) = t.strip_suffix('+') {
                                        format!("{}{x}", toks[j + 2])
                                    } else {
                                        t
                                    };
                                    done = true;
                                    break;
                                }
                            }
                            if !done {
                                toks.push(String::from_utf8_lossy(&unhex(arg)).into_owned());
                            }
                        }
                        "U" => {
                            let n: usize = arg.parse().expect("U n");
                            let t = toks[i].clone();
                            toks[i] = t.repeat(n);
                        }
                        _ => panic!("bad mutation {m}"),
                    }
                }
                toks.concat()
            }
            _ => unreachable!(),
        }
    }

    // --------------------------------------------------------------------------------------

    /// Everything that is checked about a byte string. `stage` prefixes streams/tags (the same
    /// checks run on pltotf's output).
    fn check_bytes(&mut self, bytes: &[u8], drv: &mut Driver, out: &mut CaseOutcome, stage: &str, deep: bool) -> Option<String> {
        let n = bytes.len().min(24);
        let m = drv.ask(&format!("raw {} {}", bytes.len(), join(&bytes[..n])));
        self.check_bytes_m(bytes, m, drv, out, stage, deep)
    }

    fn check_bytes_m(&mut self, bytes: &[u8], m: String, drv: &mut Driver, out: &mut CaseOutcome, stage: &str, deep: bool) -> Option<String> {
        // I: the real front end
        let n = bytes.len().min(24);
        let m_class = class_of(&m);
        if m_class.starts_with("panic") {
            out.fail(Kind::ModelVsSpec, &format!("{stage}raw"), format!("model panics: {m_class}"), format!("model: {m}"));
        }
        let i = match caught(|| real_raw(bytes)) {
            Ok(i) => i,
            Err(p) => {
                out.tag(format!("{stage}raw:panic"));
                out.fail(
                    Kind::ImplPanic,
                    &format!("{stage}raw"),
                    format!("panic {}", strip_msg(&p)),
                    format!("RawFile::deserialize panicked on {} bytes (header {}): {p}\nmodel (repaired code): {m}", bytes.len(), hex_or_dash(&bytes[..n])),
                );
                // the whole conversion panics the same way; nothing more to learn
                return None;
            }
        };
        let i_class = class_of(&i);
        out.tag(format!("{stage}raw:{i_class}"));
        if i.starts_with("ok 1") || (i.starts_with("err") && i.split(' ').nth(2) == Some("1")) {
            out.tag(format!("{stage}raw:junk-warning"));
        }
        if i != m {
            // C10-k: the reader as it stood rejected ne = 256 (`s.ne > 255`) although its own
            // documentation, TFtoPL.2014.21 and PLtoTF allow 256 recipes; the model describes
            // the repaired test (`s.ne > 256`). Own signature so that it is tracked by itself.
            let sig = if i.starts_with("err manyext") && i.split(' ').nth(3) == Some("256") {
                "raw differs: reader rejects ne=256".to_string()
            } else {
                format!("raw differs: impl {i_class} model {m_class}")
            };
            out.fail(Kind::ImplVsModel, &format!("{stage}raw"), sig, format!("impl:  {i}\nmodel: {m}"));
        }
        if let Some(layout) = i.strip_prefix("ok ") {
            // S on the real layout, computed by Lean
            let (_, layout) = layout.split_once(' ').unwrap();
            // the writer side of the size table: real `SubFileSizes -> [u8; 24]` vs `headerBytes`,
            // and both must reproduce the 24 bytes that were read
            let ws: Vec<i64> = layout.split(' ').take(12).map(|x| x.parse().unwrap()).collect();
            let sfs = tfm::SubFileSizes {
                lf: ws[0] as i16, lh: ws[1] as i16, bc: ws[2] as i16, ec: ws[3] as i16, nw: ws[4] as i16, nh: ws[5] as i16,
                nd: ws[6] as i16, ni: ws[7] as i16, nl: ws[8] as i16, nk: ws[9] as i16, ne: ws[10] as i16, np: ws[11] as i16,
            };
            let real_hb: [u8; 24] = sfs.into();
            let model_hb = drv.ask(&format!("hb {}", join(&ws)));
            if join(&real_hb) != model_hb {
                out.fail(Kind::ImplVsModel, &format!("{stage}raw"), "SubFileSizes::into differs from headerBytes", format!("impl: {}\nmodel: {model_hb}", join(&real_hb)));
            }
            if real_hb[..] != bytes[..24] {
                out.fail(Kind::ImplVsSpec, &format!("{stage}raw"), "size table does not round-trip through SubFileSizes", format!("read {} wrote {}", hex(&bytes[..24]), hex(&real_hb)));
            }
            let verdict = drv.ask(&format!("chk {} {}", bytes.len(), layout));
            if verdict != "1" {
                out.fail(
                    Kind::ImplVsSpec,
                    &format!("{stage}raw"),
                    "accepted layout is not a tiling of [0,4lf) inside the file",
                    format!("len {} layout {layout} verdict {verdict}", bytes.len()),
                );
            }
        }

        // the sub-file bodies: the real `File::deserialize` vs the Lean `Body.readFile`
        if i.starts_with("ok") && bytes.len() <= BODY_LIMIT {
            let mb = drv.ask(&format!("body {}", join(bytes)));
            if mb == "panic" {
                out.fail(Kind::ModelVsSpec, &format!("{stage}body"), "body model panics on an accepted layout", String::new());
            }
            match caught(|| real_body(bytes)) {
                Err(p) => out.fail(Kind::ImplPanic, &format!("{stage}body"), format!("panic {}", strip_msg(&p)), format!("File::deserialize panicked: {p}")),
                Ok(ib) => {
                    out.tag(format!("{stage}body:compared"));
                    if ib != mb {
                        let (a, b): (Vec<&str>, Vec<&str>) = (ib.split(' ').collect(), mb.split(' ').collect());
                        let k = a.iter().zip(b.iter()).take_while(|(x, y)| x == y).count();
                        out.fail(
                            Kind::ImplVsModel,
                            &format!("{stage}body"),
                            "parsed file differs from Body.readFile",
                            format!("first difference at field {k}: impl …{} model …{}", a[k.saturating_sub(6)..(k + 6).min(a.len())].join(" "), b[k.saturating_sub(6)..(k + 6).min(b.len())].join(" ")),
                        );
                    }
                }
            }
        }

        // the whole conversion, as the binary runs it
        let pl = match caught(|| real_tftopl(bytes)) {
            Err(p) => {
                out.tag(format!("{stage}tftopl:panic"));
                out.fail(
                    Kind::ImplPanic,
                    &format!("{stage}tftopl"),
                    format!("panic {}", strip_msg(&p)),
                    format!("tfm_to_pl panicked on {} bytes: {p}", bytes.len()),
                );
                None
            }
            Ok(Ok(pl)) => {
                out.tag(format!("{stage}tftopl:ok"));
                if !i.starts_with("ok") {
                    out.fail(Kind::ImplVsModel, &format!("{stage}tftopl"), "tfm_to_pl accepts what RawFile rejects", format!("raw: {i}"));
                }
                Some(pl)
            }
            Ok(Err(_)) => {
                out.tag(format!("{stage}tftopl:error"));
                if i.starts_with("ok") {
                    out.fail(Kind::ImplVsModel, &format!("{stage}tftopl"), "tfm_to_pl rejects what RawFile accepts", format!("raw: {i}"));
                }
                None
            }
        };

        // the index clamps of validate_and_fix
        if deep && i.starts_with("ok") {
            match caught(|| real_clamp(bytes)) {
                Err(p) => {
                    // same panic as the conversion in general; keep its own stream
                    out.fail(Kind::ImplPanic, &format!("{stage}validate"), format!("panic {}", strip_msg(&p)), format!("validate_and_fix panicked: {p}"));
                }
                Ok(None) => {}
                Ok(Some(c)) => self.check_clamp(&c, drv, out, stage),
            }
        }
        pl
    }

    fn check_clamp(&mut self, c: &Clamp, drv: &mut Driver, out: &mut CaseOutcome, stage: &str) {
        let stream = format!("{stage}clamp");
        if c.cleared {
            out.tag(format!("{stage}clamp:infinite-loop-clears-chars"));
        }
        let t = c.table;
        if !c.pre.is_empty() && !c.cleared {
            let flat = |v: &[(u8, [u8; 4])]| -> String {
                let mut s = vec![];
                for (_, d) in v {
                    s.extend(d.iter().map(|x| *x as i64));
                }
                join(&s)
            };
            let changed = c.pre != c.post;
            out.tag(if changed { format!("{stage}clamp:index-reset") } else { format!("{stage}clamp:indices-in-range") });
            let m = drv.ask(&format!("vf {} {} {} {} {} {}", t[0], t[1], t[2], t[3], c.pre.len(), flat(&c.pre)));
            let i = format!("{} 1", flat(&c.post));
            if c.pre.len() != c.post.len() {
                out.fail(Kind::ImplVsModel, &stream, "validate_and_fix changed the set of characters", format!("pre {} post {}", c.pre.len(), c.post.len()));
            } else if m != i {
                out.fail(Kind::ImplVsModel, &stream, "clamped indices differ from clampDims", format!("tables {t:?}\nimpl:  {i}\nmodel: {m}"));
            }
            // S on the real output
            let s = drv.ask(&format!("vf {} {} {} {} {} {}", t[0], t[1], t[2], t[3], c.post.len(), flat(&c.post)));
            if s != i {
                out.fail(Kind::ImplVsSpec, &stream, "an index is out of range after validate_and_fix", format!("tables {t:?}\npost: {}\nspec: {s}", flat(&c.post)));
            }
        }
        // tags
        let post: BTreeMap<u8, &tfm::CharTag> = c.post_tags.iter().map(|(c, t)| (*c, t)).collect();
        let mut reqs = vec![];
        let mut items = vec![];
        for (ch, tag) in &c.pre_tags {
            // tags of characters that have no dimensions are not visited by the clamp loop
            if !c.post_chars.contains(ch) {
                continue;
            }
            let (kind, value, exists) = match tag {
                tfm::CharTag::Ligature(l) => ("lig", *l as usize, true),
                tfm::CharTag::List(n) => ("list", n.0 as usize, c.post_chars.contains(&n.0)),
                tfm::CharTag::Extension(e) => ("ext", *e as usize, true),
            };
            if kind == "lig" {
                // exact model: the word at the entry point decides (unpackEntry)
                let r = c.redirects.get(value).copied().flatten().map(|t| t as i64).unwrap_or(-1);
                reqs.push(format!("lig {} {value} {r}", c.nl));
            } else {
                reqs.push(format!("tag {} {} {kind} {value} {}", c.nl, c.ne, exists as u8));
            }
            items.push((ch, tag, kind));
        }
        let replies = if reqs.is_empty() { vec![] } else { drv.ask_many(&reqs) };
        for ((ch, tag, kind), m) in items.into_iter().zip(replies) {
            let kept = post.contains_key(ch);
            out.tag(format!("{stage}clamp:tag-{kind}-{}", if kept { "kept" } else { "dropped" }));
            let m_keep = m.starts_with("keep");
            if !m_keep && kept {
                // S: a kept tag must satisfy TagOK (clampTag / unpackEntry keep exactly those)
                out.fail(Kind::ImplVsSpec, &stream, format!("{kind} tag kept although out of range"), format!("char {ch} tag {tag:?} nl {} ne {}", c.nl, c.ne));
            }
            // lig and ext tags: the model is exact in both directions (a list tag is also
            // dropped when it closes a cycle, which the counts do not show)
            if (kind == "lig" || kind == "ext") && m_keep && !kept && !c.cleared {
                out.fail(Kind::ImplVsModel, &stream, format!("{kind} tag dropped although the model keeps it"), format!("char {ch} tag {tag:?} nl {} ne {} model {m}", c.nl, c.ne));
            }
        }
        if !c.pieces_ok {
            out.fail(Kind::ImplVsSpec, &stream, "extensible piece names a nonexistent character after validate_and_fix", String::new());
        }
    }

    fn run_in_child(&mut self, case: &str, depth: usize, out: &mut CaseOutcome) {
        let exe = std::env::current_exe().expect("current_exe");
        let mut cmd = std::process::Command::new(exe);
        cmd.args(["--driver", &self.driver, "--repo", &self.repo, "--replay-case", case])
            .env("C10_CHILD", "1")
            .env("RUST_BACKTRACE", "0");
        // C10-i is stated for the usual 8 MiB main-thread stack, whatever `ulimit -s` says here
        pin_child_stack(&mut cmd);
        let res = cmd.output().expect("spawn child");
        let stdout = String::from_utf8_lossy(&res.stdout).into_owned();
        match res.status.code() {
            Some(0) => {}
            Some(1) => {
                // ordinary failures found by the child: pass them on
                for l in stdout.lines() {
                    if let Some(r) = l.strip_prefix("replay: ") {
                        let mut w = r.splitn(3, ' ');
                        let kind = match w.next() {
                            Some("impl-panic") => Kind::ImplPanic,
                            Some("impl-vs-spec") => Kind::ImplVsSpec,
                            Some("impl-vs-model") => Kind::ImplVsModel,
                            _ => continue,
                        };
                        let stream = w.next().unwrap_or("").trim_start_matches("stream=").to_string();
                        let sig = w.next().unwrap_or("").trim_start_matches("signature=").to_string();
                        out.fail(kind, &stream, sig, "found in the child process (deeply nested text)".to_string());
                    }
                }
            }
            other => {
                let err = String::from_utf8_lossy(&res.stderr).into_owned();
                let what = if err.contains("overflowed its stack") { "stack overflow" } else { "abnormal exit" };
                // known finding C10-i is the overflow beyond 10^5 levels (100 000 levels pass in
                // this build); an overflow at a smaller depth, or another kind of death, is a
                // different failure and gets its own signature
                let sig = if what == "stack overflow" && depth > 100_000 {
                    "abort: stack overflow on a property list nested deeper than 100000".to_string()
                } else {
                    format!("abort: {what} at nesting depth {}0000..", depth / 10_000)
                };
                out.fail(
                    Kind::ImplPanic,
                    "pltotf",
                    sig,
                    format!("the process running pl_to_tfm died ({other:?}, {what}) on a text with {depth} unclosed '(': {}", err.lines().next().unwrap_or("")),
                );
            }
        }
    }

    /// The PL lexer / CST builder against the Lean model `Cst.cstModel` (tree shape, keys,
    /// data, every span, every warning).
    fn check_cst(&mut self, text: &str, drv: &mut Driver, out: &mut CaseOutcome, stage: &str) {
        let n_chars = text.chars().count();
        if n_chars > CST_LIMIT || (stage.starts_with("tftopl") && n_chars > CST_LIMIT_TFTOPL) {
            out.tag(format!("{stage}cst:skipped-long"));
            return;
        }
        let mut extra: Vec<u32> = text.chars().filter(|c| !c.is_ascii() && c.is_alphanumeric()).map(|c| c as u32).collect();
        extra.sort();
        extra.dedup();
        let mut req = format!("cst {}", extra.len());
        for e in &extra {
            req.push_str(&format!(" {e}"));
        }
        for c in text.chars() {
            req.push_str(&format!(" {}", c as u32));
        }
        let m = drv.ask(&req);
        match caught(|| real_cst(text)) {
            Err(p) => out.fail(Kind::ImplPanic, &format!("{stage}cst"), format!("panic {}", strip_msg(&p)), format!("Cst::from_pl_source_code panicked: {p}")),
            Ok(i) => {
                out.tag(format!("{stage}cst:compared"));
                if m == "outoffuel" {
                    out.fail(Kind::ModelVsSpec, &format!("{stage}cst"), "cst model ran out of fuel", String::new());
                } else if i != m {
                    // where do they part?
                    let (a, b): (Vec<&str>, Vec<&str>) = (i.split(' ').collect(), m.split(' ').collect());
                    let k = a.iter().zip(b.iter()).take_while(|(x, y)| x == y).count();
                    out.fail(
                        Kind::ImplVsModel,
                        &format!("{stage}cst"),
                        "cst differs from cstModel",
                        format!("first difference at field {k}: impl …{} model …{}", a[k.saturating_sub(6)..(k + 6).min(a.len())].join(" "), b[k.saturating_sub(6)..(k + 6).min(b.len())].join(" ")),
                    );
                }
            }
        }
    }

    fn check_text(&mut self, text: &str, drv: &mut Driver, out: &mut CaseOutcome, stage: &str) {
        if max_depth(text) <= NEST_LIMIT {
            let t0 = std::time::Instant::now();
            self.check_cst(text, drv, out, stage);
            *self.seconds.entry("part:cst".into()).or_insert(0.0) += t0.elapsed().as_secs_f64();
        }
        let (bytes, n_warn) = match caught(|| real_pltotf(text)) {
            Ok((b, n, panics)) => {
                if !panics.is_empty() {
                    out.tag(format!("{stage}pltotf:panic-in-message"));
                }
                for (sig, p) in panics {
                    out.fail(Kind::ImplPanic, &format!("{stage}pltotf"), sig, format!("pltotf_message panicked after pl_to_tfm returned {} bytes: {p}", b.len()));
                }
                (b, n)
            }
            Err(p) => {
                out.tag(format!("{stage}pltotf:panic"));
                // known finding C10-h has a specific shape: the assertion of FixWord::to_scaled
                // (lib.rs) on a text that contains a KRN of absolute value >= 16. Only then is
                // its signature emitted; the same assertion on any other text is a different
                // failure (`panic file:line`).
                let sig = if p.contains("crates/tfm/src/lib.rs") && p.contains("assertion failed: a == 0 || a == 255") && has_big_kern(text) {
                    "panic FixWord::to_scaled assertion on a KRN of absolute value >= 16".to_string()
                } else {
                    format!("panic {}", strip_msg(&p))
                };
                out.fail(Kind::ImplPanic, &format!("{stage}pltotf"), sig, format!("pl_to_tfm panicked on {} characters of text: {p}", text.len()));
                return;
            }
        };
        out.tag(format!("{stage}pltotf:{}", if n_warn == 0 { "clean" } else { "warnings" }));
        // The serialiser's size table: real counts -> Lean `serializeSizes` (M) vs the twelve
        // words really written (I); and the hypotheses `ShapeOK` of `serialize_consistent` /
        // `raw_accepts_serialized` must hold on every real file.
        let t_shape = std::time::Instant::now();
        let shape_res = caught(|| real_shape(text));
        *self.seconds.entry("part:shape".into()).or_insert(0.0) += t_shape.elapsed().as_secs_f64();
        if let Ok((shape, ser)) = shape_res {
            let m = drv.ask(&format!("ser {shape}"));
            let (m_out, viol) = m.rsplit_once(" viol=").unwrap_or((&m, "?"));
            if viol != "0" {
                out.fail(
                    Kind::ImplVsModel,
                    &format!("{stage}ser"),
                    format!("ShapeOK clause {viol} does not hold on a real file"),
                    format!("shape (headerExtra hasChars bc ec nw nh nd ni steps added nk ne np): {shape}\nmodel: {m}"),
                );
            } else {
                out.tag(format!("{stage}ser:shape-ok"));
            }
            let i_out = match &ser {
                Ok(b) if b.len() >= 24 => format!("ok {}", join(&(0..12).map(|k| header_word(b, k)).collect::<Vec<_>>())),
                Ok(_) => "short".to_string(),
                Err(_) => "panic".to_string(),
            };
            let agree = if i_out == "panic" { m_out.starts_with("panic") } else { i_out == m_out };
            if !agree {
                out.fail(
                    Kind::ImplVsModel,
                    &format!("{stage}ser"),
                    "size table written by serialize differs from serializeSizes",
                    format!("shape: {shape}\nimpl:  {i_out}\nmodel: {m_out}"),
                );
            }
            if let Ok(b) = &ser {
                if *b != bytes {
                    out.fail(Kind::ImplVsModel, &format!("{stage}ser"), "stepwise conversion differs from pl_to_tfm", String::new());
                }
                if b.len() >= 24 && b.len() as i64 != 4 * header_word(b, 0) {
                    out.fail(Kind::ImplVsSpec, &format!("{stage}ser"), "serialized length is not 4*lf", format!("{} bytes, lf {}", b.len(), header_word(b, 0)));
                }
            }
        }
        // S: the output is accepted — by the Lean model of the reader (computed by Lean) …
        let n = bytes.len().min(24);
        let m = drv.ask(&format!("raw {} {}", bytes.len(), join(&bytes[..n])));
        if !m.starts_with("ok 0") {
            out.fail(
                Kind::ImplVsSpec,
                &format!("{stage}pltotf"),
                format!("pltotf output not accepted: {}", class_of(&m)),
                format!("{} bytes, header {}\nreader model says: {m}", bytes.len(), hex_or_dash(&bytes[..n])),
            );
        }
        // … and by the real reader (I vs S proper: this is the sentence of the property) …
        match caught(|| real_raw(&bytes)) {
            Ok(i) if i.starts_with("ok") => {}
            Ok(i) => out.fail(
                Kind::ImplVsSpec,
                &format!("{stage}pltotf"),
                format!("pltotf output rejected by the reader: {}", class_of(&i)),
                format!("{} bytes, header {}\nreal reader says: {i}", bytes.len(), hex_or_dash(&bytes[..n])),
            ),
            Err(_) => {} // reported by check_bytes below
        }
        // … and tftopl converts it.
        let st = format!("{stage}pltotf>");
        let before = out.failures.len();
        let pl = self.check_bytes(&bytes, drv, out, &st, false);
        if pl.is_none() && out.failures.len() == before && m.starts_with("ok") {
            out.fail(Kind::ImplVsSpec, &st, "pltotf output rejected by tfm_to_pl", String::new());
        }
    }
}

// ------------------------------------------------------------------------------------------
// generators
// ------------------------------------------------------------------------------------------

fn interesting_u16(r: &mut Rng) -> u16 {
    match r.below(10) {
        0..=4 => {
            let b = *r.pick(&[0i64, 1, 2, 3, 4, 5, 6, 12, 18, 127, 128, 255, 256, 257, 8191, 16383, 32767, 32768, 65535]);
            (b + r.range(-2, 2)).clamp(0, 65535) as u16
        }
        5 | 6 => r.below(40) as u16,
        _ => r.next_u64() as u16,
    }
}

fn header_from(words: &[i64; 12]) -> Vec<u8> {
    let mut b = vec![];
    for w in words {
        b.extend((*w as u16).to_be_bytes());
    }
    b
}

const KEYWORDS: &[&str] = &[
    "CHECKSUM", "DESIGNSIZE", "DESIGNUNITS", "CODINGSCHEME", "FAMILY", "FACE", "SEVENBITSAFEFLAG", "HEADER", "FONTDIMEN",
    "LIGTABLE", "BOUNDARYCHAR", "CHARACTER", "PARAMETER", "SLANT", "SPACE", "STRETCH", "SHRINK", "XHEIGHT", "QUAD",
    "EXTRASPACE", "NUM1", "DEFAULTRULETHICKNESS", "BIGOPSPACING5", "LABEL", "STOP", "SKIP", "KRN", "LIG", "/LIG", "/LIG>",
    "LIG/", "LIG/>", "/LIG/", "/LIG/>", "/LIG/>>", "CHARWD", "CHARHT", "CHARDP", "CHARIC", "NEXTLARGER", "VARCHAR", "TOP",
    "MID", "BOT", "REP", "COMMENT",
];

fn gen_number(r: &mut Rng) -> String {
    match r.below(14) {
        0 => format!("C {}", *r.pick(&['A', 'B', 'a', 'z', '0', '~', '!'])),
        1 => format!("D {}", interesting_u16(r)),
        2 => format!("O {:o}", interesting_u32(r)),
        3 => format!("H {:X}", interesting_u32(r)),
        4 => format!("R {}.{}", r.range(-2100, 2100), r.below(1000000)),
        5 => format!("R {}", *r.pick(&["0", "-0.0", "2047.9999999", "2048", "-2048", "1e5", "99999999999999999999", ".5", "-", "+-+-1.5", "16", "15.99999"])),
        6 => format!("D {}", *r.pick(&["255", "256", "-1", "99999999999999999999999", "0", "18", "17"])),
        7 => format!("O {}", *r.pick(&["377", "400", "37777777777", "40000000000", "8", "77777777777777777777"])),
        8 => format!("H {}", *r.pick(&["FF", "100", "FFFFFFFF", "100000000", "G", "FFFFFFFFFFFFFFFFFFFF"])),
        9 => format!("F {}", *r.pick(&["MRR", "BIE", "LIC", "XXX", "MR", ""])),
        10 => {
            if r.chance(1, 3) {
                format!("C {}", r.pick(&["\u{80}", "\u{e9}", "\u{ff}", "\u{100}", "\u{20ac}", "\u{1d11e}", "\u{301}", "\u{1}", "\u{7f}", "\u{9}"]))
            } else {
                format!("C {}", (r.range(33, 126) as u8) as char)
            }
        }
        11 => format!("D {}", r.below(256)),
        12 => format!("O {:o}", r.below(256)),
        _ => format!("R {}.{}", r.range(-20, 20), r.below(100)),
    }
}

fn gen_char(r: &mut Rng, pool: &[u8]) -> String {
    if r.chance(4, 5) {
        let c = *r.pick(pool);
        if c.is_ascii_alphanumeric() && r.chance(1, 2) {
            format!("C {}", c as char)
        } else if r.chance(1, 2) {
            format!("O {c:o}")
        } else {
            format!("D {c}")
        }
    } else {
        gen_number(r)
    }
}

/// `pg` cases: a property list built from counts, to reach the sub-file counts at and just
/// beyond each format limit *from PL text*. Keys (all optional, `key=n`):
/// `w h d i` n characters (codes 0..) with n distinct non-zero widths/heights/depths/italics;
/// `v` n characters with a VARCHAR; `p` the highest PARAMETER number; `hd` the highest HEADER
/// index; `k` n KRN steps with n distinct values; `kr` n KRN steps that repeat one value;
/// `l` n LIG steps; `lab` n characters whose LABEL sits at the *end* of the lig table (needs a
/// redirect word each once the table is longer than 255); `b` 1 = BOUNDARYCHAR with a
/// LABEL BOUNDARYCHAR; `bc`/`ec` one extra CHARACTER at that code; `big` 1 = large values
/// (around 1900) instead of small ones.
fn gen_counts_pl(spec: &str) -> String {
    let mut m: BTreeMap<&str, usize> = BTreeMap::new();
    for kv in spec.split(' ').filter(|x| !x.is_empty()) {
        let (k, v) = kv.split_once('=').expect("pg key=value");
        m.insert(k, v.parse().expect("pg value"));
    }
    let g = |k: &str| m.get(k).copied().unwrap_or(0);
    let big = g("big") == 1;
    let val = |j: usize| -> String {
        if big {
            format!("{}.{:06}", 1900 + j % 100, j)
        } else {
            format!("{}.{:06}", j / 1000, (j % 1000) * 1000 + 1)
        }
    };
    let mut s = String::from("(CHECKSUM O 1)\n");
    if g("hd") > 0 {
        s.push_str(&format!("(HEADER D {} O 7)\n", g("hd")));
    }
    if g("p") > 0 {
        s.push_str(&format!("(FONTDIMEN (PARAMETER D {} R 1.0))\n", g("p")));
    }
    if g("b") == 1 {
        s.push_str("(BOUNDARYCHAR C b)\n");
    }
    let n_chars = [g("w"), g("h"), g("d"), g("i"), g("v"), g("lab")].into_iter().max().unwrap_or(0).min(256);
    for c in 0..n_chars {
        s.push_str(&format!("(CHARACTER D {c}"));
        if c < g("w") {
            s.push_str(&format!(" (CHARWD R {})", val(c + 1)));
        } else {
            s.push_str(" (CHARWD R 1.0)");
        }
        if c < g("h") {
            s.push_str(&format!(" (CHARHT R {})", val(c + 1)));
        }
        if c < g("d") {
            s.push_str(&format!(" (CHARDP R {})", val(c + 1)));
        }
        if c < g("i") {
            s.push_str(&format!(" (CHARIC R {})", val(c + 1)));
        }
        if c < g("v") {
            s.push_str(&format!(" (VARCHAR (REP D {c}))"));
        }
        s.push_str(")\n");
    }
    for k in ["bc", "ec"] {
        if let Some(c) = m.get(k) {
            s.push_str(&format!("(CHARACTER D {c} (CHARWD R 1.0))\n"));
        }
    }
    if g("k") + g("kr") + g("l") + g("lab") + g("b") > 0 {
        s.push_str("(LIGTABLE\n(LABEL C a)\n");
        for j in 0..g("k") {
            s.push_str(&format!("(KRN C a R {}.{:06})\n", if big { 10 } else { 0 }, j + 1));
        }
        for _ in 0..g("kr") {
            s.push_str("(KRN C a R 0.5)\n");
        }
        for _ in 0..g("l") {
            s.push_str("(LIG C c C d)\n");
        }
        s.push_str("(STOP)\n");
        for c in 0..g("lab").min(256) {
            s.push_str(&format!("(LABEL D {c})\n(KRN C a R 0.25)\n(STOP)\n"));
        }
        if g("b") == 1 {
            s.push_str("(LABEL BOUNDARYCHAR)\n(KRN C a R 0.25)\n(STOP)\n");
        }
        s.push_str(")\n");
    }
    s
}

/// A small random property list built from the grammar (with deliberate violations).
fn gen_pl(r: &mut Rng) -> String {
    let pool_all: &[u8] = &[0, 1, 2, 65, 66, 67, 68, 97, 98, 127, 128, 200, 254, 255];
    let k = 1 + r.below(5) as usize;
    let pool: Vec<u8> = (0..k).map(|_| *r.pick(pool_all)).collect();
    let label_pool: Vec<u8> = if r.chance(1, 2) { pool.clone() } else { pool_all.to_vec() };
    let mut s = String::new();
    let n = 1 + r.below(7);
    for _ in 0..n {
        match r.below(16) {
            0 => s.push_str(&format!("(CHECKSUM {})\n", gen_number(r))),
            1 => s.push_str(&format!("(DESIGNSIZE {})\n", gen_number(r))),
            2 => s.push_str(&format!("(DESIGNUNITS {})\n", gen_number(r))),
            3 => s.push_str(&format!(
                "({} {})\n",
                r.pick(&["CODINGSCHEME", "FAMILY"]),
                r.pick(&["TEX MATH SYMBOLS", "TEX MATH EXTENSION", "ABC", "", "A(B", "XXXXXXXXXXXXXXXXXXXXXXXXXXXXXXXXXXXXXXXXXXXXXXXXXXXXXXXX", "caf\u{e9}", "\u{20ac}", "A\u{301}\u{1d11e}", "\u{1}\u{7f}"])
            )),
            4 => s.push_str(&format!("(FACE {})\n", gen_number(r))),
            5 => s.push_str(&format!("(SEVENBITSAFEFLAG {})\n", r.pick(&["TRUE", "FALSE", "T", "X", ""]))),
            6 => s.push_str(&format!("(HEADER {} {})\n", gen_number(r), gen_number(r))),
            7 => {
                s.push_str("(FONTDIMEN\n");
                for _ in 0..r.below(4) {
                    if r.chance(1, 2) {
                        s.push_str(&format!("   (PARAMETER {} {})\n", gen_number(r), gen_number(r)));
                    } else {
                        s.push_str(&format!("   ({} {})\n", r.pick(&["SLANT", "SPACE", "QUAD", "EXTRASPACE", "NUM1", "BIGOPSPACING5", "DEFAULTRULETHICKNESS"]), gen_number(r)));
                    }
                }
                s.push_str("   )\n");
            }
            8 => s.push_str(&format!("(BOUNDARYCHAR {})\n", gen_char(r, &pool))),
            9..=11 => {
                s.push_str("(LIGTABLE\n");
                for _ in 0..r.below(8) {
                    match r.below(8) {
                        0 | 1 => s.push_str(&format!("   (LABEL {})\n", if r.chance(1, 6) { "BOUNDARYCHAR".to_string() } else { gen_char(r, &label_pool) })),
                        2 => s.push_str("   (STOP)\n"),
                        3 => s.push_str(&format!("   (SKIP {})\n", gen_number(r))),
                        4 | 5 => s.push_str(&format!("   (KRN {} {})\n", gen_char(r, &pool), gen_number(r))),
                        _ => s.push_str(&format!(
                            "   ({} {} {})\n",
                            r.pick(&["LIG", "/LIG", "/LIG>", "LIG/", "LIG/>", "/LIG/", "/LIG/>", "/LIG/>>"]),
                            gen_char(r, &pool),
                            gen_char(r, &pool)
                        )),
                    }
                }
                s.push_str("   )\n");
            }
            _ => {
                s.push_str(&format!("(CHARACTER {}\n", gen_char(r, &pool)));
                for _ in 0..r.below(5) {
                    match r.below(8) {
                        0..=3 => s.push_str(&format!("   ({} {})\n", r.pick(&["CHARWD", "CHARHT", "CHARDP", "CHARIC"]), gen_number(r))),
                        4 | 5 => s.push_str(&format!("   (NEXTLARGER {})\n", gen_char(r, &label_pool))),
                        _ => {
                            s.push_str("   (VARCHAR\n");
                            for _ in 0..r.below(4) {
                                s.push_str(&format!("      ({} {})\n", r.pick(&["TOP", "MID", "BOT", "REP"]), gen_char(r, &label_pool)));
                            }
                            s.push_str("      )\n");
                        }
                    }
                }
                s.push_str("   )\n");
            }
        }
    }
    // structural damage
    match r.below(12) {
        0 => {
            let mut k = r.below(s.len() as u64 + 1) as usize;
            while !s.is_char_boundary(k) {
                k -= 1;
            }
            s.truncate(k);
        }
        1 => s = s.replacen(')', "", 1),
        2 => s = s.replacen('(', "((", 1),
        3 => s.push_str(")))"),
        4 => s = s.replace('\n', "\r\n"),
        _ => {}
    }
    s
}

fn mutate_pl(r: &mut Rng, ntok: usize) -> String {
    let n = 1 + r.below(3);
    let mut muts = vec![];
    for _ in 0..n {
        let i = r.below(ntok.max(1) as u64);
        let m = match r.below(20) {
            0 | 1 => format!("D{i}"),
            2 => format!("I{i}:{}", hex(b"(")),
            3 => format!("I{i}:{}", hex(b")")),
            4 => format!("R{i}:{}", hex(b"(")),
            5 => format!("R{i}:{}", hex(b")")),
            6 | 7 => format!("R{i}:{}", hex(r.pick(&["99999999999999999999", "-1", "256", "400", "2048.0", "-2048.0", "0", "255", "377", "FFFFFFFFF", "1e10", "16.0", "2047.9999999"]).as_bytes())),
            8 | 9 => format!("R{i}:{}", hex(r.pick(KEYWORDS).as_bytes())),
            10 => format!("I{i}:{}", hex(format!("({} {})", r.pick(&["LABEL", "NEXTLARGER", "KRN", "BOUNDARYCHAR", "CHARACTER", "SKIP", "TOP", "REP"]), gen_number(r)).as_bytes())),
            11 => format!("C{i}"),
            12 => format!("U{i}:{}", r.pick(&[2usize, 3, 20, 100])),
            13 => format!("R{i}:{}", hex(r.pick(&["C", "D", "O", "H", "R", "F", "X"]).as_bytes())),
            14 => format!("I{i}:{}", hex("(".repeat(*r.pick(&[10usize, 200, 2000])).as_bytes())),
            15 => format!("R{i}:{}", hex(gen_number(r).as_bytes())),
            16 | 17 | 18 => {
                let x = *r.pick(&["\u{80}", "\u{a0}", "\u{e9}", "\u{ff}", "\u{100}", "\u{20ac}", "\u{ff11}", "\u{1d11e}", "\u{301}", "e\u{301}", "\u{1}", "\u{9}", "\u{7f}", "\u{85}", "\u{feff}"]);
                let t = match r.below(3) {
                    0 => x.to_string(),
                    1 => format!("+{x}"),
                    _ => format!("{x}+"),
                };
                format!("N{i}:{}", hex(t.as_bytes()))
            }
            _ => {
                // a property name with a non-ASCII or control character in it
                let k = r.pick(KEYWORDS);
                let x = *r.pick(&["\u{e9}", "\u{20ac}", "\u{301}", "\u{1}", "\u{ff21}"]);
                format!("R{i}:{}", hex(format!("{k}{x}").as_bytes()))
            }
        };
        muts.push(m);
    }
    muts.join(" ")
}

impl Property for C10 {
    fn id(&self) -> &'static str {
        "C10"
    }
    fn rule(&self) -> String {
        "hs/h: every value of each of the twelve header words (all 2^16 in thorough; stride 64 plus 48 consecutive values at 0, 232, 32744 and 65488 in quick; one hs case = one sweep of up to 256 values, the number of values is in extra.header_word_values_evaluated_in_hs_sweeps) against five base files \
         (16-byte, 24-byte, minimal consistent 48-byte, a 72-byte consistent file with junk, a 131 068-byte file with lf=32767: stride 8 there except lf and nw), hc: every word of two consistent tables swept with lf and the file length following (0..64 dense in quick, 0..512 in thorough, sparse to 2^16); then random consistent size tables with random bodies and random 1-3-word damage; \
         t: every corpus .tfm under crates/tfm*/ — all truncation lengths that are multiples of 4 around every sub-file boundary plus random ones, random single-byte and header-word mutations; \
         p: every corpus .plst/.pl — random token mutations (paren deletion/insertion, out-of-range and huge numbers, keyword swaps, undeclared characters in labels, cuts, deep nesting, repeats); \
         ct: random well-formed trees in canonical one-line rendering (round-trip law of the CST, real and model); nf/nu/nb: the three number readers on ~120 boundary strings (≥ 10-digit integers, the radix limits ±1, R with 7/8/many fraction digits around 2047.9999999/2048, sign runs, bad prefixes, face codes) and random strings over their alphabets; pt: random small property lists from the grammar with deliberate violations; e/el: byte-level endings (15 endings incl. CR, CR CR, CR LF, LF CR, backslash, U+0085, U+2028, tab, NUL × the last 0-3 characters cut) on literal texts, every small corpus list and a sample of all generated/mutated texts, and CRLF/CR/CRCRLF/LFCR/mixed line-ending variants of corpus lists cut at every character position of the first 200 (quick) / 700 (thorough); pg: property lists built from counts so that every sub-file count (nw, nh, nd, ni, ne, np, lh, nl, nk, redirect words, bc/ec) sits at and just beyond its format limit, alone, all together, with random combinations, and with lig/kern tables that push lf to and past 2^15 words. Every tftopl output is fed to pltotf and every pltotf output to the reader and tftopl. \
         Non-trivial = a byte case of at least 2 bytes, or a text case containing at least one '('; distinct = distinct case string."
            .into()
    }

    fn builtin_corpus(&self) -> Vec<String> {
        let mut v = vec![];
        // C10-a: 16 bytes, lf = 4 (and 20 bytes, lf = 5; and lf = 4 with 23 bytes)
        v.push(format!("h 16 0 {}", hex(&[0, 4])));
        v.push(format!("h 20 0 {}", hex(&[0, 5])));
        v.push(format!("h 23 0 {}", hex(&[0, 4])));
        v.push(format!("h 20 0 {}", hex(&[0, 4])));
        // C10-b: lf=32767, nw=32767, nh=nd=ni=1
        v.push(format!("h 131068 0 {}", hex(&header_from(&[32767, 2, 1, 0, 32767, 1, 1, 1, 0, 0, 0, 0]))));
        // bc = ec = 32767 (saturating_add)
        v.push(format!("h 48 0 {}", hex(&header_from(&[12, 2, 32767, 32767, 1, 1, 1, 1, 0, 0, 0, 0]))));
        v.push(format!("h 52 0 {}", hex(&header_from(&[13, 2, 32767, 32767, 1, 1, 1, 1, 0, 0, 0, 0]))));
        // the largest consistent file
        v.push(format!("h 131068 7 {}", hex(&header_from(&[32767, 2, 0, 255, 1, 1, 1, 1, 32400, 100, 0, 3]))));
        // header longer than 255 words
        v.push(format!("h 1300 3 {}", hex(&header_from(&[325, 300, 1, 0, 1, 1, 1, 1, 15, 0, 0, 0]))));
        // the unit-test headers of deserialize.rs
        v.push("b -".into());
        v.push("b 02".into());
        v.push("b ff".into());
        v.push("b ff00".into());
        v.push("b 00000101".into());
        v.push("b 00020101".into());
        v.push(format!("h 24 0 {}", hex(&[0, 2, 255, 0])));
        v.push(format!("h 12 0 {}", hex(&[0, 3, 0, 0])));
        // C10-c
        v.push("pt (CHARACTER C B (CHARWD R 1.0))\\n(LIGTABLE (LABEL C A) (KRN C B R 1.0) (STOP))".into());
        v.push("pt (LIGTABLE (LABEL C A) (KRN C B R 1.0) (STOP))".into());
        v.push("pt (CHARACTER O 377 (CHARWD R 2000.0))".into());
        v.push("pt (CHARACTER C A (NEXTLARGER C A))".into());
        v.push("pt (CHARACTER C A (NEXTLARGER C B))(CHARACTER C B (NEXTLARGER C A))".into());
        v.push("pt (LIGTABLE (LABEL BOUNDARYCHAR) (LIG C A C A) (STOP))(BOUNDARYCHAR C A)(CHARACTER C A)".into());
        v.push("pt ".into());
        v.push("pt (".into());
        v.push("pt )".into());
        v.push("pt (HEADER D 300 O 1)(HEADER D 17 O 1)(HEADER D 18 O 1)(HEADER D 255 O 1)".into());
        // C10-j: sixteen distinct heights force `compress`; its FixWord sums/differences overflow
        for big in [["1900.0", "2000.0"], ["-1500.0", "1500.0"]] {
            let mut t = String::from("(CHECKSUM O 1)");
            for i in 1..=16 {
                let h = if i <= 14 { format!("{i}.0") } else { big[i - 15].to_string() };
                t.push_str(&format!("(CHARACTER D {i} (CHARWD R 1.0)(CHARHT R {h}))"));
            }
            v.push(format!("pt {t}"));
        }
        // C10-k: 256 VARCHARs -> ne = 256; C10-l: lf beyond 32767 words from distinct kerns /
        // long lig tables; C10-m: the LigTableIsTooBig warning (no offset) breaks the sort
        v.push("pg v=256".into());
        v.push("pg v=256 big=1 w=256 h=16 d=16 i=64".into());
        v.push("pg k=16400".into());
        v.push("pg k=20000".into());
        v.push("pg l=32600".into());
        v.push("pg l=32510 kr=10".into());
        v.push("pt (LIGTABLE (LABEL C a) (KRN C a R 20.0) (STOP))".into());
        // nesting depth: in process up to NEST_LIMIT, in a child process beyond
        v.push("pn 1000 ".into());
        v.push("pn 20000 (CHARACTER C A ".into());
        v.push("pn 400000 ".into());
        v
    }

    fn generate(&mut self, ctx: &Ctx, rng: &mut Rng) -> Vec<String> {
        let mut v = vec![];
        let th = ctx.thorough;

        // ---- h: header sweeps -------------------------------------------------------------
        let bases: Vec<(usize, u64, [i64; 12])> = vec![
            (16, 0, [4, 2, 1, 0, 1, 1, 1, 1, 0, 0, 0, 0]),
            (24, 0, [6, 2, 1, 0, 1, 1, 1, 1, 0, 0, 0, 0]),
            (48, 0, [12, 2, 1, 0, 1, 1, 1, 1, 0, 0, 0, 0]),
            (100, 5, [18, 3, 65, 66, 2, 2, 1, 1, 1, 1, 1, 1]),
            (131068, 0, [32767, 2, 1, 0, 1, 1, 1, 1, 0, 0, 0, 0]),
        ];
        // 48 values around each of these are always taken with stride 1
        let boundary_starts: Vec<usize> = vec![0, 232, 32744, 65488];
        for (bi, (len, fill, words)) in bases.iter().enumerate() {
            // the big base is expensive (131 kB per value): thinner
            let stride: usize = match (th, *len > 1000) {
                (true, false) => 1,
                (true, true) => 8,
                (false, false) => 64,
                (false, true) => 512,
            };
            for w in 0..12 {
                let mut ws = *words;
                // on the big base keep the table consistent when nw moves (reach the sum)
                let _ = bi;
                ws[w] = 0;
                let hexbase = hex(&header_from(&ws));
                // all 2^16 values of lf and nw on the big base in thorough
                let stride = if th && *len > 1000 && (w == 0 || w == 4) { 1 } else { stride };
                let mut start = 0usize;
                while start < 65536 {
                    v.push(format!("hs {len} {fill} {hexbase} {w} {start} 256 {stride}"));
                    start += 256 * stride;
                }
                if stride > 1 {
                    for b in &boundary_starts {
                        v.push(format!("hs {len} {fill} {hexbase} {w} {b} 48 1"));
                    }
                }
            }
        }
        // hc: every word of two consistent bases moves while lf and the length follow it
        for (fill, words) in [(0u64, [12i64, 2, 1, 0, 1, 1, 1, 1, 0, 0, 0, 0]), (11, [26, 3, 65, 70, 3, 2, 2, 2, 2, 1, 1, 1])] {
            let hexbase = hex(&header_from(&words));
            for w in 1..12 {
                let top = if th { 512 } else { 64 };
                let mut start = 0;
                while start < top {
                    v.push(format!("hc 24 {fill} {hexbase} {w} {start} 64 1"));
                    start += 64;
                }
                // sparse up to and past 2^15
                v.push(format!("hc 24 {fill} {hexbase} {w} {} {} {}", top, if th { 64 } else { 12 }, if th { 97 } else { 2711 }));
                for b in [32700usize, 65500] {
                    v.push(format!("hc 24 {fill} {hexbase} {w} {b} {} 1", if th { 36 } else { 8 }));
                }
            }
        }
        // random consistent tables (+ damage)
        let mut r = rng.fork();
        let n_cons = if th { 30_000 } else { 4_000 };
        for _ in 0..n_cons {
            let total: i64 = match r.below(10) {
                0 => 32767,
                1 => r.range(32000, 32767),
                2..=4 => r.range(12, 60),
                _ => r.range(12, 700),
            };
            let mut ws = [0i64; 12];
            let (bc, ec) = match r.below(6) {
                0 => (1, 0),
                1 => (0, 255),
                2 => {
                    let c = r.range(0, 255);
                    (c, c)
                }
                _ => {
                    let a = r.range(0, 255);
                    let b = r.range(a, (a + 40).min(255));
                    (a, b)
                }
            };
            ws[2] = bc;
            ws[3] = ec;
            let nc = ec - bc + 1;
            let mut rest = total - 6 - nc - 2 - 4;
            if rest < 0 {
                continue;
            }
            ws[1] = 2;
            for k in [4, 5, 6, 7] {
                ws[k] = 1;
            }
            // distribute the rest
            let order = [1usize, 4, 5, 6, 7, 8, 9, 10, 11];
            while rest > 0 {
                let k = *r.pick(&order);
                let mut amt = if r.chance(1, 3) { rest } else { r.range(1, rest.min(40)) };
                if k == 10 {
                    amt = amt.min(255 - ws[10]);
                }
                if k == 1 && r.chance(3, 4) {
                    amt = amt.min((18 - ws[1]).max(0));
                }
                ws[k] += amt;
                rest -= amt;
            }
            ws[0] = 6 + ws[1] + nc + ws[4] + ws[5] + ws[6] + ws[7] + ws[8] + ws[9] + ws[10] + ws[11];
            let mut len = (ws[0] * 4) as usize;
            let fill = 1 + r.below(1000);
            match r.below(8) {
                0 => {
                    // damage 1-3 words
                    for _ in 0..1 + r.below(3) {
                        ws[r.below(12) as usize] = interesting_u16(&mut r) as i16 as i64;
                    }
                }
                1 => len += r.below(9) as usize,
                2 => len = len.saturating_sub(1 + r.below(8) as usize),
                3 => {
                    let k = r.below(12) as usize;
                    ws[k] += *r.pick(&[-1i64, 1]);
                }
                _ => {}
            }
            if len > 3000 && !r.chance(1, if th { 4 } else { 30 }) {
                continue;
            }
            v.push(format!("h {len} {fill} {}", hex(&header_from(&ws))));
        }

        // ---- t: corpus .tfm ---------------------------------------------------------------
        let tfms = self.corpus_files(&["tfm"]);
        let mut r = rng.fork();
        for (rel, len) in &tfms {
            v.push(format!("t {rel}"));
            let b = self.load(rel);
            // truncations around every sub-file boundary
            if b.len() >= 24 {
                let mut pos = 0i64;
                let nc = header_word(&b, 3) - header_word(&b, 2) + 1;
                let parts = [6, header_word(&b, 1), nc, header_word(&b, 4), header_word(&b, 5), header_word(&b, 6), header_word(&b, 7), header_word(&b, 8), header_word(&b, 9), header_word(&b, 10), header_word(&b, 11)];
                for p in parts {
                    pos += 4 * p.max(0);
                    for d in [-4i64, -1, 0, 1, 4] {
                        let t = pos + d;
                        if t >= 0 && (t as usize) < *len && (th || *len < 20_000) {
                            v.push(format!("t {rel} T{t}"));
                        }
                    }
                }
            }
            let big = *len > 20_000;
            let n_mut = match (th, big) {
                (true, false) => 350,
                (true, true) => 60,
                (false, false) => 45,
                (false, true) => 3,
            };
            for _ in 0..n_mut {
                let l = (*len).max(1) as u64;
                let m = match r.below(12) {
                    0 => format!("T{}", r.below(l)),
                    1 => format!("T{}", (r.below(l) / 4) * 4),
                    2 => format!("W{}:{}", r.below(12), interesting_u16(&mut r)),
                    3 => format!("X{}:{}", 1 + r.below(12), r.below(3)),
                    4 | 5 => {
                        // a byte of the first 400 (header, char infos)
                        format!("S{}:{}", r.below(l.min(400)), *r.pick(&[0u8, 1, 2, 3, 127, 128, 129, 254, 255]))
                    }
                    6 => {
                        // two mutations
                        format!("S{}:{} S{}:{}", r.below(l), r.below(256), r.below(l), r.below(256))
                    }
                    _ => format!("S{}:{}", r.below(l), if r.chance(1, 2) { r.below(256) as u8 } else { *r.pick(&[0u8, 1, 2, 3, 127, 128, 129, 254, 255]) }),
                };
                v.push(format!("t {rel} {m}"));
            }
        }

        // ---- pt: grammar ------------------------------------------------------------------
        let mut r = rng.fork();
        let n_pt = if th { 100_000 } else { 8_000 };
        for _ in 0..n_pt {
            v.push(format!("pt {}", esc(&gen_pl(&mut r))));
        }

        // ---- pg: sub-file counts at and just beyond each format limit, from PL text --------
        {
            let mut r = rng.fork();
            let limits: &[(&str, &[usize])] = &[
                ("w", &[1, 254, 255, 256]),
                ("h", &[1, 14, 15, 16, 17, 40, 256]),
                ("d", &[1, 14, 15, 16, 17, 40, 256]),
                ("i", &[1, 62, 63, 64, 65, 100, 256]),
                ("v", &[1, 254, 255, 256]),
                ("p", &[1, 7, 22, 30, 253, 254, 255]),
                ("hd", &[17, 18, 19, 100, 254, 255]),
                ("k", &[1, 255, 256, 257, 5000]),
                ("kr", &[1, 255, 256, 257, 5000]),
                ("l", &[1, 255, 256, 257, 5000]),
                ("lab", &[1, 2, 255, 256]),
                ("bc", &[0, 1, 255]),
                ("ec", &[0, 254, 255]),
            ];
            // each limit alone, small and big values
            for (k, vals) in limits {
                for x in *vals {
                    v.push(format!("pg {k}={x}"));
                    v.push(format!("pg {k}={x} big=1"));
                }
            }
            // every table at its limit together, with and without the boundary character
            v.push("pg w=256 h=16 d=16 i=64 v=256 p=254 hd=255 bc=0 ec=255".into());
            v.push("pg w=256 h=256 d=256 i=256 v=256 p=254 hd=255 big=1 b=1".into());
            v.push("pg w=256 h=40 d=40 i=100 lab=256 p=254 hd=255 b=1 l=300".into());
            // the lig/kern table against the 2^15 words of the whole file: around the limits
            // 32510 (instructions), 31129 (instructions + kerns), and what is left of lf
            let mut bigs: Vec<String> = vec![];
            for x in [16300usize, 16400, 20000, 31128, 31129, 31130, 32509, 32510, 32511, 33000] {
                bigs.push(format!("pg k={x}"));
                bigs.push(format!("pg l={x}"));
                bigs.push(format!("pg kr={x}"));
            }
            for (k, l) in [(15000usize, 16128usize), (15000, 16129), (15000, 16130), (100, 32409), (100, 32410), (5000, 26000), (8000, 15128)] {
                bigs.push(format!("pg k={k} l={l}"));
                bigs.push(format!("pg k={k} l={l} w=256 h=40 d=40 i=100 v=255 p=254 hd=255 b=1"));
                bigs.push(format!("pg k={k} l={l} w=256 h=40 d=40 i=100 lab=256 p=254 hd=255 b=1 big=1"));
            }
            let n_big = if th { bigs.len() } else { 24 };
            // quick: the first of each family plus a random selection
            for (j, b) in bigs.iter().enumerate() {
                if th || j < 12 || r.chance(n_big as u64, bigs.len() as u64 * 2) {
                    v.push(b.clone());
                }
            }
            // random combinations of limit values
            let n_rand = if th { 1500 } else { 150 };
            for _ in 0..n_rand {
                let mut parts = vec![];
                for (k, vals) in limits {
                    if r.chance(1, 3) {
                        let x = *r.pick(vals);
                        let x = if r.chance(1, 4) { (x as i64 + r.range(-2, 2)).max(0) as usize } else { x };
                        parts.push(format!("{k}={x}"));
                    }
                }
                if r.chance(1, 3) {
                    parts.push("big=1".into());
                }
                if r.chance(1, 3) {
                    parts.push("b=1".into());
                }
                if r.chance(1, if th { 10 } else { 40 }) {
                    parts.push(format!("l={}", r.range(25000, 32600)));
                }
                v.push(format!("pg {}", parts.join(" ")));
            }
        }

        // ---- ct: canonical trees (the round-trip law of the CST) ---------------------------
        {
            let mut r = rng.fork();
            for t in ["(A )", "( )", "( x)", "(A B(C D)(E ))", "(COMMENT)", "(COMMENT (a)(b(c)))", "(COMMENTS x)", "(A x\\ny (B z ))"] {
                v.push(format!("ct {t}"));
            }
            for _ in 0..if th { 20_000 } else { 1_500 } {
                let mut t = String::new();
                gen_canonical(&mut r, 0, &mut t);
                v.push(format!("ct {}", esc(&t)));
            }
        }

        // ---- nf / nu / nb: the number readers on boundary strings -------------------------
        {
            let mut r = rng.fork();
            let fix: &[&str] = &[
                "R 0", "R 1", "R -1", "D 1.5", "r 0.5", "d -0.5", "R 2047", "R 2047.9999999", "R 2047.999999", "R 2047.9999994",
                "R 2047.9999995", "R 2047.99999999999", "R 2048", "R 2048.0", "R -2048", "R 2049", "R 20470", "R 20480", "R 204799999999",
                "R 9999999999", "R 99999999999999999999999999", "R 4294967296", "R 2147483648", "R 0.0000001", "R 0.00000005",
                "R 0.9999999", "R 0.99999995", "R 0.12345678", "R .5", "R 5.", "R .", "R", "R -", "R +-+-1.5", "R - - 1", "R + 3", "R 1 .5",
                "R 1.5.5", "R 1e5", "R 1.5 junk", "X 1.5", "", "R\\n1.5", "R 00000000000000000000001.5", "R 2047.00000000000000000000",
                "R 1.9999999999999999999999999", "R -2047.9999999", "R -2047.999999", "D 16", "R 15.9999999", "R 1,5", "R 1.5\\x09",
            ];
            let u32s: &[&str] = &[
                "O 0", "O 7", "O 37777777777", "O 40000000000", "O 37777777778", "O 377777777777777777", "O 8", "O 79", "O 12a", "O 1 2",
                "H 0", "H FFFFFFFF", "H ffffffff", "H 100000000", "H FFFFFFFFF", "H FFFFFFFG", "H 12345678 9", "H", "O", "D 5", "X", "",
                "h 7f", "o 17", "O 00000000000000000000000017", "H 0000000000000000000000FF", "O 4294967295", "H 4294967296", "O -1", "H +1",
            ];
            let u8s: &[&str] = &[
                "D 0", "D 255", "D 256", "D 2550", "D 99999999999999999999", "D 25 5", "D", "O 377", "O 400", "O 378", "O 8", "H FF", "H 100",
                "H fg", "H G", "C A", "C", "C  ", "C ~", "C \\x7f", "C \\xc3\\xa9", "C AB", "c a", "F MRR", "F BIE", "F LIC", "F MIE", "F XXX",
                "F MR", "F", "F M", "F MRRR", "f bie", "X 1", "", "D 00000000000000000255", "D 0256", "O 0000377", "H 0FF", "D -1", "D +1",
            ];
            // non-ASCII (2/3/4-byte, U+0080..U+00FF and beyond, combining marks, full-width digits)
            // and control characters right after every data-type prefix and inside numbers
            let exotic: &[&str] = &[
                "\u{80}", "\u{a0}", "\u{e9}", "\u{ff}", "\u{100}", "\u{17f}", "\u{20ac}", "\u{ff11}", "\u{ff21}", "\u{1d11e}", "\u{301}", "e\u{301}",
                "\u{10ffff}", "\u{1}", "\u{7}", "\u{9}", "\u{1b}", "\u{7f}", "\u{85}", "\u{2028}", "\u{feff}", "\u{0}",
            ];
            let mut exo_cases: Vec<String> = vec![];
            for x in exotic {
                for pre in ["C ", "c", "C  "] {
                    exo_cases.push(format!("nb {}", esc(&format!("{pre}{x}"))));
                    exo_cases.push(format!("nb {}", esc(&format!("{pre}{x}A"))));
                }
                for pre in ["D ", "O ", "H ", "F ", "F M", "F MR", "D 1", "H F", ""] {
                    exo_cases.push(format!("nb {}", esc(&format!("{pre}{x}"))));
                }
                for pre in ["R ", "D ", "R -", "R 1", "R 1.", "R 1.5", "R 2047", ""] {
                    exo_cases.push(format!("nf {}", esc(&format!("{pre}{x}"))));
                    exo_cases.push(format!("nf {}", esc(&format!("{pre}{x}5"))));
                }
                for pre in ["O ", "H ", "O 7", "H F", ""] {
                    exo_cases.push(format!("nu {}", esc(&format!("{pre}{x}"))));
                    exo_cases.push(format!("nu {}", esc(&format!("{pre}{x}7"))));
                }
            }
            v.extend(exo_cases);
            for (cmd, list) in [("nf", fix), ("nu", u32s), ("nb", u8s)] {
                for s in list {
                    v.push(format!("{cmd} {s}"));
                }
            }
            let n = if th { 40_000 } else { 2_500 };
            for _ in 0..n {
                let (cmd, prefixes, alphabet): (&str, &[&str], &[&str]) = match r.below(3) {
                    0 => ("nf", &["R ", "D ", "r", "R  ", "R -", "R +-"], &["0", "1", "2", "4", "7", "8", "9", "9", "9", ".", ".", "-", "+", " ", "2047", "2048", "204", "99999", "e", "x", "\u{e9}", "\u{20ac}", "\u{ff15}", "\u{7}"]),
                    1 => ("nu", &["O ", "H ", "o", "h ", "O  "], &["0", "1", "3", "7", "7", "7", "8", "9", "a", "F", "F", "F", "g", " ", "3777", "FFFF", "4000000000", "\u{e9}", "\u{20ac}", "\u{ff17}", "\u{1b}"]),
                    _ => ("nb", &["D ", "O ", "H ", "C ", "F ", "d", "X "], &["0", "1", "2", "5", "5", "6", "7", "8", "F", "f", "M", "R", "I", "B", "E", "C", "L", " ", "25", "37", "40", "\u{80}", "\u{ff}", "\u{100}", "\u{20ac}", "\u{1d11e}", "\u{301}", "\u{1}"]),
                };
                let mut s = (*r.pick(prefixes)).to_string();
                for _ in 0..r.below(9) {
                    s.push_str(*r.pick(alphabet));
                }
                v.push(format!("{cmd} {}", esc(&s)));
            }
        }

        // ---- p: corpus property lists -----------------------------------------------------
        // debugging aid: C10_SKIP_H=1 leaves the header sweeps out
        if std::env::var("C10_SKIP_H").is_ok() {
            v.retain(|c| !c.starts_with('h'));
        }
        let pls = self.corpus_files(&["plst", "pl"]);
        let mut r = rng.fork();
        for (rel, len) in &pls {
            if *len > 60_000 && !th {
                // the six largest lists cost ~50 ms each; once each in quick
                v.push(format!("p {rel}"));
                continue;
            }
            v.push(format!("p {rel}"));
            let src = String::from_utf8_lossy(&self.load(rel)).into_owned();
            let ntok = tokens(&src).len();
            let n_mut = match (th, *len) {
                (true, l) if l > 60_000 => 10,
                (true, l) if l > 10_000 => 60,
                (true, _) => 250,
                (false, l) if l > 10_000 => 6,
                (false, _) => 30,
            };
            for _ in 0..n_mut {
                v.push(format!("p {rel} {}", mutate_pl(&mut r, ntok)));
            }
        }
        // ---- e / el: byte-level endings and line-ending variants ---------------------------
        {
            let mut r = rng.fork();
            let endings: &[&str] = &["\r", "\r\r", "\r\n", "\n\r", "\\", "\u{85}", "\u{2028}", "\t", "\u{0}", "(\r", ")\r", " \r", "\r\r\r", "x\r", "\r "];
            // every ending x every cut on a few literal texts and on every small corpus list
            let mut inners: Vec<String> = vec![
                "pt ".into(),
                "pt (".into(),
                "pt (CHARACTER C A (CHARWD R 1.0))".into(),
                "pt (LIGTABLE (LABEL C A)\\n(KRN C B R 1.0)\\n(STOP))\\n".into(),
                "pt (COMMENT a (b) c)\\n".into(),
                "pt (CODINGSCHEME X)\\r\\n(FAMILY Y)\\r\\n".into(),
            ];
            let pls_e = self.corpus_files(&["plst", "pl"]);
            for (rel, len) in &pls_e {
                if *len <= if th { 20_000 } else { 1_200 } {
                    inners.push(format!("p {rel}"));
                }
            }
            for inner in &inners {
                for e in endings {
                    for k in 0..4 {
                        v.push(format!("e {k} {} {inner}", hex(e.as_bytes())));
                    }
                }
            }
            // … and a random ending on a sample of the generated text cases so far
            let texts: Vec<String> = v.iter().filter(|c| c.starts_with("pt ") || c.starts_with("pg ") || c.starts_with("p ")).cloned().collect();
            let every = if th { 4 } else { 14 };
            for (j, c) in texts.iter().enumerate() {
                if j % every == 0 && !(c.starts_with("pg ") && c.len() > 40) {
                    v.push(format!("e {} {} {c}", r.below(4), hex(r.pick(endings).as_bytes())));
                }
            }
            // line-ending variants of corpus lists cut at every character position
            let upto = if th { 700 } else { 200 };
            let mut nfiles = 0;
            for (rel, len) in &pls_e {
                let wanted = rel.contains("windows_newlines") || rel.contains("crlf") || (*len > 200 && *len < 20_000 && nfiles < if th { 40 } else { 3 });
                if !wanted {
                    continue;
                }
                nfiles += 1;
                for mode in ["crlf", "cr", "crcrlf", "lfcr", "mixed"] {
                    for n in 0..upto.min(*len + 8) {
                        v.push(format!("el {mode} {n} {rel}"));
                    }
                }
            }
        }

        v
    }

    fn run_case(&mut self, case: &str, drv: &mut Driver) -> CaseOutcome {
        let t0 = std::time::Instant::now();
        let out = self.run_case_inner(case, drv);
        let kind = case.split(' ').next().unwrap_or("?").to_string();
        *self.seconds.entry(kind).or_insert(0.0) += t0.elapsed().as_secs_f64();
        out
    }
    fn extra_evidence(&self) -> Option<String> {
        let secs: Vec<String> = self.seconds.iter().map(|(k, v)| format!("\"{k}\": {v:.1}")).collect();
        Some(format!("\"header_word_values_evaluated_in_hs_sweeps\": {}, \"seconds_by_case_kind\": {{{}}}", self.header_values, secs.join(", ")))
    }

    fn shrink(&self, case: &str) -> Vec<String> {
        let (cmd, rest) = case.split_once(' ').unwrap_or((case, ""));
        let mut c = vec![];
        match cmd {
            "t" | "p" => {
                let w: Vec<&str> = rest.split(' ').collect();
                if w.len() > 1 {
                    for i in 1..w.len() {
                        let mut o = w.clone();
                        o.remove(i);
                        c.push(format!("{cmd} {}", o.join(" ")));
                    }
                }
                if cmd == "p" {
                    // turn into literal text (shrinks further as pt) when the list is small
                    let mut me = C10 { repo: self.repo.clone(), files: Default::default(), header_values: 0, driver: self.driver.clone(), seconds: Default::default() };
                    let text = me.text_of_case(cmd, rest);
                    if text.len() < 30_000 {
                        let e = esc(&text);
                        if e.len() < case.len() || w.len() <= 2 {
                            c.push(format!("pt {e}"));
                        }
                    }
                }
            }
            "pt" => {
                let text = unesc(rest);
                let toks = tokens(&text);
                // balanced groups: drop halves of the top-level lists, then single lists
                let mut groups: Vec<(usize, usize)> = vec![];
                let mut depth = 0i64;
                let mut start = 0;
                for (i, t) in toks.iter().enumerate() {
                    if t == "(" {
                        if depth == 0 {
                            start = i;
                        }
                        depth += 1;
                    } else if t == ")" {
                        depth -= 1;
                        if depth == 0 {
                            groups.push((start, i + 1));
                        }
                        if depth < 0 {
                            depth = 0;
                        }
                    }
                }
                let without = |a: usize, b: usize| -> String {
                    let mut s = String::new();
                    for (i, t) in toks.iter().enumerate() {
                        if i < a || i >= b {
                            s.push_str(t);
                        }
                    }
                    format!("pt {}", esc(&s))
                };
                if groups.len() > 1 {
                    let mid = groups[groups.len() / 2].0;
                    c.push(without(mid, toks.len()));
                    c.push(without(0, mid));
                }
                for (a, b) in &groups {
                    c.push(without(*a, *b));
                }
                // inner lists of each top-level group
                let mut stack = vec![];
                let mut inner = vec![];
                for (i, t) in toks.iter().enumerate() {
                    if t == "(" {
                        stack.push(i);
                    } else if t == ")" {
                        if let Some(a) = stack.pop() {
                            if !stack.is_empty() {
                                inner.push((a, i + 1));
                            }
                        }
                    }
                }
                for (a, b) in inner.iter().take(150) {
                    c.push(without(*a, *b));
                }
                // single characters (byte-level endings and the like)
                let chars: Vec<char> = text.chars().collect();
                if chars.len() <= 120 {
                    for i in 0..chars.len() {
                        let mut o = chars.clone();
                        o.remove(i);
                        c.push(format!("pt {}", esc(&o.iter().collect::<String>())));
                    }
                }
                // blanks
                if toks.len() < 200 {
                    for i in 0..toks.len() {
                        c.push(without(i, i + 1));
                    }
                }
            }
            "e" | "el" => {
                // as literal text (then shrinks as pt); for el also shorter cuts
                let mut me = C10 { repo: self.repo.clone(), files: Default::default(), header_values: 0, driver: self.driver.clone(), seconds: Default::default() };
                let text = me.text_of_case(cmd, rest);
                if text.len() < 30_000 {
                    c.push(format!("pt {}", esc(&text)));
                }
            }
            "nf" | "nu" | "nb" => {
                let d: Vec<char> = unesc(rest).chars().collect();
                for i in 0..d.len() {
                    let mut o = d.clone();
                    o.remove(i);
                    c.push(format!("{cmd} {}", esc(&o.iter().collect::<String>())));
                }
            }
            "pg" => {
                let w: Vec<&str> = rest.split(' ').filter(|x| !x.is_empty()).collect();
                for i in 0..w.len() {
                    let mut o = w.clone();
                    o.remove(i);
                    c.push(format!("pg {}", o.join(" ")));
                }
                for i in 0..w.len() {
                    if let Some((k, v)) = w[i].split_once('=') {
                        let v: usize = v.parse().unwrap_or(0);
                        for nv in [v / 2, v.saturating_sub(1000), v.saturating_sub(100), v.saturating_sub(10), v.saturating_sub(1)] {
                            if nv < v {
                                let mut o: Vec<String> = w.iter().map(|x| x.to_string()).collect();
                                o[i] = format!("{k}={nv}");
                                c.push(format!("pg {}", o.join(" ")));
                            }
                        }
                    }
                }
            }
            "pn" => {
                let (n, prefix) = rest.split_once(' ').unwrap_or((rest, ""));
                let n: usize = n.parse().unwrap_or(0);
                if !prefix.is_empty() {
                    c.push(format!("pn {n} "));
                }
                // no halving: a text that does *not* overflow the stack takes time quadratic in
                // the number of unbalanced parentheses (every warning's context is located by
                // a scan from the start of the source), so passing candidates are expensive
                let _ = n;
            }
            "hc" => {
                let w: Vec<&str> = rest.split(' ').collect();
                let (start, count, stride): (usize, usize, usize) = (w[4].parse().unwrap(), w[5].parse().unwrap(), w[6].parse().unwrap());
                if count > 1 {
                    for k in 0..count {
                        let x = start + k * stride;
                        if x < 65536 {
                            c.push(format!("hc {} {} {} {} {x} 1 1", w[0], w[1], w[2], w[3]));
                        }
                    }
                } else if w[1] != "0" {
                    c.push(format!("hc {} 0 {} {} {} 1 1", w[0], w[2], w[3], w[4]));
                }
            }
            "hs" => {
                let w: Vec<&str> = rest.split(' ').collect();
                let (word, start, count, stride): (usize, usize, usize, usize) = (w[3].parse().unwrap(), w[4].parse().unwrap(), w[5].parse().unwrap(), w[6].parse().unwrap());
                let base = unhex(w[2]);
                for k in 0..count {
                    let x = start + k * stride;
                    if x < 65536 {
                        let mut b = base.clone();
                        b[2 * word] = (x >> 8) as u8;
                        b[2 * word + 1] = x as u8;
                        c.push(format!("h {} {} {}", w[0], w[1], hex(&b)));
                    }
                }
            }
            "h" => {
                let w: Vec<&str> = rest.split(' ').collect();
                if w.len() == 3 {
                    if w[1] != "0" {
                        c.push(format!("h {} 0 {}", w[0], w[2]));
                    }
                    let b = unhex(w[2]);
                    for i in 0..b.len() {
                        if b[i] != 0 {
                            let mut o = b.clone();
                            o[i] = 0;
                            c.push(format!("h {} {} {}", w[0], w[1], hex_or_dash(&o)));
                        }
                    }
                }
            }
            _ => {}
        }
        c
    }
}

impl C10 {
    fn run_case_inner(&mut self, case: &str, drv: &mut Driver) -> CaseOutcome {
        let mut out = CaseOutcome::default();

        // debugging aid: C10_TRACE=<file> records the case being run (to find a case that
        // kills the process, e.g. by a stack overflow, which `caught` cannot intercept)
        if let Ok(path) = std::env::var("C10_TRACE") {
            let _ = std::fs::write(path, case);
        }
        let (cmd, rest) = case.split_once(' ').unwrap_or((case, ""));
        match cmd {
            "hs" | "hc" => {
                // a sweep: `hs <len> <fill> <hex> <word> <start> <count> <stride>`; `hc` recomputes
                // lf and the file length for every value so that the table stays consistent
                let w: Vec<&str> = rest.split(' ').collect();
                let (len, fill, word): (usize, u64, usize) = (w[0].parse().unwrap(), w[1].parse().unwrap(), w[3].parse().unwrap());
                let (start, count, stride): (usize, usize, usize) = (w[4].parse().unwrap(), w[5].parse().unwrap(), w[6].parse().unwrap());
                let vals: Vec<u16> = (0..count).map(|k| start + k * stride).filter(|x| *x < 65536).map(|x| x as u16).collect();
                let mut files: Vec<Vec<u8>> = vec![];
                let mut bytes = self.bytes_of_case("h", &format!("{len} {fill} {}", w[2]));
                let mut reqs = vec![];
                for x in &vals {
                    if 2 * word + 1 < bytes.len() {
                        bytes[2 * word] = (*x >> 8) as u8;
                        bytes[2 * word + 1] = *x as u8;
                    }
                    if cmd == "hc" && bytes.len() >= 24 {
                        let g = |i: usize| header_word(&bytes, i);
                        let lf = 6 + g(1) + (g(3) - g(2) + 1) + g(4) + g(5) + g(6) + g(7) + g(8) + g(9) + g(10) + g(11);
                        let lf16 = lf as u16;
                        bytes[0] = (lf16 >> 8) as u8;
                        bytes[1] = lf16 as u8;
                        let want = if (6..=32767).contains(&lf) { 4 * lf as usize } else { 24 };
                        bytes.truncate(want.max(24));
                        while bytes.len() < want {
                            bytes.push(fill_byte(bytes.len(), fill));
                        }
                        files.push(bytes.clone());
                    }
                    let n = bytes.len().min(24);
                    reqs.push(format!("raw {} {}", bytes.len(), join(&bytes[..n])));
                }
                let replies = drv.ask_many(&reqs);
                out.nontrivial = bytes.len() >= 2;
                out.tag(format!("case:{cmd}"));
                for (k, (x, m)) in vals.iter().zip(replies).enumerate() {
                    if cmd == "hc" && !files.is_empty() {
                        bytes = std::mem::take(&mut files[k]);
                    } else if 2 * word + 1 < bytes.len() {
                        bytes[2 * word] = (*x >> 8) as u8;
                        bytes[2 * word + 1] = *x as u8;
                    }
                    self.header_values += 1;
                    if let Some(pl) = self.check_bytes_m(&bytes, m, drv, &mut out, "", true) {
                        if bytes.len() < 20_000 {
                            self.check_text(&pl, drv, &mut out, "tftopl>");
                        }
                    }
                }
            }
            "h" | "b" | "t" => {
                let bytes = self.bytes_of_case(cmd, rest);
                out.nontrivial = bytes.len() >= 2;
                out.tag(format!("case:{cmd}"));
                if cmd == "t" {
                    for m in rest.split(' ').skip(1) {
                        out.tag(format!("t:mut-{}", &m[..1]));
                    }
                }
                if let Some(pl) = self.check_bytes(&bytes, drv, &mut out, "", true) {
                    // tftopl's output is a property list: pltotf must take it
                    if bytes.len() < 20_000 || cmd == "t" {
                        self.check_text(&pl, drv, &mut out, "tftopl>");
                    }
                }
            }
            "ct" => {
                // the round-trip law of the CST on a canonical text: no warnings, and rendering
                // the tree gives the text back — for the real parser and (by Lean) for the model
                let text = unesc(rest);
                out.nontrivial = text.contains('(');
                out.tag("case:ct");
                match caught(|| {
                    let (tfm::pl::cst::Cst(tree), warnings) = tfm::pl::cst::Cst::from_pl_source_code(&text);
                    let mut back = String::new();
                    render_cst(&tree, &mut back);
                    (back, warnings.len())
                }) {
                    Err(p) => out.fail(Kind::ImplPanic, "cst", format!("panic {}", strip_msg(&p)), p),
                    Ok((back, nw)) => {
                        if nw != 0 || back != text {
                            out.fail(Kind::ImplVsSpec, "cst", "canonical text does not round-trip through the real CST", format!("warnings {nw}\ntext: {text:?}\nback: {back:?}"));
                        }
                    }
                }
                let mut req = String::from("cstrt");
                for c in text.chars() {
                    req.push_str(&format!(" {}", c as u32));
                }
                let m = drv.ask(&req);
                if m != "warnings=0 same=1" {
                    out.fail(Kind::ModelVsSpec, "cst", "canonical text does not round-trip through the CST model", format!("{m}\ntext: {text:?}"));
                }
                self.check_cst(&text, drv, &mut out, "");
            }
            "nf" | "nu" | "nb" => {
                let which = match cmd {
                    "nf" => "fix",
                    "nu" => "u32",
                    _ => "u8",
                };
                // the data of a CST node: no parentheses, no leading blanks, Unix line ends
                let data: String = unesc(rest).chars().filter(|c| *c != '(' && *c != ')' && *c != '\r').collect();
                let data = data.trim_start_matches([' ', '\n']).to_string();
                out.nontrivial = !data.is_empty();
                out.tag(format!("case:{cmd}"));
                let mut req = format!("num {which}");
                for c in data.chars() {
                    req.push_str(&format!(" {}", c as u32));
                }
                let m = drv.ask(&req);
                if m == "panic" {
                    out.fail(Kind::ModelVsSpec, "num", format!("number model panics ({which})"), format!("data {data:?}"));
                }
                match caught(|| real_num(which, &data)) {
                    Err(p) => out.fail(Kind::ImplPanic, "num", format!("panic {}", strip_msg(&p)), format!("the {which} reader panicked on {data:?}: {p}")),
                    Ok(i) => {
                        let w: Vec<&str> = i.split(' ').collect();
                        out.tag(format!("num:{which}:{}", if w.len() > 4 && w[4] != "0" { format!("warning-kind-{}", w.get(5).unwrap_or(&"?")) } else { "clean".into() }));
                        if i != m {
                            out.fail(Kind::ImplVsModel, "num", format!("{which} reader differs from the model"), format!("data {data:?}\nimpl:  {i}\nmodel: {m}"));
                        }
                    }
                }
                // and the whole converter must take the same text
                let key = match which { "fix" => "DESIGNUNITS", "u32" => "CHECKSUM", _ => "BOUNDARYCHAR" };
                self.check_text(&format!("({key} {data})"), drv, &mut out, "");
            }
            "p" | "pt" | "pn" | "pg" | "e" | "el" => {
                let text = self.text_of_case(cmd, rest);
                out.nontrivial = text.contains('(');
                out.tag(format!("case:{cmd}"));
                // A stack overflow kills the process and cannot be caught: texts nested deeper
                // than NEST_LIMIT run in a child process (this binary, `--replay-case`).
                let depth = max_depth(&text);
                if depth > NEST_LIMIT && std::env::var("C10_CHILD").is_err() {
                    out.tag("text:deeply-nested-in-child-process");
                    self.run_in_child(case, depth, &mut out);
                    return out;
                }
                if cmd == "p" {
                    for m in rest.split(' ').skip(1) {
                        out.tag(format!("p:mut-{}", &m[..1]));
                    }
                }
                if cmd == "e" || cmd == "el" {
                    let last = text.chars().last();
                    out.tag(format!("ending:{}", match last {
                        Some('\r') => "CR",
                        Some('\n') => "LF",
                        Some('\\') => "backslash",
                        Some(c) if c.is_control() => "control",
                        Some(c) if !c.is_ascii() => "non-ascii",
                        Some(_) => "other",
                        None => "empty",
                    }));
                }
                self.check_text(&text, drv, &mut out, "");
            }
            _ => panic!("bad case {case}"),
        }
        out
    }

}

fn main() {
    let args = parse_args();
    if std::env::var("C10_DEBUG").as_deref() == Ok("gen") {
        // generator self-test (default panic hook still installed: messages are printed)
        let ctx = Ctx { thorough: args.tier == "thorough", tier: args.tier.clone(), seed: args.seed, repo: args.repo.clone(), verif: args.verif.clone(), jobs: 1 };
        let mut p = C10 { repo: args.repo.clone(), files: Default::default(), header_values: 0, driver: args.driver.clone(), seconds: Default::default() };
        let v = p.generate(&ctx, &mut Rng::new(args.seed));
        println!("{} cases generated", v.len());
        return;
    }
    run(C10 { repo: args.repo, files: Default::default(), header_values: 0, driver: args.driver, seconds: Default::default() });
}
