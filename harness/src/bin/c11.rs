//! C11 — TFM<->PL conversion is an idempotent normalisation that preserves the font.
//!
//! Case strings (one ASCII line each):
//!   `tfm <path under crates/tfm/corpus>`   t0 = the file's bytes
//!   `pl <path under crates/tfm/corpus>`    t0 = pl_to_tfm(file text)   (skipped when that warns)
//!   `gen k=v k=v ...`                      t0 = pl_to_tfm(PL text generated deterministically from
//!                                          the shape descriptor; see `Shape`) (skipped when that warns)
//!   `raw k=v k=v ...`                      same font as `gen`, then the `tfm::File` is laid out
//!                                          non-canonically (shuffled/duplicated tables, shuffled kerns)
//!                                          before it is serialised with the real serialiser
//!   `redir <n> <rb|-1>`                    t0 = a font whose first n characters each have their own redirect word
//!   `hex <bytes in hex>`                   t0 = literal bytes
//!   `pack <rb> <lb> <n> (<next> <right>)*n <m> (<char> <entry>)*m`
//!                                          `Program::pack_entrypoints` alone on a synthetic program
//!   `sz lh bc ec nw nh nd ni nl nk ne np`   t0 = the all-zero file with these size words (capacity boundaries)
//!   `tprog <program>`                      t0 = a 256-character font whose lig/kern table is the given TFM-level program
//!   `norm <program>`                       a hand-built `pl::File` (TFM-level program, unpacked entry points) through the real
//!                                          LIGTABLE printer (`lower`/`display`) and parser (`from_pl_source_code`)
//!   `kerns <n> (<kind> <value>)*n`         `unpack_kerns` / `pack_kerns` alone
//!   `dims <max> <n> <value>*n`             `tfm::compress` on its lossless path (dimension tables)
//!
//! For every t0 inside the quantifier (tftopl and pltotf of the first trip raise no warning):
//!   t1 = pl_to_tfm(tfm_to_pl(t0)), t2 = pl_to_tfm(tfm_to_pl(t1))
//!   S: t1 = t2 bytewise, no warning on the second trip, t0 and t1 decode (real reader) to the
//!      same characters / dimensions / tags / recipes / params / header / boundary char, and the
//!      real compiled lig/kern programs of t0 and t1 agree on every pair and boundary; the Lean
//!      `C05.rule` on the decoded instruction lists agrees on every pair (computed by Lean).
//!   M: the real `pack_entrypoints` output on the parsed PL program equals the Lean model's, and
//!      Lean's executable spec `checkPack` holds of the *real* output.

use std::collections::{BTreeMap, BTreeSet, HashMap};
use tfm::ligkern::lang::{Instruction, Operation, PostLigOperation, Program};
use tfm::{Char, FixWord};
use vh::*;

// ------------------------------------------------------------------------------------------
// The real pipeline (the same public functions the tftopl / pltotf binaries call)
// ------------------------------------------------------------------------------------------

/// `tftopl`: (pl text, number of messages) or a deserialisation error.
fn real_tftopl(tfm_bytes: &[u8]) -> Result<(String, Vec<String>), String> {
    real_tftopl_fmt(tfm_bytes, None)
}

/// `forced`: tftopl's `--charcode-format ascii|octal`; `None`: the default rule.
fn real_tftopl_fmt(tfm_bytes: &[u8], forced: Option<tfm::pl::CharDisplayFormat>) -> Result<(String, Vec<String>), String> {
    // Same display-format rule as tfm-bin/src/shared.rs (CharcodeFormat::Default).
    let out = tfm::algorithms::tfm_to_pl(tfm_bytes, 3, &|pl_file| {
        if let Some(f) = forced {
            return f;
        }
        let scheme = match &pl_file.header.character_coding_scheme {
            None => String::new(),
            Some(s) => s.to_uppercase(),
        };
        if scheme.starts_with("TEX MATH SY") || scheme.starts_with("TEX MATH EX") {
            tfm::pl::CharDisplayFormat::Octal
        } else {
            tfm::pl::CharDisplayFormat::Default
        }
    })
    .map_err(|_| "fmt error".to_string())?;
    let msgs: Vec<String> = out.error_messages.iter().map(|m| m.tftopl_message()).collect();
    match out.pl_data {
        Ok(s) => Ok((s, msgs)),
        Err(e) => Err(format!("{e:?}")),
    }
}

/// `pltotf`: (tfm bytes, warning kinds).
fn real_pltotf(pl: &str) -> (Vec<u8>, Vec<String>) {
    let (b, w) = tfm::algorithms::pl_to_tfm(pl);
    let kinds = w
        .iter()
        .map(|w| {
            let s = format!("{:?}", w.kind);
            s.split(|c: char| !c.is_ascii_alphanumeric()).next().unwrap_or("").to_string()
        })
        .collect();
    (b, kinds)
}

// ------------------------------------------------------------------------------------------
// Instruction encoding shared with lean/Driver/C11.lean: next(-1) right kind a b
//   kind 0 kern(value a) | 1 kernAt(index a) | 2 lig(char a, post b) | 3 redirect(target a, flag b)
// ------------------------------------------------------------------------------------------

fn post_code(p: PostLigOperation) -> i64 {
    use PostLigOperation::*;
    match p {
        RetainBothMoveNowhere => 0,
        RetainBothMoveToInserted => 1,
        RetainBothMoveToRight => 2,
        RetainRightMoveToInserted => 3,
        RetainRightMoveToRight => 4,
        RetainLeftMoveNowhere => 5,
        RetainLeftMoveToInserted => 6,
        RetainNeitherMoveToInserted => 7,
    }
}

fn enc_instr(i: &Instruction, out: &mut Vec<i64>) {
    out.push(i.next_instruction.map(|x| x as i64).unwrap_or(-1));
    out.push(i.right_char.0 as i64);
    match i.operation {
        Operation::Kern(k) => out.extend([0, k.0 as i64, 0]),
        Operation::KernAtIndex(k) => out.extend([1, k as i64, 0]),
        Operation::Ligature { char_to_insert, post_lig_operation, .. } => {
            out.extend([2, char_to_insert.0 as i64, post_code(post_lig_operation)])
        }
        Operation::EntrypointRedirect(u, b) => out.extend([3, u as i64, b as i64]),
    }
}

/// `<rb> <lb> <n> instrs <m> (char entry)* <k> kerns*` — entries sorted by character.
fn enc_program(p: &Program, entries: &BTreeMap<u8, i64>, kerns: &[FixWord]) -> Vec<i64> {
    let mut v = vec![
        p.right_boundary_char.map(|c| c.0 as i64).unwrap_or(-1),
        p.left_boundary_char_entrypoint.map(|c| c as i64).unwrap_or(-1),
        p.instructions.len() as i64,
    ];
    for i in &p.instructions {
        enc_instr(i, &mut v);
    }
    v.push(entries.len() as i64);
    for (c, e) in entries {
        v.extend([*c as i64, *e]);
    }
    v.push(kerns.len() as i64);
    v.extend(kerns.iter().map(|k| k.0 as i64));
    v
}

fn post_of(code: i64) -> PostLigOperation {
    use PostLigOperation::*;
    match code {
        0 => RetainBothMoveNowhere,
        1 => RetainBothMoveToInserted,
        2 => RetainBothMoveToRight,
        3 => RetainRightMoveToInserted,
        4 => RetainRightMoveToRight,
        5 => RetainLeftMoveNowhere,
        6 => RetainLeftMoveToInserted,
        _ => RetainNeitherMoveToInserted,
    }
}

/// Inverse of `enc_program`.
fn dec_program(w: &[i64]) -> (Program, BTreeMap<u8, i64>, Vec<FixWord>) {
    let (rb, lb, n) = (w[0], w[1], w[2] as usize);
    let mut instructions = vec![];
    for i in 0..n {
        let x = &w[3 + 5 * i..8 + 5 * i];
        instructions.push(Instruction {
            next_instruction: if x[0] < 0 { None } else { Some(x[0] as u8) },
            right_char: Char(x[1] as u8),
            operation: match x[2] {
                0 => Operation::Kern(FixWord(x[3] as i32)),
                1 => Operation::KernAtIndex(x[3] as u16),
                2 => Operation::Ligature { char_to_insert: Char(x[3] as u8), post_lig_operation: post_of(x[4]), post_lig_tag_invalid: false },
                _ => Operation::EntrypointRedirect(x[3] as u16, x[4] != 0),
            },
        });
    }
    let mut pos = 3 + 5 * n;
    let m = w[pos] as usize;
    pos += 1;
    let mut entries = BTreeMap::new();
    for _ in 0..m {
        entries.insert(w[pos] as u8, w[pos + 1]);
        pos += 2;
    }
    let k = w[pos] as usize;
    let kerns = w[pos + 1..pos + 1 + k].iter().map(|x| FixWord(*x as i32)).collect();
    (
        Program {
            instructions,
            left_boundary_char_entrypoint: if lb < 0 { None } else { Some(lb as u16) },
            right_boundary_char: if rb < 0 { None } else { Some(Char(rb as u8)) },
            passthrough: Default::default(),
        },
        entries,
        kerns,
    )
}

/// The program of a `tbig n kv seed` case in the encoding of `dec_program`: n kern steps in one fall-through
/// chain (the last one stops), kv distinct kern values, character c < min(n, 3) enters at word c (few entry
/// points keep the evaluation of the rules, model side and code side, linear in n).
fn tbig_program(a: &[i64]) -> Vec<i64> {
    let n = a.first().copied().unwrap_or(1).clamp(1, 32_000) as usize;
    let kv = a.get(1).copied().unwrap_or(1).clamp(1, 1000) as u64;
    let mut r = Rng::new(a.get(2).copied().unwrap_or(0) as u64 ^ 0xb16);
    let mut w: Vec<i64> = vec![-1, -1, n as i64];
    for i in 0..n {
        let k = 1000 + 7919 * r.below(kv) as i64;
        w.extend([if i + 1 == n { -1 } else { 0 }, (i % 251) as i64, 0, k, 0]);
    }
    let m = n.min(3);
    w.push(m as i64);
    for c in 0..m {
        w.extend([c as i64, c as i64]);
    }
    w.push(0);
    w
}

/// A printed LIGTABLE element as the driver's `items` reply writes it (comments are skipped).
fn enc_item(it: &tfm::pl::ast::LigTable, out: &mut Vec<i64>) {
    use tfm::pl::ast::{LigTable, LigTableLabel};
    match it {
        LigTable::Label(v) => match v.data {
            LigTableLabel::Char(c) => out.extend([0, c.0 as i64]),
            LigTableLabel::BoundaryChar => out.push(1),
        },
        LigTable::Lig(post, v) => out.extend([2, v.left.0 as i64, 2, v.right.0 as i64, post_code(*post)]),
        LigTable::Kern(v) => out.extend([2, v.left.0 as i64, 0, v.right.0 as i64, 0]),
        LigTable::Stop(_) => out.push(3),
        LigTable::Skip(v) => out.extend([4, v.data.0 as i64]),
        LigTable::Comment(_) => {}
    }
}

/// The lig/kern program of a `pl::File` with all its LABEL positions.
fn pl_program_view(plf: &tfm::pl::File) -> (Program, BTreeMap<u8, i64>) {
    let entries = plf
        .char_tags
        .iter()
        .filter_map(|(c, t)| t.ligature().map(|l| (c.0, l as i64)))
        .collect();
    (plf.lig_kern_program.clone(), entries)
}

// ------------------------------------------------------------------------------------------
// Random property lists
// ------------------------------------------------------------------------------------------

/// Shape descriptor of a generated font. Everything else derives from `seed`.
#[derive(Clone, Debug, PartialEq)]
struct Shape {
    seed: u64,
    nc: u32,   // characters
    nw: u32,   // distinct widths (≤ 255 keeps the width table lossless)
    nh: u32,   // distinct non-zero heights
    nd: u32,   // distinct non-zero depths
    ni: u32,   // distinct non-zero italic corrections
    chains: u32, // lig/kern chains
    len: u32,  // max instructions per chain
    labels: u32, // max labels per chain
    pad: u32,  // unlabelled instructions placed first (pushes entry points beyond 255)
    bc: u32,   // BOUNDARYCHAR: 0 none, 1 an existing char, 2 a char that does not exist
    lb: u32,   // LABEL BOUNDARYCHAR present
    lig: u32,  // percentage of LIG steps (the rest are kerns)
    skip: u32, // percentage of steps followed by SKIP
    nl: u32,   // NEXTLARGER links
    nv: u32,   // VARCHAR recipes
    np: u32,   // params
    ss: u32,   // > 0: CODINGSCHEME / FAMILY are generated strings (runs of 1-4 blanks, maximal length 39 / 19, punctuation, lower case); in `raw` also leading / trailing blanks
    kv: u32,   // > 0: kern values are drawn from that many distinct values only
    face: u32, // 1..=256: FACE byte face-1 stated in the property list (odd seeds: as an `F` code when below 18)
    fbyte: u32, // 1..=256: the face byte of t0 is overwritten with fbyte-1 (TFM side)
    hx: u32,   // additional header words HEADER D 18 .. D 17+hx (238 gives the maximal header, lh = 256)
    lhcut: u32, // when 2..17: the header of t0 is cut down to that many words (only a hand-edited .tfm has such a header)
    vx: u32,   // systematic VARCHAR recipes over a tiny piece alphabet: that many characters (>= 1000: enumerate all recipes)
    va: u32,   // size of the piece alphabet (2 or 3)
    odd: u32,  // oddities (32: a chain with SKIP D 126/127 over labelled steps; 64: seven-bit discipline, flag TRUE): 1 trailing LABEL without a step, 2 SKIP past the end of the table, 4 LABEL of a character that has no CHARACTER entry, 8 labelled character that also has NEXTLARGER, 16 a CHARACTER entry given twice
    hdr: u32,  // header flavour bits: 1 scheme, 2 family, 4 face, 8 sevenbit flag, 16 extra words, 32 explicit checksum, 64 math sy scheme, 128 math ex
    xc: Vec<u32>, // indices of characters removed after generation (shrinking)
    xl: Vec<u32>, // indices of LIGTABLE items removed after generation (shrinking)
}

impl Shape {
    fn fields(&self) -> Vec<(&'static str, u64)> {
        vec![
            ("seed", self.seed),
            ("nc", self.nc as u64),
            ("nw", self.nw as u64),
            ("nh", self.nh as u64),
            ("nd", self.nd as u64),
            ("ni", self.ni as u64),
            ("chains", self.chains as u64),
            ("len", self.len as u64),
            ("labels", self.labels as u64),
            ("pad", self.pad as u64),
            ("bc", self.bc as u64),
            ("lb", self.lb as u64),
            ("lig", self.lig as u64),
            ("skip", self.skip as u64),
            ("nl", self.nl as u64),
            ("nv", self.nv as u64),
            ("np", self.np as u64),
            ("hdr", self.hdr as u64),
            ("odd", self.odd as u64),
            ("vx", self.vx as u64),
            ("va", self.va as u64),
            ("ss", self.ss as u64),
            ("kv", self.kv as u64),
            ("face", self.face as u64),
            ("fbyte", self.fbyte as u64),
            ("hx", self.hx as u64),
            ("lhcut", self.lhcut as u64),
        ]
    }
    fn show(&self, cmd: &str) -> String {
        let mut s = cmd.to_string();
        for (k, v) in self.fields() {
            s.push_str(&format!(" {k}={v}"));
        }
        if !self.xc.is_empty() {
            s.push_str(&format!(" xc={}", self.xc.iter().map(|x| x.to_string()).collect::<Vec<_>>().join(",")));
        }
        if !self.xl.is_empty() {
            s.push_str(&format!(" xl={}", self.xl.iter().map(|x| x.to_string()).collect::<Vec<_>>().join(",")));
        }
        s
    }
    fn parse(rest: &str) -> Shape {
        let mut m: HashMap<&str, &str> = HashMap::new();
        for w in rest.split_ascii_whitespace() {
            let (k, v) = w.split_once('=').unwrap_or_else(|| panic!("bad shape word {w}"));
            m.insert(k, v);
        }
        let g = |k: &str| -> u64 { m.get(k).map(|v| v.parse().unwrap_or_else(|_| panic!("bad {k}"))).unwrap_or(0) };
        let l = |k: &str| -> Vec<u32> {
            m.get(k).map(|v| v.split(',').filter(|x| !x.is_empty()).map(|x| x.parse().unwrap()).collect()).unwrap_or_default()
        };
        Shape {
            seed: g("seed"),
            nc: g("nc") as u32,
            nw: g("nw") as u32,
            nh: g("nh") as u32,
            nd: g("nd") as u32,
            ni: g("ni") as u32,
            chains: g("chains") as u32,
            len: g("len") as u32,
            labels: g("labels") as u32,
            pad: g("pad") as u32,
            bc: g("bc") as u32,
            lb: g("lb") as u32,
            lig: g("lig") as u32,
            skip: g("skip") as u32,
            nl: g("nl") as u32,
            nv: g("nv") as u32,
            np: g("np") as u32,
            hdr: g("hdr") as u32,
            odd: g("odd") as u32,
            vx: g("vx") as u32,
            va: g("va") as u32,
            ss: g("ss") as u32,
            kv: g("kv") as u32,
            face: g("face") as u32,
            fbyte: g("fbyte") as u32,
            hx: g("hx") as u32,
            lhcut: g("lhcut") as u32,
            xc: l("xc"),
            xl: l("xl"),
        }
    }
    fn random(r: &mut Rng, big: bool) -> Shape {
        let nc = match r.below(10) {
            0 => 0,
            1 => 1,
            2 => 256,
            3 => 200 + r.below(57) as u32,
            _ => 1 + r.below(40) as u32,
        };
        let small = |r: &mut Rng, lim: u32| -> u32 {
            match r.below(8) {
                0 => 0,
                1 => lim,
                2 => lim + 1 + r.below(4) as u32, // beyond the lossless limit (t0 is then already compressed)
                _ => r.below(lim as u64 + 1) as u32,
            }
        };
        let chains = if nc == 0 { 0 } else { *r.pick(&[0u32, 1, 2, 3, 5, 8, 20, 60, 256]) };
        let nw_lim = if r.chance(1, 10) { 300 } else { 30 };
        let nw_exact = if r.chance(1, 12) { Some(*r.pick(&[254u32, 255, 256])) } else { None };
        let len_lim = if r.chance(1, 6) { 12 } else { 4 };
        let pad = if big { *r.pick(&[0u32, 0, 1, 100, 200, 250, 254, 255, 256, 257, 300, 600]) } else { *r.pick(&[0u32, 0, 0, 1, 3]) };
        Shape {
            seed: r.next_u64() >> 16,
            nc,
            nw: nw_exact.unwrap_or(1 + r.below(nw_lim) as u32),
            nh: small(r, 15),
            nd: small(r, 15),
            ni: small(r, 63),
            chains,
            len: 1 + r.below(len_lim) as u32,
            labels: 1 + r.below(3) as u32,
            pad,
            bc: *r.pick(&[0u32, 0, 1, 1, 2]),
            lb: r.below(2) as u32,
            lig: *r.pick(&[0u32, 10, 30, 60]),
            skip: *r.pick(&[0u32, 0, 10, 30]),
            nl: *r.pick(&[0u32, 0, 1, 3, 10]),
            nv: *r.pick(&[0u32, 0, 1, 2, 5, 255, 256]),
            np: *r.pick(&[0u32, 0, 1, 7, 8, 13, 22, 30, 253, 254]),
            hdr: r.below(256) as u32,
            odd: if r.chance(1, 4) { 1 << r.below(7) } else { 0 },
            vx: *r.pick(&[0u32, 0, 0, 2, 3, 6, 12, 40]),
            va: 2 + r.below(2) as u32,
            ss: if r.chance(1, 3) { 1 + r.below(1000) as u32 } else { 0 },
            kv: *r.pick(&[0u32, 0, 0, 1, 2, 5]),
            face: if r.chance(1, 4) { 1 + r.below(256) as u32 } else { 0 },
            fbyte: if r.chance(1, 4) { 1 + r.below(256) as u32 } else { 0 },
            hx: *r.pick(&[0u32, 0, 0, 0, 0, 0, 1, 2, 100, 235, 236, 237, 238]),
            lhcut: *r.pick(&[0u32, 0, 0, 0, 0, 0, 0, 0, 0, 2, 3, 11, 12, 16, 17]),
            xc: vec![],
            xl: vec![],
        }
    }
}

#[derive(Clone, Debug)]
enum LItem {
    Label(u8),
    LabelBoundary,
    Lig(u8, u8, u8), // post code, right, insert
    Krn(u8, i32),
    Stop,
    Skip(u8),
}

#[derive(Clone, Debug)]
enum GTag {
    None,
    Next(u8),
    Var(Option<u8>, Option<u8>, Option<u8>, u8),
}

#[derive(Clone, Debug)]
struct GChar {
    code: u8,
    wd: i32,
    ht: i32,
    dp: i32,
    ic: i32,
    tag: GTag,
}

#[derive(Clone, Debug)]
enum HNum {
    /// FACE byte; `true`: written as `F MRR`-style code when the byte is below 18
    Face(u8, bool),
    /// HEADER D index value; `true`: hexadecimal
    Header(u8, u32, bool),
    Checksum(u32, bool),
}

#[derive(Clone, Debug, Default)]
struct GFont {
    /// generated header strings (CODINGSCHEME, FAMILY) when the shape asks for them; they replace
    /// the `head` lines of the same keyword
    strs: Option<(String, String)>,
    /// seed for the written forms of numbers (0: the forms tftopl prints)
    form_seed: u64,
    nums: Vec<HNum>,
    head: Vec<String>,
    params: Vec<i32>,
    boundary: Option<u8>,
    lig: Vec<LItem>,
    chars: Vec<GChar>,
}

const LIG_NAMES: [&str; 8] = ["/LIG/", "/LIG/>", "/LIG/>>", "LIG/", "LIG/>", "/LIG", "/LIG>", "LIG"];

fn fw(x: i32) -> String {
    let f = next_form();
    if f == 0 {
        return format!("R {}", FixWord(x));
    }
    // PLtoTF.2014.63: any run of `+`, `-` (and blanks) may precede the digits; each `-` flips the sign
    let mag = FixWord(x.unsigned_abs().min(i32::MAX as u32) as i32);
    let sign = match (x < 0, (f / 2) % 4) {
        (false, 0) | (false, 1) => "",
        (false, 2) => "+",
        (false, _) => "--",
        (true, 0) | (true, 1) => "-",
        (true, 2) => "+-",
        (true, _) => "---",
    };
    format!("{} {sign}{mag}", if f % 2 == 0 { "R" } else { "D" })
}

/// A pool of `n` distinct non-zero fix_words with |x| < 16, some negative, some adjacent.
fn value_pool(r: &mut Rng, n: u32, allow_zero: bool) -> Vec<i32> {
    let mut s: BTreeSet<i32> = BTreeSet::new();
    if allow_zero && n > 0 && r.chance(1, 3) {
        s.insert(0);
    }
    let mut guard = 0;
    while (s.len() as u32) < n && guard < 100_000 {
        guard += 1;
        let v: i32 = match r.below(8) {
            0 => r.range(-5, 5) as i32,                                // tiny raw values, adjacent
            1 => (r.range(-15, 15) as i32) << 20,                      // integers
            2 => *r.pick(&[(16 << 20) - 1, -(16 << 20), 1, -1, 1 << 19]), // extremes
            3 => -(r.below(1 << 22) as i32),
            _ => r.below(3 << 20) as i32,
        };
        if v == 0 && !allow_zero {
            continue;
        }
        s.insert(v);
    }
    s.into_iter().collect()
}

fn gen_font(sh: &Shape) -> GFont {
    let mut r = Rng::new(sh.seed);
    let mut f = GFont::default();
    FORM.with(|x| x.set(0));
    // even seeds write every number the way tftopl does, odd seeds mix O/D/H/C and R/D forms
    f.form_seed = if sh.seed % 2 == 1 { (sh.seed ^ 0xf0f0_1234) | 1 } else { 0 };
    // --- characters
    let nc = sh.nc.min(256) as usize;
    let mut codes: Vec<u8> = if nc == 256 {
        (0..=255).collect()
    } else {
        let mut s: BTreeSet<u8> = BTreeSet::new();
        let dense = r.chance(1, 2);
        let base = r.below(200) as u8;
        while s.len() < nc {
            if dense && nc < 50 {
                s.insert(base.wrapping_add(s.len() as u8));
            } else {
                s.insert(r.below(256) as u8);
            }
        }
        s.into_iter().collect()
    };
    codes.sort();
    let wpool = value_pool(&mut r, sh.nw.max(1), true);
    let hpool = value_pool(&mut r, sh.nh, false);
    let dpool = value_pool(&mut r, sh.nd, false);
    let ipool = value_pool(&mut r, sh.ni, false);
    let pick0 = |r: &mut Rng, pool: &Vec<i32>, i: usize| -> i32 {
        if pool.is_empty() {
            0
        } else if i < pool.len() {
            pool[i] // make sure every pool value is used when there are enough characters
        } else if r.chance(1, 4) {
            0
        } else {
            *r.pick(pool)
        }
    };
    for (i, &c) in codes.iter().enumerate() {
        f.chars.push(GChar {
            code: c,
            wd: if i < wpool.len() { wpool[i] } else { *r.pick(&wpool) },
            ht: pick0(&mut r, &hpool, i),
            dp: pick0(&mut r, &dpool, i),
            ic: pick0(&mut r, &ipool, i),
            tag: GTag::None,
        });
    }
    // --- boundary char
    f.boundary = match sh.bc {
        0 => None,
        1 if !codes.is_empty() => Some(*r.pick(&codes)),
        _ => Some((0..=255u8).rev().find(|c| !codes.contains(c)).unwrap_or(255)),
    };
    // --- lig table
    let mut tagged: BTreeSet<u8> = BTreeSet::new();
    if !codes.is_empty() {
        let rights: Vec<u8> = {
            let mut v = codes.clone();
            if let Some(b) = f.boundary {
                v.push(b);
                v.push(b);
            }
            v
        };
        let low: Vec<u8> = codes.iter().copied().filter(|c| *c < 128).collect();
        let high: Vec<u8> = codes.iter().copied().filter(|c| *c >= 128).collect();
        let gen_step = |r: &mut Rng, f: &mut GFont| {
            let right = *r.pick(&rights);
            if r.below(100) < sh.lig as u64 {
                let post = if r.chance(2, 3) { 7 } else { r.below(8) as u8 };
                // seven-bit discipline (odd & 64): a seven-bit right character gets a seven-bit
                // result, an eight-bit right character an eight-bit one - the font stays
                // seven-bit safe although it has steps that insert eight-bit characters
                let ins = if sh.odd & 64 != 0 {
                    let pool = if right < 128 { &low } else { &high };
                    if pool.is_empty() { right } else { *r.pick(pool) }
                } else {
                    *r.pick(&codes)
                };
                f.lig.push(LItem::Lig(post, right, ins));
            } else {
                let k = match r.below(6) {
                    0 => 0,
                    1 => r.range(-3, 3) as i32,
                    2 => *r.pick(&[(16 << 20) - 1, -(16 << 20)]),
                    _ => r.range(-(1 << 20), 1 << 20) as i32,
                };
                // few distinct kern values shared by many steps (kv > 0)
                let k = if sh.kv > 0 { 1000 + 7919 * (k.unsigned_abs() % sh.kv) as i32 } else { k };
                f.lig.push(LItem::Krn(right, k));
            }
        };
        let mut free: Vec<u8> = codes.clone();
        // shuffle
        for i in (1..free.len()).rev() {
            let j = r.below(i as u64 + 1) as usize;
            free.swap(i, j);
        }
        // The leading run of `pad` steps: labelled by one character for even seeds (a long
        // reachable chain, so that the entry points behind it still need redirect words after
        // the first trip), unlabelled otherwise (tftopl drops it as unreachable).
        if sh.pad > 0 && sh.seed % 2 == 0 {
            if let Some(c) = free.pop() {
                f.lig.push(LItem::Label(c));
                tagged.insert(c);
            }
        }
        if sh.odd & 32 != 0 && free.len() >= 2 {
            // SKIP at the format's limit: (LABEL a) step (SKIP D 126|127) (LABEL b) 126|127 steps, step, STOP
            let k = 126 + (sh.seed % 2) as u8;
            let mut sr = Rng::new(sh.seed ^ 0x5c19);
            let a = free.pop().unwrap();
            let b = free.pop().unwrap();
            tagged.insert(a);
            tagged.insert(b);
            f.lig.push(LItem::Label(a));
            f.lig.push(LItem::Krn(codes[0], 4321));
            f.lig.push(LItem::Skip(k));
            f.lig.push(LItem::Label(b));
            for j in 0..k as usize {
                f.lig.push(LItem::Krn(codes[(j + 1) % codes.len()], sr.range(-100000, 100000) as i32));
            }
            f.lig.push(LItem::Krn(codes[codes.len() - 1], 77777));
            f.lig.push(LItem::Stop);
        }
        for _ in 0..sh.pad {
            gen_step(&mut r, &mut f);
        }
        if sh.pad > 0 {
            f.lig.push(LItem::Stop);
        }
        let lb_at = if sh.lb > 0 && sh.chains > 0 { Some(r.below(sh.chains as u64) as u32) } else { None };
        for ch in 0..sh.chains {
            let nlab = 1 + r.below(sh.labels.max(1) as u64) as usize;
            let mut any = false;
            if lb_at == Some(ch) {
                f.lig.push(LItem::LabelBoundary);
                any = true;
            }
            for _ in 0..nlab {
                if let Some(c) = free.pop() {
                    f.lig.push(LItem::Label(c));
                    tagged.insert(c);
                    any = true;
                }
            }
            if !any {
                break;
            }
            let n = 1 + r.below(sh.len.max(1) as u64) as usize;
            for k in 0..n {
                // a label in the middle of a chain: several entry points into one chain
                if k > 0 && r.chance(1, 8) {
                    if let Some(c) = free.pop() {
                        f.lig.push(LItem::Label(c));
                        tagged.insert(c);
                    }
                }
                gen_step(&mut r, &mut f);
                if k + 1 < n && r.below(100) < sh.skip as u64 {
                    let room = (n - 1 - k - 1) as u64; // steps after the next one, inside this chain
                    f.lig.push(LItem::Skip(r.below(room + 1) as u8));
                }
            }
            f.lig.push(LItem::Stop);
        }
    }
    if sh.odd & 1 != 0 {
        if let Some(c) = codes.iter().find(|c| !tagged.contains(c)) {
            f.lig.push(LItem::Label(*c));
            tagged.insert(*c);
        }
    }
    if sh.odd & 2 != 0 && !f.lig.is_empty() {
        // replace the final STOP by a SKIP that leaves the table
        if matches!(f.lig.last(), Some(LItem::Stop)) {
            f.lig.pop();
            f.lig.push(LItem::Skip(1 + (sh.seed % 3) as u8));
        }
    }
    if sh.odd & 4 != 0 && !f.lig.is_empty() {
        if let Some(c) = (0..=255u8).find(|c| !codes.contains(c)) {
            f.lig.insert(0, LItem::Label(c));
        }
    }
    // --- NEXTLARGER chains (ascending codes: no cycles) and VARCHAR recipes
    let untagged: Vec<usize> = (0..f.chars.len()).filter(|i| !tagged.contains(&f.chars[*i].code)).collect();
    let mut ut = untagged.clone();
    let (n_nl, n_nv) = if sh.odd & 64 != 0 { (0, 0) } else { (sh.nl, sh.nv) };
    for _ in 0..n_nl {
        if ut.len() < 1 || codes.len() < 2 {
            break;
        }
        let k = r.below(ut.len() as u64) as usize;
        let i = ut.remove(k);
        if i + 1 < f.chars.len() {
            let j = i + 1 + r.below((f.chars.len() - i - 1).min(3) as u64) as usize;
            f.chars[i].tag = GTag::Next(f.chars[j].code);
        }
    }
    for _ in 0..n_nv {
        if ut.is_empty() {
            break;
        }
        let k = r.below(ut.len() as u64) as usize;
        let i = ut.remove(k);
        let piece = |r: &mut Rng| -> Option<u8> {
            if r.chance(1, 2) {
                // code 0 as a piece reads back as "no piece": only use non-zero codes
                let c = *r.pick(&codes);
                if c == 0 {
                    None
                } else {
                    Some(c)
                }
            } else {
                None
            }
        };
        let (t, m, b) = (piece(&mut r), piece(&mut r), piece(&mut r));
        f.chars[i].tag = GTag::Var(t, m, b, *r.pick(&codes));
    }
    // systematic VARCHAR recipes: pieces from a tiny alphabet in every slot combination, so that
    // identical recipes, equal pieces in different slots and permutations are all frequent
    if sh.vx > 0 {
        let alpha: Vec<u8> = codes.iter().copied().filter(|c| *c != 0).take(sh.va.clamp(2, 3) as usize).collect();
        if alpha.len() >= 2 {
            let a = alpha.len() as u64;
            let total = (a + 1).pow(3) * a;
            let mut vr = Rng::new(sh.seed ^ 0x7ec1);
            let slots: Vec<usize> = (0..f.chars.len()).filter(|i| matches!(f.chars[*i].tag, GTag::None) && !tagged.contains(&f.chars[*i].code)).collect();
            let n = if sh.vx >= 1000 { slots.len().min(total as usize) } else { (sh.vx as usize).min(slots.len()) };
            for (j, &i) in slots.iter().take(n).enumerate() {
                let mut x = if sh.vx >= 1000 { j as u64 } else { vr.below(total) };
                let mut piece = |x: &mut u64| -> Option<u8> {
                    let d = *x % (a + 1);
                    *x /= a + 1;
                    if d == 0 { None } else { Some(alpha[d as usize - 1]) }
                };
                let (t, m, b) = (piece(&mut x), piece(&mut x), piece(&mut x));
                let rp = alpha[(x % a) as usize];
                f.chars[i].tag = GTag::Var(t, m, b, rp);
            }
        }
    }
    if sh.odd & 8 != 0 && f.chars.len() >= 2 {
        if let Some(i) = (0..f.chars.len() - 1).find(|i| tagged.contains(&f.chars[*i].code)) {
            f.chars[i].tag = GTag::Next(f.chars[i + 1].code);
        }
    }
    if sh.odd & 16 != 0 && !f.chars.is_empty() {
        let mut c = f.chars[0].clone();
        c.wd = c.wd.wrapping_add(12345) % (8 << 20);
        c.ht = 54321;
        c.tag = GTag::None;
        f.chars.push(c);
    }
    // --- header
    let h = sh.hdr;
    if h & 2 != 0 {
        f.head.push(format!("(FAMILY {})", r.pick(&["CMR", "UNSPECIFIED", "A B", "ABCDEFGHIJKLMNOPQRS", "X", "Times-Roman", "x_y.z+1"])));
    }
    if h & 4 != 0 {
        f.nums.push(HNum::Face(*r.pick(&[0u8, 1, 17, 18, 255, 6]), false));
    }
    if h & 16 != 0 {
        let n = 1 + r.below(3);
        for i in 0..n {
            f.nums.push(HNum::Header(18 + i as u8, r.next_u64() as u32, false));
        }
    }
    // explicit number of additional header words (a separate generator: earlier seeds keep their fonts)
    if sh.hx > 0 {
        let mut hr = Rng::new(sh.seed ^ 0x4ead);
        for i in 0..sh.hx.min(238) {
            let v = if hr.chance(1, 5) { 0 } else { hr.next_u64() as u32 };
            f.nums.push(HNum::Header(18 + i as u8, v, false));
        }
    }
    let math_sy = h & 64 != 0 && h & 3 == 3;
    let math_ex = h & 128 != 0 && h & 3 == 2;
    if math_sy {
        f.head.push("(CODINGSCHEME TEX MATH SYMBOLS)".into());
    } else if math_ex {
        f.head.push("(CODINGSCHEME TEX MATH EXTENSION)".into());
    } else if h & 1 != 0 {
        f.head.push(format!(
            "(CODINGSCHEME {})",
            r.pick(&["TEX TEXT", "UNSPECIFIED", "ASCII", "ABCDEFGHIJKLMNOPQRSTUVWXYZ0123456789ABC", "tex math italic", "Adobe-Standard 8r", "a-b_c"])
        ));
    }
    f.head.push(format!("(DESIGNSIZE {})", fw(*r.pick(&[10 << 20, 1 << 20, (5 << 20) + 12345, 2047 << 20, (10 << 20) + 1]))));
    if h & 32 != 0 {
        f.nums.push(HNum::Checksum(r.next_u64() as u32, false));
    }
    if (h & 8 != 0 && h & 4 != 0) || (sh.odd & 64 != 0 && sh.vx == 0) {
        f.head.push("(SEVENBITSAFEFLAG TRUE)".into());
    }
    // header strings with every shape the fields allow (a separate generator)
    if sh.ss > 0 {
        let mut sr = Rng::new(sh.seed ^ ((sh.ss as u64) << 20) ^ 0x57a1);
        let mut mk = |max: usize| -> String {
            let target = match sr.below(6) {
                0 => max,
                1 => max - 1,
                2 => 1 + sr.below(3) as usize,
                _ => 1 + sr.below(max as u64) as usize,
            };
            const PUNCT: &[u8] = b"-_.+*/:;,!?'\"@#$%&<>=[]{}|~^`";
            let mut v: Vec<u8> = vec![];
            while v.len() < target {
                match sr.below(20) {
                    0..=9 => v.push(b'A' + sr.below(26) as u8),
                    10..=12 => v.push(b'a' + sr.below(26) as u8),
                    13 | 14 => v.push(b'0' + sr.below(10) as u8),
                    15 | 16 => v.push(*sr.pick(PUNCT)),
                    _ => {
                        for _ in 0..1 + sr.below(4) {
                            v.push(b' ');
                        }
                    }
                }
            }
            v.truncate(target);
            String::from_utf8(v).unwrap()
        };
        let (a, b) = (mk(39), mk(19));
        f.strs = Some((a, b));
    }
    // FACE byte requested by the shape (all 256 values are swept by built-in cases)
    if sh.face > 0 {
        f.nums.retain(|n| !matches!(n, HNum::Face(..)));
        f.nums.push(HNum::Face((sh.face - 1) as u8, sh.seed % 2 == 1));
    }
    // 32-bit numbers at the extremes of u32 and in both radices (a separate generator)
    {
        let mut er = Rng::new(sh.seed ^ 0xe47e);
        const X: &[u32] = &[
            0, 1, 7, 8, 0x0FFF_FFFF, 0x1000_0000, 0x1FFF_FFFF, 0x2000_0000, 0x7FFF_FFFF, 0x8000_0000, 0xFFFF_FFEF,
            0xFFFF_FFF0, 0xFFFF_FFF1, 0xFFFF_FFF7, 0xFFFF_FFF8, 0xFFFF_FFF9, 0xFFFF_FFFA, 0xFFFF_FFFB, 0xFFFF_FFFC,
            0xFFFF_FFFD, 0xFFFF_FFFE, 0xFFFF_FFFF,
        ];
        if sh.hdr & 32 == 0 && sh.hdr != 0 && er.chance(1, 3) {
            f.nums.push(HNum::Checksum(0, false));
        }
        for n in f.nums.iter_mut() {
            match n {
                HNum::Header(_, v, hex) | HNum::Checksum(v, hex) => {
                    if er.chance(1, 2) {
                        *v = *er.pick(X);
                    }
                    *hex = er.chance(1, 2);
                }
                HNum::Face(..) => {}
            }
        }
    }
    let np = if math_sy && r.chance(9, 10) {
        22
    } else if math_ex && r.chance(9, 10) {
        13
    } else {
        sh.np
    };
    for i in 0..np {
        let v = if i == 0 {
            *r.pick(&[0, 1 << 18, -(1 << 18), 100 << 20, -(100 << 20)])
        } else {
            match r.below(4) {
                0 => 0,
                1 => *r.pick(&[(16 << 20) - 1, -(16 << 20)]),
                _ => r.range(-(1 << 21), 1 << 21) as i32,
            }
        };
        f.params.push(v);
    }
    // --- removals requested by the shrinker
    let mut xc = sh.xc.clone();
    xc.sort();
    xc.dedup();
    for i in xc.into_iter().rev() {
        if (i as usize) < f.chars.len() {
            f.chars.remove(i as usize);
        }
    }
    let mut xl = sh.xl.clone();
    xl.sort();
    xl.dedup();
    for i in xl.into_iter().rev() {
        if (i as usize) < f.lig.len() {
            f.lig.remove(i as usize);
        }
    }
    f
}

thread_local! {
    /// State of the generator that picks the written form of each number in a generated property
    /// list (0 = always octal characters / `R` reals, the form tftopl itself prints).
    static FORM: std::cell::Cell<u64> = const { std::cell::Cell::new(0) };
}

fn next_form() -> u64 {
    FORM.with(|f| {
        let x = f.get();
        if x == 0 {
            return 0;
        }
        let mut r = Rng(x);
        let v = r.next_u64();
        f.set(r.0 | 1);
        1 + v % 1000
    })
}

/// A character code in one of the forms a property list allows: `O`, `D`, `H`, `C`.
fn oc(c: u8) -> String {
    match next_form() {
        0 => format!("O {:o}", c),
        x => match x % 4 {
            0 => format!("O {:o}", c),
            1 => format!("D {}", c),
            2 => format!("H {:X}", c),
            _ if c.is_ascii_graphic() && c != b'(' && c != b')' => format!("C {}", c as char),
            _ => format!("O {:o}", c),
        },
    }
}

/// The generated header strings as a property list can state them: blanks at either end belong to
/// the syntax, not to the string (an all-blank string is replaced by `X`).
fn pl_strings(f: &GFont) -> Option<(String, String)> {
    f.strs.as_ref().map(|(a, b)| {
        let t = |x: &String| {
            let y = x.trim_matches(' ').to_string();
            if y.is_empty() { "X".to_string() } else { y }
        };
        (t(a), t(b))
    })
}

fn face_code(b: u8) -> String {
    let w = ["M", "B", "L"][((b % 6) / 2) as usize];
    let sl = ["R", "I"][(b % 2) as usize];
    let e = ["R", "C", "E"][(b / 6) as usize];
    format!("{w}{sl}{e}")
}

fn font_to_pl(f: &GFont) -> String {
    font_to_pl_opt(f, true)
}

/// `numbers = false`: FACE / HEADER / CHECKSUM are left out (the caller sets them on the `tfm::File`).
fn font_to_pl_opt(f: &GFont, numbers: bool) -> String {
    FORM.with(|x| x.set(f.form_seed));
    let mut s = String::new();
    for h in &f.head {
        if f.strs.is_some() && (h.starts_with("(FAMILY") || h.starts_with("(CODINGSCHEME")) {
            continue;
        }
        s.push_str(h);
        s.push('\n');
    }
    if let Some((scheme, family)) = pl_strings(f) {
        s.push_str(&format!("(CODINGSCHEME {scheme})\n(FAMILY {family})\n"));
    }
    if numbers {
        for n in &f.nums {
            match n {
                HNum::Face(b, code) if *code && *b < 18 => s.push_str(&format!("(FACE F {})\n", face_code(*b))),
                HNum::Face(b, _) => s.push_str(&format!("(FACE O {:o})\n", b)),
                HNum::Header(i, v, false) => s.push_str(&format!("(HEADER D {i} O {:o})\n", v)),
                HNum::Header(i, v, true) => s.push_str(&format!("(HEADER D {i} H {:X})\n", v)),
                HNum::Checksum(v, false) => s.push_str(&format!("(CHECKSUM O {:o})\n", v)),
                HNum::Checksum(v, true) => s.push_str(&format!("(CHECKSUM H {:X})\n", v)),
            }
        }
    }
    if !f.params.is_empty() {
        s.push_str("(FONTDIMEN\n");
        for (i, p) in f.params.iter().enumerate() {
            s.push_str(&format!("   (PARAMETER D {} {})\n", i + 1, fw(*p)));
        }
        s.push_str("   )\n");
    }
    if let Some(b) = f.boundary {
        s.push_str(&format!("(BOUNDARYCHAR {})\n", oc(b)));
    }
    if !f.lig.is_empty() {
        s.push_str("(LIGTABLE\n");
        for it in &f.lig {
            match it {
                LItem::Label(c) => s.push_str(&format!("   (LABEL {})\n", oc(*c))),
                LItem::LabelBoundary => s.push_str("   (LABEL BOUNDARYCHAR)\n"),
                LItem::Lig(p, r, i) => s.push_str(&format!("   ({} {} {})\n", LIG_NAMES[*p as usize], oc(*r), oc(*i))),
                LItem::Krn(r, k) => s.push_str(&format!("   (KRN {} {})\n", oc(*r), fw(*k))),
                LItem::Stop => s.push_str("   (STOP)\n"),
                LItem::Skip(n) => s.push_str(&format!("   (SKIP D {})\n", n)),
            }
        }
        s.push_str("   )\n");
    }
    for c in &f.chars {
        s.push_str(&format!("(CHARACTER {}\n   (CHARWD {})\n", oc(c.code), fw(c.wd)));
        if c.ht != 0 {
            s.push_str(&format!("   (CHARHT {})\n", fw(c.ht)));
        }
        if c.dp != 0 {
            s.push_str(&format!("   (CHARDP {})\n", fw(c.dp)));
        }
        if c.ic != 0 {
            s.push_str(&format!("   (CHARIC {})\n", fw(c.ic)));
        }
        match &c.tag {
            GTag::None => {}
            GTag::Next(n) => s.push_str(&format!("   (NEXTLARGER {})\n", oc(*n))),
            GTag::Var(t, m, b, rp) => {
                s.push_str("   (VARCHAR\n");
                if let Some(t) = t {
                    s.push_str(&format!("      (TOP {})\n", oc(*t)));
                }
                if let Some(m) = m {
                    s.push_str(&format!("      (MID {})\n", oc(*m)));
                }
                if let Some(b) = b {
                    s.push_str(&format!("      (BOT {})\n", oc(*b)));
                }
                s.push_str(&format!("      (REP {})\n      )\n", oc(*rp)));
            }
        }
        s.push_str("   )\n");
    }
    s
}

/// Lay a `tfm::File` out non-canonically without changing the font it describes.
fn perturb_layout(file: &mut tfm::File, seed: u64) {
    let mut r = Rng::new(seed ^ 0x5bd1e995);
    // permute the non-zero part of a dimension table, optionally with duplicates appended
    fn permute(r: &mut Rng, table: &mut Vec<FixWord>, limit: usize) -> Vec<u8> {
        let n = table.len();
        let mut perm: Vec<usize> = (1..n).collect();
        for i in (1..perm.len()).rev() {
            let j = r.below(i as u64 + 1) as usize;
            perm.swap(i, j);
        }
        let mut new_t = vec![table[0]];
        let mut map = vec![0u8; n];
        for old in perm {
            map[old] = new_t.len() as u8;
            new_t.push(table[old]);
        }
        // duplicates / unused entries at the end while there is room
        while new_t.len() < limit && new_t.len() > 1 && r.chance(1, 3) {
            let v = new_t[1 + r.below(new_t.len() as u64 - 1) as usize];
            new_t.push(v);
        }
        *table = new_t;
        map
    }
    let wm = permute(&mut r, &mut file.widths, 256);
    let hm = permute(&mut r, &mut file.heights, 16);
    let dm = permute(&mut r, &mut file.depths, 16);
    let im = permute(&mut r, &mut file.italic_corrections, 64);
    for d in file.char_dimens.values_mut() {
        if let tfm::WidthIndex::Valid(n) = d.width_index {
            d.width_index = tfm::WidthIndex::Valid(std::num::NonZeroU8::new(wm[n.get() as usize]).unwrap());
        }
        d.height_index = hm[d.height_index as usize];
        d.depth_index = dm[d.depth_index as usize];
        d.italic_index = im[d.italic_index as usize];
    }
    // shuffle kerns (+ a duplicate) and remap
    let n = file.kerns.len();
    if n > 0 {
        let mut perm: Vec<usize> = (0..n).collect();
        for i in (1..n).rev() {
            let j = r.below(i as u64 + 1) as usize;
            perm.swap(i, j);
        }
        let mut map = vec![0u16; n];
        let mut nk = vec![];
        for old in perm {
            map[old] = nk.len() as u16;
            nk.push(file.kerns[old]);
        }
        if r.chance(1, 2) {
            nk.push(nk[0]);
        }
        file.kerns = nk;
        for i in file.lig_kern_program.instructions.iter_mut() {
            if let Operation::KernAtIndex(k) = i.operation {
                i.operation = Operation::KernAtIndex(map[k as usize]);
            }
        }
    }
}

// ------------------------------------------------------------------------------------------
// An independent, byte-level view of a .tfm (no code of /repo involved): the sub-files are
// located through the twelve size words; lig/kern words stay raw 4-byte words for Lean.
// ------------------------------------------------------------------------------------------

struct RawView {
    /// `<n> words <m> (char remainder) <k> kerns` as the driver's `<raw>`
    raw: Vec<i64>,
    /// the same with the lig remainders of *all* characters that carry a lig tag (existing or not)
    raw_all: Vec<i64>,
    /// NEXTLARGER of the existing characters, `(char, next)`
    lists: Vec<(u8, u8)>,
    /// extensible recipes of the existing characters, `(char, [top, mid, bot, rep])`
    recipes: Vec<(u8, [u8; 4])>,
    /// header byte 68 (> 127 = SEVENBITSAFEFLAG TRUE), when the header has it
    flag: Option<bool>,
    max_skip: u8,
    lh: usize,
    np: usize,
    checksum: u32,
    design_size: u32,
    /// header byte 71, when lh >= 18
    face: Option<u8>,
    /// header words 18.. (when lh > 18)
    extra: Vec<u32>,
    /// per existing character: width, height, depth, italic correction (values, through the index
    /// bytes and the four tables), tag kind 0..3 and its payload (NEXTLARGER target / the four recipe bytes)
    chars: Vec<(u8, [i32; 4], u8, Vec<u8>)>,
    params: Vec<i32>,
}

/// The file of an `sz` case: the twelve size words as given (lf computed), a header with design size 10pt,
/// zeros everywhere else (no character exists, entry 0 of every table is 0, no lig/kern word is reachable).
fn sz_file(a: &[i64]) -> Option<Vec<u8>> {
    if a.len() < 11 || a.iter().any(|x| *x < 0 || *x > 40_000) {
        return None;
    }
    let a: Vec<usize> = a.iter().map(|x| *x as usize).collect();
    let (lh, bc, ec) = (a[0], a[1], a[2]);
    if bc > ec + 1 {
        return None;
    }
    let lf = 6 + lh + (ec + 1 - bc) + a[3..11].iter().sum::<usize>();
    if lf >= 32768 {
        return None;
    }
    let mut t = vec![0u8; 4 * lf];
    for (i, v) in [lf].iter().chain(a[..11].iter()).enumerate() {
        t[2 * i..2 * i + 2].copy_from_slice(&(*v as u16).to_be_bytes());
    }
    if lh >= 2 {
        t[28..32].copy_from_slice(&(10u32 << 20).to_be_bytes());
    }
    Some(t)
}

/// TFtoPL's own acceptance test (TFtoPL.2014.20-21), transcribed from the program text: the file has the
/// length lf says, no size word has its high bit set, lh >= 2, bc <= ec + 1, ec <= 255, ne <= 256, the four
/// dimension tables are not empty, and lf is the sum of the parts. Such a file is never refused.
fn sizes_ok(t: &[u8]) -> bool {
    if t.len() < 24 {
        return false;
    }
    let w: Vec<usize> = (0..12).map(|i| u16::from_be_bytes([t[2 * i], t[2 * i + 1]]) as usize).collect();
    if w.iter().any(|x| *x >= 32768) {
        return false;
    }
    let (lf, lh, bc, ec, nw, nh, nd, ni, nl, nk, ne, np) = (w[0], w[1], w[2], w[3], w[4], w[5], w[6], w[7], w[8], w[9], w[10], w[11]);
    t.len() == 4 * lf
        && lh >= 2
        && bc <= ec + 1
        && ec <= 255
        && ne <= 256
        && nw > 0
        && nh > 0
        && nd > 0
        && ni > 0
        && lf == 6 + lh + (ec + 1 - bc) + nw + nh + nd + ni + nl + nk + ne + np
}

fn raw_view(t: &[u8]) -> Option<RawView> {
    if t.len() < 24 {
        return None;
    }
    let w = |i: usize| u16::from_be_bytes([t[2 * i], t[2 * i + 1]]) as usize;
    let (lf, lh, bc, ec, nw, nh, nd, ni, nl, nk, ne, np) = (w(0), w(1), w(2), w(3), w(4), w(5), w(6), w(7), w(8), w(9), w(10), w(11));
    let nc = if ec + 1 >= bc { ec + 1 - bc } else { 0 };
    if t.len() < 4 * lf || lf != 6 + lh + nc + nw + nh + nd + ni + nl + nk + ne + np || ec > 255 {
        return None;
    }
    let ci = 24 + 4 * lh;
    let lk = ci + 4 * (nc + nw + nh + nd + ni);
    let kb = lk + 4 * nl;
    let eb = kb + 4 * nk;
    let mut raw: Vec<i64> = vec![nl as i64];
    let mut max_skip = 0u8;
    for i in 0..nl {
        let b = &t[lk + 4 * i..lk + 4 * i + 4];
        raw.extend(b.iter().map(|x| *x as i64));
        if b[0] < 128 {
            max_skip = max_skip.max(b[0]);
        }
    }
    let mut ligs: Vec<(u8, u8)> = vec![];
    let mut ligs_all: Vec<(u8, u8)> = vec![];
    let mut lists = vec![];
    let mut recipes = vec![];
    for k in 0..nc {
        let b = &t[ci + 4 * k..ci + 4 * k + 4];
        if b[2] % 4 == 1 {
            ligs_all.push(((bc + k) as u8, b[3]));
        }
        if b[0] == 0 {
            continue; // the character does not exist
        }
        let c = (bc + k) as u8;
        match b[2] % 4 {
            1 => ligs.push((c, b[3])),
            2 => lists.push((c, b[3])),
            3 => {
                let j = b[3] as usize;
                if j < ne {
                    let r = &t[eb + 4 * j..eb + 4 * j + 4];
                    recipes.push((c, [r[0], r[1], r[2], r[3]]));
                }
            }
            _ => {}
        }
    }
    let mut raw_all = raw.clone();
    for (dst, src) in [(&mut raw, &ligs), (&mut raw_all, &ligs_all)] {
        dst.push(src.len() as i64);
        for (c, r) in src {
            dst.extend([*c as i64, *r as i64]);
        }
        dst.push(nk as i64);
        for i in 0..nk {
            let b = &t[kb + 4 * i..kb + 4 * i + 4];
            dst.push(i32::from_be_bytes([b[0], b[1], b[2], b[3]]) as i64);
        }
    }
    let fix = |base: usize, n: usize, i: usize| -> i32 {
        if i < n {
            let o = base + 4 * i;
            i32::from_be_bytes([t[o], t[o + 1], t[o + 2], t[o + 3]])
        } else {
            i32::MIN // an index beyond the table (tftopl warns)
        }
    };
    let wb = ci + 4 * nc;
    let hb = wb + 4 * nw;
    let db = hb + 4 * nh;
    let ib = db + 4 * nd;
    let pb = eb + 4 * ne;
    let mut chars = vec![];
    for k in 0..nc {
        let b = &t[ci + 4 * k..ci + 4 * k + 4];
        if b[0] == 0 {
            continue;
        }
        let dims = [
            fix(wb, nw, b[0] as usize),
            fix(hb, nh, (b[1] / 16) as usize),
            fix(db, nd, (b[1] % 16) as usize),
            fix(ib, ni, (b[2] / 4) as usize),
        ];
        let kind = b[2] % 4;
        let payload: Vec<u8> = match kind {
            2 => vec![b[3]],
            3 if (b[3] as usize) < ne => t[eb + 4 * b[3] as usize..eb + 4 * b[3] as usize + 4].to_vec(),
            _ => vec![],
        };
        chars.push(((bc + k) as u8, dims, kind, payload));
    }
    let params: Vec<i32> = (0..np).map(|i| fix(pb, np, i)).collect();
    let flag = if lh >= 18 { Some(t[24 + 68] > 127) } else { None };
    let word = |i: usize| u32::from_be_bytes([t[24 + 4 * i], t[25 + 4 * i], t[26 + 4 * i], t[27 + 4 * i]]);
    Some(RawView {
        raw,
        raw_all,
        lists,
        recipes,
        flag,
        max_skip,
        lh,
        np,
        checksum: if lh >= 1 { word(0) } else { 0 },
        design_size: if lh >= 2 { word(1) } else { 0 },
        face: if lh >= 18 { Some(t[24 + 71]) } else { None },
        extra: (18..lh).map(word).collect(),
        chars,
        params,
    })
}

/// The character layer of a .tfm as the driver's `chars` request / reply: rows of the existing
/// characters (code, four index bytes, tag kind, remainder), the four tables, the recipe words.
/// `keep_lig_rem = false` blanks the remainders of lig tags (they belong to the lig/kern layer).
fn raw_chars_layer(t: &[u8]) -> Option<Vec<i64>> {
    if t.len() < 24 {
        return None;
    }
    let w = |i: usize| u16::from_be_bytes([t[2 * i], t[2 * i + 1]]) as usize;
    let (lf, lh, bc, ec, nw, nh, nd, ni, nl, nk, ne, np) = (w(0), w(1), w(2), w(3), w(4), w(5), w(6), w(7), w(8), w(9), w(10), w(11));
    let nc = if ec + 1 >= bc { ec + 1 - bc } else { 0 };
    if t.len() < 4 * lf || lf != 6 + lh + nc + nw + nh + nd + ni + nl + nk + ne + np || ec > 255 {
        return None;
    }
    let ci = 24 + 4 * lh;
    let wb = ci + 4 * nc;
    let hb = wb + 4 * nw;
    let db = hb + 4 * nh;
    let ib = db + 4 * nd;
    let eb = ib + 4 * (ni + nl + nk);
    let mut rows: Vec<i64> = vec![];
    let mut n = 0i64;
    for k in 0..nc {
        let b = &t[ci + 4 * k..ci + 4 * k + 4];
        if b[0] == 0 {
            continue;
        }
        n += 1;
        let tag = b[2] % 4;
        rows.extend([(bc + k) as i64, b[0] as i64, (b[1] / 16) as i64, (b[1] % 16) as i64, (b[2] / 4) as i64, tag as i64, if tag == 1 { 0 } else { b[3] as i64 }]);
    }
    let mut v = vec![n];
    v.extend(rows);
    for (base, cnt) in [(wb, nw), (hb, nh), (db, nd), (ib, ni)] {
        v.push(cnt as i64);
        for i in 0..cnt {
            let o = base + 4 * i;
            v.push(i32::from_be_bytes([t[o], t[o + 1], t[o + 2], t[o + 3]]) as i64);
        }
    }
    v.push(ne as i64);
    for i in 0..ne {
        v.extend(t[eb + 4 * i..eb + 4 * i + 4].iter().map(|x| *x as i64));
    }
    Some(v)
}

/// PLtoTF's seven-bit safety of the font in `v`, decided by Lean (`safe7`).
fn lean_safe7(v: &RawView, drv: &mut Driver) -> bool {
    let mut q = v.raw.clone();
    q.push(v.lists.len() as i64);
    for (c, n) in &v.lists {
        q.extend([*c as i64, *n as i64]);
    }
    q.push(v.recipes.len() as i64);
    for (c, r) in &v.recipes {
        q.push(*c as i64);
        q.extend(r.iter().map(|x| *x as i64));
    }
    drv.ask(&format!("safe7 {}", join(&q))) == "1"
}

// ------------------------------------------------------------------------------------------
// Decoded view of a .tfm for the field-by-field comparison
// ------------------------------------------------------------------------------------------

#[derive(Debug, PartialEq, Eq, Clone)]
struct CharView {
    wd: Option<i32>,
    ht: Option<i32>,
    dp: Option<i32>,
    ic: Option<i32>,
}

#[derive(Debug, PartialEq, Eq, Clone)]
enum TagView {
    Lig,
    List(u8),
    Ext(Option<tfm::ExtensibleRecipe>),
}

struct Decoded {
    file: tfm::File,
    chars: BTreeMap<u8, CharView>,
    tags: BTreeMap<u8, TagView>,
}

fn decode(bytes: &[u8]) -> Result<Decoded, String> {
    let (f, _w) = tfm::File::deserialize(bytes);
    let file = f.map_err(|e| format!("{e:?}"))?;
    let mut chars = BTreeMap::new();
    for (c, d) in &file.char_dimens {
        chars.insert(
            c.0,
            CharView {
                wd: file.widths.get(d.width_index.get() as usize).map(|x| x.0),
                ht: file.heights.get(d.height_index as usize).map(|x| x.0),
                dp: file.depths.get(d.depth_index as usize).map(|x| x.0),
                ic: file.italic_corrections.get(d.italic_index as usize).map(|x| x.0),
            },
        );
    }
    let mut tags = BTreeMap::new();
    for (c, t) in &file.char_tags {
        tags.insert(
            c.0,
            match t {
                tfm::CharTag::Ligature(_) => TagView::Lig,
                tfm::CharTag::List(n) => TagView::List(n.0),
                tfm::CharTag::Extension(i) => TagView::Ext(file.extensible_chars.get(*i as usize).cloned()),
            },
        );
    }
    Ok(Decoded { file, chars, tags })
}

/// The program of a decoded file as the driver wants it: unpacked entry points.
fn program_view(d: &Decoded) -> (Vec<i64>, BTreeMap<u8, i64>) {
    let mut p = d.file.lig_kern_program.clone();
    let mut entries = BTreeMap::new();
    for (c, t) in &d.file.char_tags {
        if let tfm::CharTag::Ligature(l) = t {
            if let Ok(e) = p.unpack_entrypoint(*l) {
                entries.insert(c.0, e as i64);
            }
        }
    }
    (enc_program(&d.file.lig_kern_program, &entries, &d.file.kerns), entries)
}

/// The real compiled program's behaviour on one pair (and what follows at the right boundary).
fn run_pair(p: &tfm::ligkern::CompiledProgram, l: Option<Char>, r: Option<Char>) -> String {
    let mut word: Vec<char> = vec![];
    if let Some(l) = l {
        word.push(l.0 as char);
    }
    if let Some(r) = r {
        word.push(r.0 as char);
    }
    let opts = tfm::ligkern::RunOptions { disable_left_boundary: l.is_some(), right_boundary_override: None };
    let items: Vec<tfm::ligkern::RunItem> = p.run_with_options(word.into_iter(), opts).collect();
    format!("{items:?}")
}

// ------------------------------------------------------------------------------------------

struct C11 {
    /// The lig/kern sub-files of t1 (and t2) are exactly what the model of the current code predicts.
    explained: bool,
    /// A raw-word rule difference found before the defect class of the case is known.
    pending_raw: Option<String>,
    /// Suffix for failure signatures of the current case (identifies a known defect class).
    sig_suffix: String,
    corpus_tfm: Vec<String>,
    corpus_pl: Vec<String>,
    repo: String,
}

fn list_corpus(repo: &str) -> (Vec<String>, Vec<String>) {
    let root = format!("{repo}/crates/tfm/corpus");
    let mut tfm = vec![];
    let mut pl = vec![];
    let mut stack = vec![std::path::PathBuf::from(&root)];
    while let Some(d) = stack.pop() {
        let Ok(rd) = std::fs::read_dir(&d) else { continue };
        for e in rd.flatten() {
            let p = e.path();
            if p.is_dir() {
                stack.push(p);
            } else if let Some(ext) = p.extension().and_then(|e| e.to_str()) {
                let rel = p.strip_prefix(&root).unwrap().to_string_lossy().to_string();
                if !rel.is_ascii() || rel.contains(' ') {
                    continue;
                }
                match ext {
                    "tfm" => tfm.push(rel),
                    "plst" | "pl" => pl.push(rel),
                    _ => {}
                }
            }
        }
    }
    tfm.sort();
    pl.sort();
    (tfm, pl)
}

fn hex(b: &[u8]) -> String {
    b.iter().map(|x| format!("{x:02x}")).collect()
}
fn unhex(s: &str) -> Vec<u8> {
    (0..s.len() / 2).map(|i| u8::from_str_radix(&s[2 * i..2 * i + 2], 16).expect("hex")).collect()
}

fn first_diff(a: &[u8], b: &[u8]) -> String {
    if a.len() != b.len() {
        return format!("lengths {} vs {}", a.len(), b.len());
    }
    for i in 0..a.len() {
        if a[i] != b[i] {
            return format!("byte {i}: {} vs {}", a[i], b[i]);
        }
    }
    "same".into()
}

/// Which sub-file a byte offset of a .tfm lies in (for failure signatures).
fn section_of(bytes: &[u8], off: usize) -> &'static str {
    if bytes.len() < 24 || off < 24 {
        return "sizes";
    }
    let w = |i: usize| u16::from_be_bytes([bytes[2 * i], bytes[2 * i + 1]]) as usize;
    let (lh, bc, ec, nw, nh, nd, ni, nl, nk, ne) = (w(1), w(2), w(3), w(4), w(5), w(6), w(7), w(8), w(9), w(10));
    let nc = if ec + 1 >= bc { ec + 1 - bc } else { 0 };
    let mut pos = 24;
    for (name, n) in [
        ("header", lh),
        ("char_info", nc),
        ("widths", nw),
        ("heights", nh),
        ("depths", nd),
        ("italics", ni),
        ("lig_kern", nl),
        ("kerns", nk),
        ("exten", ne),
    ] {
        pos += 4 * n;
        if off < pos {
            return name;
        }
    }
    "params"
}

impl C11 {
    fn read_corpus(&self, rel: &str) -> Vec<u8> {
        std::fs::read(format!("{}/crates/tfm/corpus/{rel}", self.repo)).unwrap_or_else(|e| panic!("cannot read corpus file {rel}: {e}"))
    }

    /// The round-trip streams on a starting file t0. `t0_src` is for tags only.
    fn round_trip(&mut self, t0: &[u8], drv: &mut Driver, out: &mut CaseOutcome) {
        // ---- first trip (decides membership in the quantifier)
        let (pl0, m0) = match caught(|| real_tftopl(t0)) {
            Err(p) => {
                out.tag("t0:tftopl-panics");
                // a reader panic on arbitrary bytes is C10's subject; on a file that pltotf itself
                // wrote it is a failure of the round trip.
                out.fail(Kind::ImplPanic, "trip1", format!("panic {}", strip_msg(&p)), format!("tfm_to_pl(t0) panicked: {p}"));
                return;
            }
            Ok(Err(e)) => {
                // S (TFtoPL.2014.20-21, no /repo code): a file whose twelve size words are consistent is loaded;
                // everything TFtoPL objects to after that is a message, not a refusal. pltotf's own output and
                // the files the harness lays out (exactly 256 recipes, 256 widths, lh = 2 ...) are such files.
                if sizes_ok(t0) {
                    let kind: String = e.chars().take_while(|c| c.is_ascii_alphanumeric()).collect();
                    out.tag("t0:rejected-although-size-words-consistent");
                    out.fail(
                        Kind::ImplVsSpec,
                        "trip1",
                        format!("tfm_to_pl refuses a .tfm whose size words are consistent: {kind}"),
                        format!("error: {e}\nsize words: {:?}", (0..12).map(|i| u16::from_be_bytes([t0[2 * i], t0[2 * i + 1]])).collect::<Vec<_>>()),
                    );
                } else {
                    out.tag("t0:unreadable");
                }
                return;
            }
            Ok(Ok(x)) => x,
        };
        if sizes_ok(t0) {
            out.tag("t0:size-words-consistent");
        }
        if !m0.is_empty() {
            let first = m0[0].lines().find(|l| !l.trim().is_empty()).unwrap_or("").to_string();
            let sig: String = first.chars().filter(|c| !c.is_ascii_digit() && *c != '\'').take(60).collect();
            out.tag(format!("t0:tftopl-warns (outside quantifier): {}", sig.trim()));
            return;
        }
        let mut class_tags: Vec<&'static str> = vec![];
        self.sig_suffix = String::new();
        self.explained = false;
        let (t1, w1) = match caught(|| real_pltotf(&pl0)) {
            Err(p) => {
                out.fail(Kind::ImplPanic, "trip1", format!("panic {}", strip_msg(&p)), format!("pl_to_tfm(tfm_to_pl(t0)) panicked: {p}\nt0 = {}", hex(t0)));
                return;
            }
            Ok(x) => x,
        };
        // The model of the current code predicts the lig/kern sub-file of t1 from the raw bytes of t0
        // (decodeRaw, packKerns, unpackAll, printParse, unpackKerns, pack, encodeWord - no /repo code).
        // It also tells whether t0 has the shape of a known finding: C11-f (a reachable word is a
        // redirect word) or C11-b (a label without a step after the trip). A failure of such a case is
        // attributed to the known finding only if the prediction is exact for t0 -> t1 and t1 -> t2:
        // then the recorded deviation is the only one.
        let rv0 = raw_view(t0);
        let rv1_pred = raw_view(&t1);
        let mut explained01 = false;
        if let (Some(v0), Some(v1)) = (&rv0, &rv1_pred) {
            let reply = drv.ask(&format!("predict {}", join(&v0.raw_all)));
            if let Some((flags, pred)) = reply.split_once(" | ") {
                if flags.contains("dl=1") {
                    class_tags.push("t0:label-without-steps");
                    self.sig_suffix = " [label without steps]".into();
                }
                if flags.contains("rr=1") {
                    class_tags.push("t0:reachable-redirect-word");
                    self.sig_suffix.push_str(" [reachable redirect word]");
                }
                explained01 = pred.trim() == join(&v1.raw_all);
                if w1.is_empty() || w1.iter().all(|w| w == "NotReallySevenBitSafe") {
                    if explained01 {
                        class_tags.push("predict:t1-lig/kern-sub-file-as-predicted");
                    } else if self.sig_suffix.is_empty() {
                        out.fail(
                            Kind::ImplVsModel,
                            "predict",
                            "lig/kern sub-file of t1 differs from the model's prediction",
                            format!("model: {}\nimpl:  {}", trunc_s(pred, 1200), trunc_s(&join(&v1.raw_all), 1200)),
                        );
                    }
                }
            }
        }
        self.explained = explained01;
        // Seven-bit safety (S by Lean on the raw bytes of t0): pltotf must raise
        // NotReallySevenBitSafe on tftopl's output exactly when t0 carries the flag and the font
        // is not safe by PLtoTF's definition.
        let safe0 = rv0.as_ref().map(|v| lean_safe7(v, drv));
        let warned7 = w1.iter().any(|w| w == "NotReallySevenBitSafe");
        if let (Some(v), Some(safe)) = (&rv0, safe0) {
            let flagged = v.flag == Some(true);
            out.tag(format!("seven-bit: flag={} safe={}", flagged as u8, safe as u8));
            if warned7 && !(flagged && !safe) {
                out.fail(
                    Kind::ImplVsSpec,
                    "seven-bit",
                    "NotReallySevenBitSafe raised although the font is seven-bit safe (or not flagged)",
                    format!("flag in t0: {flagged}, safe7 (Lean): {safe}; warnings: {w1:?}"),
                );
                return;
            }
            if !warned7 && flagged && !safe {
                out.fail(
                    Kind::ImplVsSpec,
                    "seven-bit",
                    "a flagged font that is not seven-bit safe converts without NotReallySevenBitSafe",
                    format!("flag in t0: {flagged}, safe7 (Lean): {safe}"),
                );
            }
        }
        // pltotf must read tftopl's warning-free output back silently, except for the two things a
        // property list cannot carry: more than 254 parameters, and a seven-bit-safe flag on a font
        // that is not seven-bit safe (checked against Lean's safe7 above).
        {
            let np_too_big = rv0.as_ref().map(|v| v.np > 254).unwrap_or(false);
            let unexpected: Vec<&String> = w1
                .iter()
                .filter(|w| !(*w == "NotReallySevenBitSafe" || (np_too_big && matches!(w.as_str(), "ParameterNumberIsTooBig" | "SmallIntegerIsTooBig" | "ParameterNumberIsZero"))))
                .collect();
            if let Some(k) = unexpected.first() {
                out.fail(
                    Kind::ImplVsSpec,
                    "trip1",
                    format!("pltotf warns on tftopl's warning-free output: {k}"),
                    format!("warnings: {:?}", &w1[..w1.len().min(8)]),
                );
                return;
            }
        }
        if !w1.is_empty() {
            // "converts without warnings" covers both halves of the first conversion: a file
            // whose tftopl output pltotf does not read back silently (more than 254 parameters,
            // a seven-bit-safe flag that is set on a font that is not) is outside the quantifier.
            out.tag(format!("t0:pltotf-warns-on-tftopl-output ({}) (outside quantifier)", w1[0]));
            return;
        }
        out.tag("t0:in-quantifier");
        out.nontrivial = true;
        for t in class_tags {
            out.tag(t);
        }
        let rv1 = raw_view(&t1);
        if let (Some(safe), Some(v1)) = (safe0, &rv1) {
            if v1.flag != Some(safe) {
                out.fail(
                    Kind::ImplVsSpec,
                    "seven-bit",
                    "seven-bit-safe flag of t1 is not the safety of the font",
                    format!("safe7 (Lean, on t0): {safe}; flag byte of t1 set: {:?}", v1.flag),
                );
            }
        }
        // The header of t1 is what the model (`headerTrip`, Model/C11Header.lean) makes of the header bytes
        // of t0 and the seven-bit safety Lean computed from the raw bytes (I vs M, byte for byte).
        if let Some(safe) = safe0 {
            let hdr = |t: &[u8]| -> Option<Vec<u8>> {
                if t.len() < 24 {
                    return None;
                }
                let lh = u16::from_be_bytes([t[2], t[3]]) as usize;
                t.get(24..24 + 4 * lh).map(|x| x.to_vec())
            };
            if let (Some(mut h0), Some(h1)) = (hdr(t0), hdr(&t1)) {
                if h0.len() > 1024 {
                    // known finding C11-h: a property list has no way to state header words 256.. ; the model's
                    // quantifier is lh <= 256, and it is asked about the part of the header that can be stated
                    out.tag("header:lh>256 (words 256.. cannot be stated, C11-h)");
                    h0.truncate(1024);
                }
                // Outside rawOk (shape of C11-b / C11-f: the trip changes the lig/kern program, reported by the
                // lig/kern and seven-bit streams) the flag byte is the safety of the font t1 really has.
                let safe = match (&rv1, self.sig_suffix.is_empty()) {
                    (Some(v1), false) => {
                        out.tag("header:flag-from-the-font-of-t1 (t0 outside rawOk)");
                        lean_safe7(v1, drv)
                    }
                    _ => safe,
                };
                let reply = drv.ask(&format!("header {} {}", safe as u8, join(&h0)));
                if reply == "notok" {
                    out.tag("header:outside-model");
                } else if reply.trim() == join(&h1) {
                    out.tag("header:t1-header-as-predicted");
                } else {
                    let m: Vec<&str> = reply.split(' ').collect();
                    let i = (0..m.len().max(h1.len())).find(|i| m.get(*i).map(|x| x.to_string()) != h1.get(*i).map(|x| x.to_string())).unwrap_or(0);
                    out.fail(
                        Kind::ImplVsModel,
                        "header",
                        "header of t1 differs from the model's prediction",
                        format!("first difference at header byte {i}: model {:?}, impl {:?} (lengths {} / {})", m.get(i), h1.get(i), m.len(), h1.len()),
                    );
                }
            }
        }
        // The character layer of t1 is what the model (`charsTrip`, Model/C11Layers.lean) makes of the
        // character layer of t0 - index bytes, the four tables, recipe words, byte for byte (I vs M).
        if let (Some(c0), Some(c1)) = (raw_chars_layer(t0), raw_chars_layer(&t1)) {
            if t0.len() <= 60_000 {
                let reply = drv.ask(&format!("chars {}", join(&c0)));
                match reply.as_str() {
                    "lossy" => out.tag("chars:lossy (C17)"),
                    "notok" => out.tag("chars:outside-model"),
                    m => {
                        if m.trim() == join(&c1) {
                            out.tag("chars:t1-character-layer-as-predicted");
                        } else {
                            out.fail(
                                Kind::ImplVsModel,
                                "chars",
                                "character layer of t1 differs from the model's prediction",
                                format!("model: {}\nimpl:  {}", trunc_s(m, 1500), trunc_s(&join(&c1), 1500)),
                            );
                        }
                    }
                }
            }
        }
        // Characters and parameters of t0 and t1 at byte level (independent of the Rust reader): the
        // same characters, each with the same four dimension *values*, the same kind of tag, the same
        // NEXTLARGER target and the same recipe bytes; the same parameter words.
        if let (Some(v0), Some(v1)) = (&rv0, &rv1) {
            let c0: Vec<u8> = v0.chars.iter().map(|c| c.0).collect();
            let c1: Vec<u8> = v1.chars.iter().map(|c| c.0).collect();
            if c0 != c1 {
                out.fail(Kind::ImplVsSpec, "same-font-raw", "raw characters differ: set of characters", format!("t0 {} characters, t1 {}", c0.len(), c1.len()));
            } else {
                for (a, b) in v0.chars.iter().zip(&v1.chars) {
                    if a.1 != b.1 {
                        let which = ["width", "height", "depth", "italic"][(0..4).find(|i| a.1[*i] != b.1[*i]).unwrap()];
                        out.fail(Kind::ImplVsSpec, "same-font-raw", format!("raw characters differ: {which}"), format!("char {}: t0 {:?} t1 {:?}", a.0, a.1, b.1));
                        break;
                    }
                    if a.2 != b.2 || (a.2 >= 2 && a.3 != b.3) {
                        out.fail(
                            Kind::ImplVsSpec,
                            "same-font-raw",
                            format!("raw characters differ: tag {} -> {}", a.2, b.2),
                            format!("char {}: t0 tag {} {:?} t1 tag {} {:?}", a.0, a.2, a.3, b.2, b.3),
                        );
                        break;
                    }
                }
            }
            if v0.params != v1.params {
                out.fail(Kind::ImplVsSpec, "same-font-raw", "raw parameters differ", format!("t0 {:?}\nt1 {:?}", &v0.params[..v0.params.len().min(30)], &v1.params[..v1.params.len().min(30)]));
            }
        }
        // The numeric header fields of t0 and t1, byte for byte (independent of the Rust reader).
        if let (Some(v0), Some(v1)) = (&rv0, &rv1) {
            if v0.lh >= 18 {
                if let Some(b) = v0.face {
                    out.tag(format!("face:{}", if b < 18 { "standard" } else if b == 18 { "18" } else { "other" }));
                }
                for (name, a, b) in [("checksum", v0.checksum, v1.checksum), ("design size", v0.design_size, v1.design_size)] {
                    if a != b {
                        out.fail(Kind::ImplVsSpec, "same-font-raw", format!("raw header differs: {name}"), format!("t0 {a:#x} t1 {b:#x}"));
                    }
                }
                if v0.face != v1.face {
                    out.fail(Kind::ImplVsSpec, "same-font-raw", "raw header differs: face byte", format!("t0 {:?} t1 {:?}", v0.face, v1.face));
                }
                if v0.extra != v1.extra {
                    let i = (0..v0.extra.len().max(v1.extra.len())).find(|i| v0.extra.get(*i) != v1.extra.get(*i)).unwrap_or(0);
                    let cut = v0.extra.len() > 238 && v1.extra[..] == v0.extra[..238];
                    out.fail(
                        Kind::ImplVsSpec,
                        "same-font-raw",
                        if cut { "header normalised: header words beyond index 255 dropped" } else { "raw header differs: additional word" },
                        format!("word {}: t0 {:?} t1 {:?} (lh {} / {})", 18 + i, v0.extra.get(i), v1.extra.get(i), v0.lh, v1.lh),
                    );
                }
            }
        }
        // The lig/kern programs of t0 and t1 decoded by Lean from the raw words (independent of the
        // Rust reader): same rule on every pair and boundary.
        if let (Some(v0), Some(v1)) = (&rv0, &rv1) {
            if v0.max_skip >= 126 {
                out.tag(format!("raw:skip-byte-{}", v0.max_skip));
            }
            if v0.raw != v1.raw {
                let reply = drv.ask(&format!("rawsem {} {}", join(&v0.raw), join(&v1.raw)));
                if reply != "same" {
                    self.pending_raw = Some(reply);
                } else {
                    out.tag("raw:rule-compared");
                }
            }
        }
        if let Some(reply) = self.pending_raw.take() {
            out.fail(
                Kind::ImplVsSpec,
                "ligkern-raw",
                "C05.rule of the raw lig/kern words differs between t0 and t1",
                reply,
            );
        }
        dump("t0.tfm", t0);
        dump("pl0.pl", pl0.as_bytes());
        dump("t1.tfm", &t1);

        // ---- second trip: must be the identity, silently
        let second = caught(|| {
            let r = real_tftopl(&t1);
            match r {
                Ok((pl1, m1)) => {
                    let (t2, w2) = real_pltotf(&pl1);
                    Ok((pl1, m1, t2, w2))
                }
                Err(e) => Err(e),
            }
        });
        match second {
            Err(p) => out.fail(Kind::ImplPanic, "trip2", format!("panic {}", strip_msg(&p)), format!("second trip panicked: {p}")),
            Ok(Err(e)) => out.fail(Kind::ImplVsSpec, "trip2", "t1 unreadable", format!("tfm_to_pl(t1) failed: {e}")),
            Ok(Ok((pl1, m1, t2, w2))) => {
                dump("pl1.pl", pl1.as_bytes());
                dump("t2.tfm", &t2);
                // (when tftopl warns on t1 the second trip leaves the domain of the model - it "fixes"
                // the file first -: the exact prediction of t1 is then all that can be asked for)
                if self.explained && m1.is_empty() {
                    self.explained = match (raw_view(&t1), raw_view(&t2)) {
                        (Some(v1), Some(v2)) => {
                            let reply = drv.ask(&format!("predict {}", join(&v1.raw_all)));
                            reply.split_once(" | ").map(|(_, pred)| pred.trim() == join(&v2.raw_all)).unwrap_or(false)
                        }
                        _ => false,
                    };
                }
                if !m1.is_empty() {
                    let first = m1[0].lines().find(|l| !l.trim().is_empty()).unwrap_or("").to_string();
                    let sig: String = first.chars().filter(|c| !c.is_ascii_digit() && *c != '\'').collect();
                    out.fail(Kind::ImplVsSpec, "trip2", format!("tftopl warns on t1: {sig}"), format!("messages on the canonical file: {m1:?}"));
                }
                if !w2.is_empty() {
                    out.fail(Kind::ImplVsSpec, "trip2", format!("pltotf warns on second trip: {}", w2[0]), format!("{w2:?}"));
                }
                if t1 != t2 {
                    let d = first_diff(&t1, &t2);
                    let off = (0..t1.len().min(t2.len())).find(|i| t1[*i] != t2[*i]).unwrap_or(0);
                    let sec = if t1.len() != t2.len() { "length" } else { section_of(&t1, off) };
                    out.fail(
                        Kind::ImplVsSpec,
                        "idempotent",
                        format!("t1 != t2 in {sec}"),
                        format!("{d}\nt1 = {}\nt2 = {}", hex(&t1), hex(&t2)),
                    );
                } else {
                    out.tag("idempotent:t1=t2");
                }
                out.tag(if pl0 == pl1 { "pl0=pl1" } else { "pl0!=pl1" });
            }
        }
        out.tag(if t0 == &t1[..] { "t0=t1 (already canonical)" } else { "t0!=t1 (normalised)" });
        // tftopl's other character-code formats (--charcode-format ascii / octal) must lead to the same t1
        if t0.len() <= 40_000 {
            for (name, fmt) in [("ascii", tfm::pl::CharDisplayFormat::Ascii), ("octal", tfm::pl::CharDisplayFormat::Octal)] {
                match caught(|| real_tftopl_fmt(t0, Some(fmt)).map(|(pl, m)| (real_pltotf(&pl), m))) {
                    Err(p) => out.fail(Kind::ImplPanic, "formats", format!("panic {}", strip_msg(&p)), format!("charcode format {name}: {p}")),
                    Ok(Err(e)) => out.fail(Kind::ImplVsSpec, "formats", format!("charcode format {name}: t0 unreadable"), e),
                    Ok(Ok(((tf, wf), mf))) => {
                        if !mf.is_empty() || wf != w1 || tf != t1 {
                            out.fail(
                                Kind::ImplVsSpec,
                                "formats",
                                format!("charcode format {name} leads to a different .tfm"),
                                format!("tftopl messages {mf:?}, pltotf warnings {wf:?} (default format: {w1:?}), {}", first_diff(&tf, &t1)),
                            );
                        }
                    }
                }
            }
            out.tag("formats:ascii+octal");
        }

        // ---- same font: decode both with the real reader
        let (d0, d1) = match (caught(|| decode(t0)), caught(|| decode(&t1))) {
            (Ok(Ok(a)), Ok(Ok(b))) => (a, b),
            (a, b) => {
                out.fail(
                    Kind::ImplVsSpec,
                    "same-font",
                    "t1 does not decode",
                    format!("decode(t0) ok={} decode(t1) ok={}", matches!(a, Ok(Ok(_))), matches!(b, Ok(Ok(_)))),
                );
                return;
            }
        };
        let t0_sizes: Vec<u16> = if t0.len() >= 24 { (0..12).map(|i| u16::from_be_bytes([t0[2 * i], t0[2 * i + 1]])).collect() } else { vec![] };
        self.compare_fonts(&d0, &d1, &t0_sizes, out);
        self.compare_ligkern(&d0, &d1, drv, out);
        self.compare_pack(&pl0, drv, out);
        // the normalisation of the instruction list on the way t0 -> pl0 -> (parsed)
        let pre = caught(|| {
            let (f, _) = tfm::File::deserialize(t0);
            let mut file = f.expect("t0 was readable");
            let _ = file.validate_and_fix();
            let plf: tfm::pl::File = file.into();
            plf
        });
        let post = caught(|| tfm::pl::File::from_pl_source_code(&pl0).0);
        if let (Ok(pre), Ok(post)) = (pre, post) {
            self.norm_streams(&pre, &post, drv, out);
        }
    }

    fn compare_fonts(&self, d0: &Decoded, d1: &Decoded, t0_sizes: &[u16], out: &mut CaseOutcome) {
        let k0: Vec<u8> = d0.chars.keys().copied().collect();
        let k1: Vec<u8> = d1.chars.keys().copied().collect();
        if k0 != k1 {
            out.fail(Kind::ImplVsSpec, "same-font", "character set differs", format!("t0: {k0:?}\nt1: {k1:?}"));
        } else {
            for (c, v0) in &d0.chars {
                let v1 = &d1.chars[c];
                if v0 != v1 {
                    let which = if v0.wd != v1.wd {
                        "width"
                    } else if v0.ht != v1.ht {
                        "height"
                    } else if v0.dp != v1.dp {
                        "depth"
                    } else {
                        "italic"
                    };
                    out.fail(Kind::ImplVsSpec, "same-font", format!("{which} differs"), format!("char {c}: t0 {v0:?} t1 {v1:?}"));
                    break;
                }
            }
        }
        if d0.tags != d1.tags {
            let mut detail = String::new();
            let mut sig = "tags differ".to_string();
            for c in 0..=255u8 {
                let (a, b) = (d0.tags.get(&c), d1.tags.get(&c));
                if a != b {
                    detail = format!("char {c}: t0 {a:?} t1 {b:?} (char has dimensions in t0: {})", d0.chars.contains_key(&c));
                    let name = |t: Option<&TagView>| match t {
                        None => "none",
                        Some(TagView::Lig) => "lig",
                        Some(TagView::List(_)) => "list",
                        Some(TagView::Ext(_)) => "ext",
                    };
                    sig = format!("tags differ: {}->{}{}", name(a), name(b), if d0.chars.contains_key(&c) { "" } else { " (orphan)" });
                    break;
                }
            }
            out.fail(Kind::ImplVsSpec, "same-font", sig, detail);
        }
        for c in d0.tags.keys() {
            match d0.tags[c] {
                TagView::Lig => out.tag("tag:lig"),
                TagView::List(_) => out.tag("tag:list"),
                TagView::Ext(_) => out.tag("tag:ext"),
            }
        }
        if d0.file.params != d1.file.params {
            out.fail(Kind::ImplVsSpec, "same-font", "params differ", format!("t0 {:?}\nt1 {:?}", d0.file.params, d1.file.params));
        }
        let (h0, h1) = (&d0.file.header, &d1.file.header);
        if h0 != h1 {
            let mut sigs: Vec<&'static str> = vec![];
            if h0.checksum != h1.checksum {
                sigs.push("header differs: checksum");
            }
            if h0.design_size != h1.design_size {
                sigs.push("header differs: design_size");
            }
            for (a, b, name) in [
                (&h0.character_coding_scheme, &h1.character_coding_scheme, "header differs: coding_scheme"),
                (&h0.font_family, &h1.font_family, "header differs: family"),
            ] {
                if a != b {
                    sigs.push(match (a, b) {
                        (None, Some(d)) if d == "UNSPECIFIED" => "header normalised: short header padded with PL defaults",
                        // exactly the recorded normalisation: every lower-case letter upper-cased, nothing else
                        (Some(x), Some(y)) if *y == x.to_ascii_uppercase() => "header normalised: lower-case letters in strings upper-cased",
                        // exactly the recorded normalisation: the blanks in front dropped (and the rest upper-cased), nothing else
                        (Some(x), Some(y)) if x.starts_with(' ') && *y == x.trim_start_matches(' ').to_ascii_uppercase() => {
                            "header normalised: leading blanks of a string dropped"
                        }
                        _ => name,
                    });
                }
            }
            if h0.seven_bit_safe != h1.seven_bit_safe {
                sigs.push(match (h0.seven_bit_safe, h1.seven_bit_safe) {
                    (None, Some(_)) => "header normalised: short header padded with PL defaults",
                    (Some(false), Some(true)) => "header normalised: seven-bit-safe flag recomputed (clear -> set)",
                    _ => "header differs: seven_bit_safe",
                });
            }
            if h0.face != h1.face {
                sigs.push(match (h0.face, h1.face) {
                    (None, Some(f)) if u8::from(f) == 0 => "header normalised: short header padded with PL defaults",
                    _ => "header differs: face",
                });
            }
            if h0.additional_data != h1.additional_data {
                // exactly the recorded loss: words 18..255 kept as they are, words 256.. gone (a HEADER index is one byte)
                let cut = h0.additional_data.len() > 238 && h1.additional_data[..] == h0.additional_data[..238];
                sigs.push(if cut { "header normalised: header words beyond index 255 dropped" } else { "header differs: additional_data" });
            }
            sigs.dedup();
            let mut seen: Vec<&str> = vec![];
            for sg in sigs {
                if !seen.contains(&sg) {
                    seen.push(sg);
                    out.fail(Kind::ImplVsSpec, "same-font", sg, format!("t0 {h0:?}\nt1 {h1:?}"));
                }
            }
        }
        if d0.file.lig_kern_program.right_boundary_char != d1.file.lig_kern_program.right_boundary_char {
            out.fail(
                Kind::ImplVsSpec,
                "same-font",
                "boundary char differs",
                format!("t0 {:?} t1 {:?}", d0.file.lig_kern_program.right_boundary_char, d1.file.lig_kern_program.right_boundary_char),
            );
        }
        // sub-files of t0 at (or next to) their format limits
        if t0_sizes.len() == 12 {
            let z = t0_sizes;
            let lim = |name: &str, v: u16, limits: &[u16], out: &mut CaseOutcome| {
                if limits.contains(&v) {
                    out.tag(format!("size:{name}={v}"));
                }
            };
            lim("lh", z[1], &[2, 3, 11, 12, 16, 17, 18, 19, 20, 118, 253, 254, 255, 256], out);
            lim("nw", z[4], &[255, 256], out);
            lim("nh", z[5], &[15, 16], out);
            lim("nd", z[6], &[15, 16], out);
            lim("ni", z[7], &[63, 64], out);
            lim("ne", z[10], &[255, 256], out);
            lim("np", z[11], &[253, 254], out);
            if z[8] >= 5000 {
                out.tag("size:nl>=5000");
            }
            if z[9] >= 2000 {
                out.tag("size:nk>=2000");
            }
            if z[3] == 255 && z[2] == 0 {
                out.tag("size:bc=0,ec=255");
            }
        }
        let n = d0.chars.len();
        out.tag(match n {
            0 => "chars:0",
            1..=9 => "chars:1-9",
            10..=99 => "chars:10-99",
            100..=255 => "chars:100-255",
            _ => "chars:256",
        });
        out.tag(format!("heights:{}", bucket(d0.file.heights.len().saturating_sub(1), 15)));
        out.tag(format!("depths:{}", bucket(d0.file.depths.len().saturating_sub(1), 15)));
        out.tag(format!("italics:{}", bucket(d0.file.italic_corrections.len().saturating_sub(1), 63)));
        if !d0.file.params.is_empty() {
            out.tag("params");
        }
    }

    fn compare_ligkern(&mut self, d0: &Decoded, d1: &Decoded, drv: &mut Driver, out: &mut CaseOutcome) {
        let mut f0 = d0.file.clone();
        let mut f1 = d1.file.clone();
        let r = caught(|| {
            let (p0, e0) = tfm::ligkern::CompiledProgram::compile_from_tfm_file(&mut f0);
            let (p1, e1) = tfm::ligkern::CompiledProgram::compile_from_tfm_file(&mut f1);
            (p0, e0.len(), p1, e1.len())
        });
        let (p0, e0, p1, e1) = match r {
            Err(p) => {
                out.fail(Kind::ImplPanic, "ligkern", format!("panic {}", strip_msg(&p)), format!("compile_from_tfm_file panicked: {p}"));
                return;
            }
            Ok(x) => x,
        };
        if e0 != 0 || e1 != 0 {
            out.tag("ligkern:infinite-loop-reported");
        }
        let a0 = p0.all_pairs_with_replacements();
        let a1 = p1.all_pairs_with_replacements();
        let mut pairs: BTreeSet<(Option<Char>, Char)> = a0.iter().copied().collect();
        pairs.extend(a1.iter().copied());
        let n_instr = d0.file.lig_kern_program.instructions.len();
        out.tag(match n_instr {
            0 => "ligkern:0-instr",
            1..=255 => "ligkern:1-255-instr",
            _ => "ligkern:>255-instr",
        });
        if d0.file.lig_kern_program.right_boundary_char.is_some() {
            out.tag("ligkern:right-boundary");
        }
        if d0.file.lig_kern_program.left_boundary_char_entrypoint.is_some() {
            out.tag("ligkern:left-boundary");
        }
        if d1.file.lig_kern_program.instructions.iter().filter(|i| matches!(i.operation, Operation::EntrypointRedirect(..))).count()
            > (d1.file.lig_kern_program.left_boundary_char_entrypoint.is_some() as usize)
                + (d1.file.lig_kern_program.right_boundary_char.is_some() as usize)
        {
            out.tag("ligkern:redirects-in-t1");
        }
        let rb = d0.file.lig_kern_program.right_boundary_char;
        let mut lefts: BTreeSet<Option<Char>> = pairs.iter().map(|p| p.0).collect();
        lefts.insert(None);
        let mut bad: Option<String> = None;
        let cmp = caught(|| {
            for (l, r) in &pairs {
                let (x, y) = (run_pair(&p0, *l, Some(*r)), run_pair(&p1, *l, Some(*r)));
                if x != y {
                    return Some(format!("pair ({l:?},{r:?}): t0 {x} t1 {y}"));
                }
            }
            for l in &lefts {
                let (x, y) = (run_pair(&p0, *l, None), run_pair(&p1, *l, None));
                if x != y {
                    return Some(format!("pair ({l:?}, right boundary {rb:?}): t0 {x} t1 {y}"));
                }
            }
            None
        });
        match cmp {
            Err(p) => out.fail(Kind::ImplPanic, "ligkern", format!("panic {}", strip_msg(&p)), format!("running the compiled program panicked: {p}")),
            Ok(b) => bad = b,
        }
        if a0 != a1 && bad.is_none() {
            let only0: Vec<_> = a0.iter().filter(|p| !a1.contains(p)).take(3).collect();
            let only1: Vec<_> = a1.iter().filter(|p| !a0.contains(p)).take(3).collect();
            bad = Some(format!("pairs with replacements differ: only in t0 {only0:?}, only in t1 {only1:?}"));
        }
        if let Some(b) = bad {
            out.fail(Kind::ImplVsSpec, "ligkern", "compiled lig/kern behaviour differs", b);
        }
        if !pairs.is_empty() {
            out.tag("ligkern:pairs-compared");
        }
        // the Lean `rule` on the decoded instruction lists (S computed by Lean)
        let (v0, _) = program_view(d0);
        let (v1, _) = program_view(d1);
        let reply = drv.ask(&format!("sem {} {}", join(&v0), join(&v1)));
        if reply != "same" {
            out.fail(Kind::ImplVsSpec, "ligkern-rule", "C05.rule differs between t0 and t1", reply);
        }
    }

    /// pack_entrypoints on the program parsed from the PL text: real vs model, and the Lean
    /// executable spec on the real output.
    fn compare_pack(&self, pl0: &str, drv: &mut Driver, out: &mut CaseOutcome) {
        let (plf, _) = tfm::pl::File::from_pl_source_code(pl0);
        let entries: BTreeMap<u8, i64> = plf.lig_kern_entrypoints(true).into_iter().map(|(c, e)| (c.0, e as i64)).collect();
        self.pack_streams(&plf.lig_kern_program, &entries, drv, out);
    }

    /// The TFM→PL→TFM normalisation of the instruction list: `pre` is the `pl::File` that
    /// `impl From<tfm::File> for pl::File` built (redirect words in place, entry points unpacked),
    /// `post` the `pl::File` the real parser read back from the real printer's text.
    /// I vs M: reachable_iter, the printed LIGTABLE items, the re-read program;
    /// I vs S: `C05.rule` of `post` = `C05.rule` of `pre` (computed by Lean).
    fn norm_streams(&self, pre: &tfm::pl::File, post: &tfm::pl::File, drv: &mut Driver, out: &mut CaseOutcome) {
        let (prog, entries) = pl_program_view(pre);
        if prog.instructions.iter().any(|i| matches!(i.operation, Operation::KernAtIndex(_))) {
            out.tag("norm:kern-at-index (skipped)");
            return;
        }
        let input = join(&enc_program(&prog, &entries, &[]));
        // reachable_iter
        let real_reach = caught(|| {
            let mut v: Vec<i64> = vec![];
            for item in prog.reachable_iter(entries.iter().map(|(c, e)| (Char(*c), *e as u16))) {
                match item {
                    tfm::ligkern::lang::ReachableIterItem::Reachable { adjusted_skip } => {
                        v.extend([1, adjusted_skip.map(|x| x as i64).unwrap_or(-1)])
                    }
                    _ => v.extend([0, -1]),
                }
            }
            v
        });
        match real_reach {
            Err(p) => out.fail(Kind::ImplPanic, "norm-reach", format!("panic {}", strip_msg(&p)), format!("reachable_iter panicked: {p}\ninput: {}", trunc_s(&input, 1500))),
            Ok(v) => {
                let m = drv.ask(&format!("reach {input}"));
                let i = join(&v);
                if i.trim() != m.trim() {
                    out.fail(Kind::ImplVsModel, "norm-reach", "reachable_iter differs from model", format!("impl:  {}\nmodel: {}\ninput: {}", trunc_s(&i, 800), trunc_s(&m, 800), trunc_s(&input, 1500)));
                }
                let n_unreach = v.chunks(2).filter(|c| c[0] == 0).count();
                let n_redirect = prog.instructions.iter().filter(|i| matches!(i.operation, Operation::EntrypointRedirect(..))).count();
                if n_unreach > n_redirect {
                    out.tag("norm:drops-unreachable-steps");
                }
                if v.chunks(2).zip(&prog.instructions).any(|(c, i)| c[0] == 1 && c[1] >= 0 && Some(c[1]) != i.next_instruction.map(|x| x as i64)) {
                    out.tag("norm:skip-adjusted");
                }
                if v.chunks(2).zip(&prog.instructions).any(|(c, i)| c[0] == 1 && matches!(i.operation, Operation::EntrypointRedirect(..))) {
                    out.tag("norm:reachable-redirect-word");
                }
            }
        }
        // the printed LIGTABLE
        let real_items = caught(|| {
            let ast = pre.lower(tfm::pl::CharDisplayFormat::Default);
            let mut v: Vec<i64> = vec![];
            for root in &ast.0 {
                if let tfm::pl::ast::Root::LigTable(b) = root {
                    for it in &b.children {
                        enc_item(it, &mut v);
                    }
                }
            }
            v
        });
        match real_items {
            Err(p) => out.fail(Kind::ImplPanic, "norm-items", format!("panic {}", strip_msg(&p)), format!("pl::File::lower panicked: {p}")),
            Ok(v) => {
                let m = drv.ask(&format!("items {input}"));
                let i = join(&v);
                if i.trim() != m.trim() {
                    out.fail(Kind::ImplVsModel, "norm-items", "printed LIGTABLE differs from model", format!("impl:  {}\nmodel: {}\ninput: {}", trunc_s(&i, 800), trunc_s(&m, 800), trunc_s(&input, 1500)));
                }
            }
        }
        // the program read back
        let (qprog, qentries) = pl_program_view(post);
        let q = join(&enc_program(&Program { passthrough: Default::default(), ..qprog.clone() }, &qentries, &[]));
        let reply = drv.ask(&format!("norm {input}"));
        let parts: Vec<&str> = reply.split(" | ").collect();
        if parts.len() != 3 {
            panic!("driver reply malformed: {reply}");
        }
        if parts[0].trim() != q.trim() {
            out.fail(Kind::ImplVsModel, "norm-parse", "re-read lig/kern program differs from model (printParse)", format!("impl:  {}\nmodel: {}\ninput: {}", trunc_s(&q, 800), trunc_s(parts[0], 800), trunc_s(&input, 1500)));
        }
        if parts[2] == "nwf=1" {
            out.tag("norm:hypotheses-hold");
            if parts[1].trim() != q.trim() {
                out.fail(Kind::ImplVsModel, "norm-closed", "re-read lig/kern program differs from model (normalise)", format!("impl:  {}\nmodel: {}\ninput: {}", trunc_s(&q, 800), trunc_s(parts[1], 800), trunc_s(&input, 1500)));
            }
        } else {
            out.tag("norm:outside-hypotheses");
        }
        // S: same rule function before and after (kerns are inline on both sides)
        let verdict = drv.ask(&format!("sem {input} {q}"));
        if verdict != "same" {
            if parts[2] == "nwf=1" {
                out.fail(Kind::ImplVsSpec, "norm-rule", "normalisation changes C05.rule", format!("{verdict}\ninput: {}\noutput: {}", trunc_s(&input, 1500), trunc_s(&q, 1500)));
            } else {
                out.tag("norm:rule-changes-outside-hypotheses");
            }
        }
    }

    fn pack_streams(&self, prog: &Program, entries: &BTreeMap<u8, i64>, drv: &mut Driver, out: &mut CaseOutcome) {
        let input = enc_program(prog, entries, &[]);
        let mut p = prog.clone();
        let hm: HashMap<Char, u16> = entries.iter().map(|(c, e)| (Char(*c), *e as u16)).collect();
        let real = caught(|| {
            let ne = p.pack_entrypoints(hm);
            (p, ne)
        });
        let m = drv.ask(&format!("pack {}", join(&input)));
        match real {
            Err(pn) => {
                out.tag("pack:panic");
                // The model describes pack_entrypoints with fix C11-a applied (it never panics
                // on at most 256 labelled characters): the panic itself is the defect.
                out.fail(
                    Kind::ImplPanic,
                    "pack",
                    format!("panic {}", strip_msg(&pn)),
                    format!("pack_entrypoints panicked: {pn}\nmodel: {}\ninput: {}", trunc_s(&m, 200), trunc_s(&join(&input), 2000)),
                );
            }
            Ok((p, ne)) => {
                let ne: BTreeMap<u8, i64> = ne.into_iter().map(|(c, e)| (c.0, e as i64)).collect();
                let i = join(&enc_program(&p, &ne, &[]));
                let n_red = p.instructions.len() - prog.instructions.len();
                out.tag(format!("pack:added-{}", bucket(n_red, 300)));
                if prog.right_boundary_char.is_some() && n_red > 0 && p.instructions.first().map(|x| matches!(x.operation, Operation::EntrypointRedirect(u, _) if u != 0)).unwrap_or(false) {
                    out.tag("pack:location-0-double-duty");
                }
                if i != m {
                    out.fail(Kind::ImplVsModel, "pack", "pack_entrypoints differs from model", format!("impl:  {}\nmodel: {}", trunc_s(&i, 1500), trunc_s(&m, 1500)));
                }
                let verdict = drv.ask(&format!("chkpack {} {}", join(&input), i));
                if verdict.starts_with("wf=0") {
                    out.tag("pack:outside-hypotheses");
                } else if verdict != "wf=1 ok" {
                    out.fail(Kind::ImplVsSpec, "pack", format!("pack spec: {}", verdict.split(':').next().unwrap_or("")), format!("verdict: {verdict}\ninput: {}\noutput: {}", trunc_s(&join(&input), 1500), trunc_s(&i, 1500)));
                } else {
                    out.tag("pack:spec-ok");
                }
            }
        }
    }
}

fn c_push(c: &mut Vec<String>, s: String) {
    c.push(s);
}

fn trunc_s(s: &str, n: usize) -> String {
    if s.len() <= n {
        s.to_string()
    } else {
        format!("{}…[{} bytes]", &s[..n], s.len())
    }
}

fn bucket(n: usize, lim: usize) -> String {
    if n == 0 {
        "0".into()
    } else if n < lim {
        format!("1..{}", lim - 1)
    } else if n == lim {
        format!("{lim}")
    } else {
        format!(">{lim}")
    }
}

/// Debugging aid: with C11_DUMP=<dir> the intermediate files of a replayed case are written there.
fn dump(name: &str, data: &[u8]) {
    if let Ok(d) = std::env::var("C11_DUMP") {
        let _ = std::fs::write(format!("{d}/{name}"), data);
    }
}

/// What the generated property list says about the numeric header fields:
/// (CHECKSUM if stated, header words 18.., FACE byte if stated).
fn expected_header(f: &GFont) -> (Option<u32>, Vec<u32>, Option<u8>) {
    let mut checksum = None;
    let mut extra: Vec<u32> = vec![];
    let mut face = None;
    for n in &f.nums {
        match n {
            HNum::Checksum(v, _) => checksum = Some(*v),
            HNum::Face(b, _) => face = Some(*b),
            HNum::Header(i, v, _) => {
                let k = *i as usize - 18;
                if extra.len() <= k {
                    extra.resize(k + 1, 0);
                }
                extra[k] = *v;
            }
        }
    }
    (checksum, extra, face)
}

/// Overwrite the face byte (header byte 71) of a .tfm whose header has it.
fn patch_face(t: &mut [u8], b: u8) {
    if t.len() >= 24 + 72 && u16::from_be_bytes([t[2], t[3]]) >= 18 {
        t[24 + 71] = b;
    }
}

/// Cut the header of a .tfm down to `new_lh` words (sub-file sizes adjusted).
fn cut_header(t: &[u8], new_lh: usize) -> Vec<u8> {
    if t.len() < 24 {
        return t.to_vec();
    }
    let lf = u16::from_be_bytes([t[0], t[1]]) as usize;
    let lh = u16::from_be_bytes([t[2], t[3]]) as usize;
    if new_lh >= lh || t.len() < 24 + 4 * lh {
        return t.to_vec();
    }
    let mut o = t[..24 + 4 * new_lh].to_vec();
    o.extend_from_slice(&t[24 + 4 * lh..]);
    let nlf = (lf - (lh - new_lh)) as u16;
    o[0..2].copy_from_slice(&nlf.to_be_bytes());
    o[2..4].copy_from_slice(&(new_lh as u16).to_be_bytes());
    o
}

fn shape_t0(sh: &Shape, raw: bool) -> Result<Vec<u8>, String> {
    let mut t = shape_t0_uncut(sh, raw)?;
    if sh.fbyte > 0 {
        patch_face(&mut t, (sh.fbyte - 1) as u8);
    }
    if (2..18).contains(&sh.lhcut) {
        Ok(cut_header(&t, sh.lhcut as usize))
    } else {
        Ok(t)
    }
}

fn shape_t0_uncut(sh: &Shape, raw: bool) -> Result<Vec<u8>, String> {
    let f = gen_font(sh);
    let pl = font_to_pl(&f);
    dump("src.pl", pl.as_bytes());
    if raw {
        // The numeric header fields do not go through the PL reader here: the harness puts them
        // into the `tfm::File` / the bytes itself, so that t0 really holds the generated values.
        let pl = font_to_pl_opt(&f, false);
        let (plf, w) = tfm::pl::File::from_pl_source_code(&pl);
        if !w.is_empty() {
            return Err(format!("{:?}", w[0].kind));
        }
        let mut file: tfm::File = plf.into();
        // The extensible sub-file is laid out by the harness itself, from the generated font (not by
        // `From<pl::File>`): one recipe per character, or identical recipes shared (odd seeds).
        let vars: Vec<(u8, tfm::ExtensibleRecipe)> = {
            let mut m: BTreeMap<u8, tfm::ExtensibleRecipe> = BTreeMap::new();
            for c in &f.chars {
                match &c.tag {
                    GTag::Var(t, mi, b, rp) => {
                        m.insert(c.code, tfm::ExtensibleRecipe { top: t.map(Char), middle: mi.map(Char), bottom: b.map(Char), rep: Char(*rp) });
                    }
                    _ => {
                        m.remove(&c.code);
                    }
                }
            }
            m.into_iter().collect()
        };
        let consistent = sh.odd == 0
            && vars.iter().all(|(c, _)| matches!(file.char_tags.get(&Char(*c)), Some(tfm::CharTag::Extension(_))))
            && file.char_tags.values().filter(|t| matches!(t, tfm::CharTag::Extension(_))).count() == vars.len();
        if consistent && !vars.is_empty() {
            let share = sh.seed % 2 == 1;
            let mut table: Vec<tfm::ExtensibleRecipe> = vec![];
            for (c, r) in &vars {
                let idx = match table.iter().position(|x| x == r) {
                    Some(i) if share => i,
                    _ => {
                        table.push(r.clone());
                        table.len() - 1
                    }
                };
                file.char_tags.insert(Char(*c), tfm::CharTag::Extension(idx as u8));
            }
            file.extensible_chars = table;
        }
        if let Some((scheme, family)) = &f.strs {
            file.header.character_coding_scheme = Some(scheme.clone());
            file.header.font_family = Some(family.clone());
        }
        let (x_checksum, x_extra, x_face) = expected_header(&f);
        if let Some(v) = x_checksum {
            file.header.checksum = Some(v);
        }
        file.header.additional_data = x_extra;
        perturb_layout(&mut file, sh.seed);
        let mut t = file.serialize();
        if let Some(b) = x_face {
            patch_face(&mut t, b);
        }
        Ok(t)
    } else {
        let (b, w) = real_pltotf(&pl);
        if !w.is_empty() {
            return Err(w[0].clone());
        }
        Ok(b)
    }
}

impl Property for C11 {
    fn id(&self) -> &'static str {
        "C11"
    }
    fn rule(&self) -> String {
        "tfm/pl: every .tfm and .plst under crates/tfm/corpus; gen: PL text generated from a shape descriptor (0..256 characters, up to and beyond 15/15/63 \
         distinct heights/depths/italics, 0..256 lig/kern chains with several labels per chain and labels inside chains, 0..600 leading unlabelled steps so that \
         entry points exceed 255, BOUNDARYCHAR existing/non-existing, LABEL BOUNDARYCHAR, SKIPs, NEXTLARGER chains, VARCHAR recipes, params, header variants) \
         through the real pl_to_tfm; raw: the same fonts laid out non-canonically (permuted/duplicated dimension tables and kerns) and serialised by the real \
         serialiser; pack: synthetic programs (0..700 instructions, 0..256 labelled characters, entry points around 255-k) through Program::pack_entrypoints alone; \
         kerns: unpack_kerns/pack_kerns alone. Non-trivial = t0 is inside the quantifier (both conversions of the first trip are warning-free), or for pack/kerns \
         the program has at least one entry point / kern; distinct = distinct case string."
            .into()
    }
    fn builtin_corpus(&self) -> Vec<String> {
        let mut v = vec![];
        for t in &self.corpus_tfm {
            v.push(format!("tfm {t}"));
        }
        for p in &self.corpus_pl {
            v.push(format!("pl {p}"));
        }
        // 256 labelled characters, all of them redirected
        v.push(Shape { seed: 1, nc: 256, nw: 3, chains: 256, len: 1, labels: 1, pad: 1, ..Shape::parse("") }.show("gen"));
        v.push(Shape { seed: 2, nc: 256, nw: 3, chains: 256, len: 2, labels: 1, pad: 300, bc: 1, lb: 1, ..Shape::parse("") }.show("gen"));
        v.push(Shape { seed: 3, nc: 3, nw: 2, chains: 2, len: 2, labels: 2, pad: 255, bc: 2, lb: 1, ..Shape::parse("") }.show("gen"));
        v.push(Shape { seed: 4, nc: 3, nw: 2, chains: 2, len: 2, labels: 2, pad: 254, bc: 1, lb: 0, ..Shape::parse("") }.show("gen"));
        // C11-b: a trailing LABEL without a step, behind more than 255 steps, in a font with LABEL BOUNDARYCHAR
        v.push(Shape { seed: 5, nc: 3, nw: 2, chains: 1, len: 1, labels: 1, pad: 255, lb: 1, odd: 1, ..Shape::parse("") }.show("gen"));
        // every sub-file at and around its format limit
        let base = Shape { seed: 77, nc: 5, nw: 3, ..Shape::parse("") };
        for hx in [0u32, 1, 2, 100, 235, 236, 237, 238] {
            // lh = 18 + hx: 18, 19, 20, 118, 253, 254, 255, 256
            v.push(Shape { hx, seed: 77 + hx as u64, ..base.clone() }.show("gen"));
            v.push(Shape { hx, seed: 78 + hx as u64, hdr: 0b0010_0111, np: 7, ..base.clone() }.show("raw"));
        }
        for lhcut in [2u32, 3, 11, 12, 16, 17] {
            v.push(Shape { lhcut, hdr: 0b0000_0111, seed: 90 + lhcut as u64, ..base.clone() }.show("gen"));
        }
        for np in [253u32, 254] {
            v.push(Shape { np, seed: 100 + np as u64, ..base.clone() }.show("gen"));
        }
        for nw in [254u32, 255, 256] {
            v.push(Shape { nc: 256, nw, seed: 200 + nw as u64, ..base.clone() }.show("gen"));
            v.push(Shape { nc: 256, nw, seed: 300 + nw as u64, ..base.clone() }.show("raw"));
        }
        for (nh, nd, ni) in [(14u32, 14u32, 62u32), (15, 15, 63), (16, 16, 64)] {
            v.push(Shape { nc: 200, nw: 20, nh, nd, ni, seed: 400 + nh as u64, ..base.clone() }.show("gen"));
            v.push(Shape { nc: 200, nw: 20, nh, nd, ni, seed: 500 + nh as u64, ..base.clone() }.show("raw"));
        }
        for nv in [255u32, 256] {
            v.push(Shape { nc: 256, nw: 4, nv, seed: 600 + nv as u64, ..base.clone() }.show("gen"));
        }
        // the size words alone, each at / one below / one above its capacity (TFtoPL.2014.20-21), others minimal
        {
            let min: [i64; 11] = [2, 1, 0, 1, 1, 1, 1, 0, 0, 0, 0];
            let probes: [(usize, &[i64]); 10] = [
                (0, &[1, 2, 3, 17, 18, 19, 255, 256, 257, 1000]),
                (3, &[0, 1, 2, 255, 256, 257]),
                (4, &[0, 1, 15, 16, 17, 256]),
                (5, &[0, 1, 15, 16, 17, 256]),
                (6, &[0, 1, 63, 64, 65, 256]),
                (7, &[1, 255, 256, 257]),
                (8, &[1, 255, 256, 257]),
                (9, &[1, 255, 256, 257]),
                (10, &[1, 7, 253, 254, 255, 256, 1000]),
                (2, &[0]),
            ];
            for (k, vals) in probes {
                for x in vals {
                    let mut a = min;
                    a[k] = *x;
                    v.push(format!("sz {}", join(&a)));
                    // the same in a font with all 256 codes in range
                    a[1] = 0;
                    a[2] = 255;
                    if k != 2 {
                        v.push(format!("sz {}", join(&a)));
                    }
                }
            }
            for (bc, ec) in [(0i64, 0i64), (255, 255), (0, 255), (1, 255), (0, 254), (128, 127), (256, 255), (2, 0), (0, 256)] {
                let mut a = min;
                a[1] = bc;
                a[2] = ec;
                v.push(format!("sz {}", join(&a)));
            }
            // every capacity at once, and each one above it in turn
            let full: [i64; 11] = [256, 0, 255, 256, 16, 16, 64, 300, 300, 256, 254];
            v.push(format!("sz {}", join(&full)));
            for k in [3usize, 4, 5, 6, 9, 10] {
                let mut a = full;
                a[k] += 1;
                v.push(format!("sz {}", join(&a)));
            }
        }
        // everything maximal at once: 256 characters, 255 widths, 15/15/63, 256 recipes, 254 params, lh = 256
        v.push(Shape { nc: 256, nw: 255, nh: 15, nd: 15, ni: 63, nv: 256, np: 254, hx: 238, hdr: 0b0010_0111, seed: 701, ..base.clone() }.show("gen"));
        v.push(Shape { nc: 256, nw: 255, nh: 15, nd: 15, ni: 63, nv: 256, np: 254, hx: 238, hdr: 0b0010_0111, seed: 702, ..base.clone() }.show("raw"));
        // large lig/kern and kern sub-files (reachable: the leading run is labelled for even seeds)
        v.push(Shape { nc: 40, nw: 4, chains: 20, len: 3, labels: 2, pad: 6000, lig: 10, seed: 800, ..base.clone() }.show("gen"));
        v.push(Shape { nc: 40, nw: 4, chains: 20, len: 3, labels: 2, pad: 14000, lig: 0, bc: 1, lb: 1, seed: 802, ..base.clone() }.show("gen"));
        // a redirect word in the middle of the table: used by character 98 as its entry point, jumped
        // over by the step of character 97 (SKIP 1), between that step and its target
        v.push("tprog -1 -1 3 1 65 0 5 0 -1 0 3 2 1 -1 66 0 6 0 2 97 0 98 1 0".into());
        v.push("tprog 35 -1 6 -1 35 3 0 1 2 65 0 5 0 -1 70 0 9 0 -1 35 3 5 1 0 66 0 6 0 -1 67 0 7 0 3 97 1 98 3 99 2 0".into());
        // FACE: every byte through the property list (octal, and `F` codes below 18) and through the bytes of t0
        for b in 0..256u32 {
            v.push(Shape { nc: 1, nw: 1, face: b + 1, seed: 1000 + b as u64, ..base.clone() }.show("gen"));
            v.push(Shape { nc: 1, nw: 1, fbyte: b + 1, seed: 2000 + b as u64, ..base.clone() }.show("raw"));
        }
        for b in 0..18u32 {
            v.push(Shape { nc: 1, nw: 1, face: b + 1, seed: 3001 + 2 * b as u64, ..base.clone() }.show("gen")); // odd seed: `FACE F xyz`
        }
        // header strings: blank runs, maximal lengths, punctuation, lower case - PL side and TFM bytes side
        for k in 0..24u32 {
            v.push(Shape { nc: 1, nw: 1, ss: 1 + k, seed: 5000 + k as u64, ..base.clone() }.show("gen"));
            v.push(Shape { nc: 1, nw: 1, ss: 1 + k, seed: 5100 + k as u64, ..base.clone() }.show("raw"));
        }
        // CHECKSUM and HEADER words at the extremes of u32, octal and hexadecimal
        for k in 0..40u64 {
            v.push(Shape { nc: 1, nw: 1, hdr: 0b0011_0000, seed: 4000 + k, ..base.clone() }.show("gen"));
            v.push(Shape { nc: 1, nw: 1, hdr: 0b0011_0000, hx: 6, seed: 4100 + k, ..base.clone() }.show("raw"));
        }
        // VARCHAR: every recipe over a 2- and a 3-character piece alphabet (54 / 192 recipes), and random draws
        for (va, nc) in [(2u32, 60u32), (3, 200)] {
            v.push(Shape { nc, nw: 3, vx: 1000, va, seed: 900 + va as u64, ..base.clone() }.show("gen"));
            v.push(Shape { nc, nw: 3, vx: 1000, va, seed: 910 + va as u64, ..base.clone() }.show("raw"));
            v.push(Shape { nc, nw: 3, vx: 1000, va, seed: 921 + va as u64, ..base.clone() }.show("raw"));
        }
        for k in 0..6u64 {
            v.push(Shape { nc: 12, nw: 3, vx: 8, va: 2, seed: 930 + k, ..base.clone() }.show(if k % 2 == 0 { "raw" } else { "gen" }));
        }
        // SKIP counts at the format's limits, through PL ...
        for seed in [940u64, 941] {
            v.push(Shape { nc: 140, nw: 3, odd: 32, seed, ..base.clone() }.show("gen"));
            v.push(Shape { nc: 140, nw: 3, odd: 32, chains: 3, len: 2, labels: 1, bc: 1, lb: 1, seed: seed + 2, ..base.clone() }.show("raw"));
        }
        // ... and through hand-built TFM-level programs: word 0 skips K words, all of them labelled
        for k in [0usize, 1, 2, 125, 126, 127] {
            let n = k + 2;
            let mut w: Vec<i64> = vec![-1, -1, n as i64];
            w.extend([k as i64, 1, 0, 100, 0]);
            for i in 1..=k {
                w.extend([0, 2 + (i % 50) as i64, 0, 1000 + i as i64, 0]);
            }
            w.extend([-1, 200, 0, 555, 0]);
            w.extend([2, 65, 0, 66, if k > 0 { 1 } else { 0 }]);
            w.push(0);
            v.push(format!("tprog {}", join(&w)));
        }
        // seven-bit discipline: flagged fonts whose eight-bit ligature results only follow eight-bit right characters
        for seed in [950u64, 951, 952, 953] {
            v.push(Shape { nc: 256, nw: 3, chains: 40, len: 4, labels: 2, lig: 60, odd: 64, hdr: 0b0000_0111, seed, ..base.clone() }.show("gen"));
        }
        for n in [0, 1, 2, 200, 254, 255, 256] {
            v.push(format!("redir {n} -1"));
            v.push(format!("redir {n} 65"));
        }
        v.push("pack -1 -1 0 0".into());
        v.push("pack 65 -1 0 0".into());
        v.push("pack -1 0 0 0".into());
        v.push("pack 65 0 1 -1 66 1 67 0".into());
        v
    }
    fn generate(&mut self, ctx: &Ctx, rng: &mut Rng) -> Vec<String> {
        let mut v = vec![];
        // very many kern steps over very few distinct values (the kern sub-file stays tiny): the size guard of
        // the PL reader must count distinct values; quick has one such font, thorough three incl. near the limit
        {
            let big = Shape { nc: 30, nw: 3, chains: 4, len: 2, labels: 1, lig: 0, kv: 2, ..Shape::parse("") };
            let pads: &[u32] = if ctx.thorough { &[8_000, 16_000, 30_000] } else { &[16_000] };
            for (i, pad) in pads.iter().enumerate() {
                v.push(Shape { pad: *pad, seed: 6000 + 2 * i as u64, ..big.clone() }.show("gen"));
                // the same font laid out by the harness: the guard is then met on the way back (trip1)
                if ctx.thorough {
                    v.push(Shape { pad: *pad, seed: 6000 + 2 * i as u64, ..big.clone() }.show("raw"));
                }
                // and a program the harness built word by word
                v.push(format!("tbig {} {} {}", pad + 40 * i as u32, 2 + i, 7 + i));
            }
        }
        {
            let mut r = rng.fork();
            let edge = |r: &mut Rng, cap: i64| -> i64 { *r.pick(&[1, 1, 2, cap - 1, cap, cap, cap + 1]) };
            for i in 0..(if ctx.thorough { 600 } else { 60 }) {
                let (bc, ec) = *r.pick(&[(0i64, 255i64), (1, 0), (0, 0), (255, 255), (3, 200), (0, 127)]);
                let big = ctx.thorough && i % 100 == 0;
                let a: [i64; 11] = [
                    *r.pick(&[2, 3, 17, 18, 19, 255, 256, 300]),
                    bc,
                    ec,
                    edge(&mut r, 256),
                    edge(&mut r, 16),
                    edge(&mut r, 16),
                    edge(&mut r, 64),
                    if big { 20_000 } else { *r.pick(&[0, 0, 1, 255, 256, 257]) },
                    *r.pick(&[0, 0, 1, 255, 256, 257]),
                    *r.pick(&[0, 0, 1, 255, 256, 256, 257]),
                    *r.pick(&[0, 1, 7, 253, 254, 255]),
                ];
                v.push(format!("sz {}", join(&a)));
            }
        }
        let (n_gen, n_raw, n_pack, n_kerns) = if ctx.thorough { (6000, 3000, 20000, 4000) } else { (400, 200, 1500, 300) };
        let n_norm = if ctx.thorough { 12000 } else { 900 };
        let mut r = rng.fork();
        for i in 0..n_gen {
            let sh = Shape::random(&mut r, i % 3 == 0);
            v.push(sh.show("gen"));
        }
        let mut r = rng.fork();
        for i in 0..n_raw {
            let sh = Shape::random(&mut r, i % 4 == 0);
            v.push(sh.show("raw"));
        }
        // norm: synthetic TFM-level programs (redirect words in front, boundary word behind,
        // unreachable stretches, SKIPs over them) through the real printer and parser
        let mut r = rng.fork();
        for _ in 0..n_norm {
            let front = *r.pick(&[0usize, 0, 1, 2, 5]);
            let body: usize = match r.below(5) {
                0 => r.below(4) as usize,
                1 => 40 + r.below(260) as usize,
                _ => 1 + r.below(25) as usize,
            };
            let has_lb = body > 0 && r.chance(1, 3);
            let n = front + body + has_lb as usize;
            let rb: i64 = if front > 0 && r.chance(2, 3) { r.below(256) as i64 } else { -1 };
            let mut w: Vec<i64> = vec![rb, -1, n as i64];
            for i in 0..n {
                let is_front = i < front;
                let is_lbw = has_lb && i == n - 1;
                let stray_redirect = !is_front && !is_lbw && r.chance(1, 60);
                if is_front || is_lbw || stray_redirect {
                    let target = if body > 0 { (front + r.below(body as u64) as usize) as i64 } else { 0 };
                    w.extend([-1, if rb >= 0 { rb } else { 0 }, 3, target, if is_lbw { 0 } else { 1 }]);
                } else {
                    let last_body = front + body - 1;
                    let room = last_body - i;
                    let next: i64 = if room == 0 || r.chance(1, 3) {
                        -1
                    } else if r.chance(1, 3) {
                        r.below((room as u64).min(6)) as i64
                    } else if r.chance(1, 40) {
                        room as i64 + r.below(3) as i64 // into the boundary word or past the end
                    } else {
                        0
                    };
                    if r.chance(1, 6) {
                        w.extend([next, r.below(256) as i64, 2, r.below(256) as i64, 7]);
                    } else {
                        w.extend([next, r.below(256) as i64, 0, r.range(-100000, 100000), 0]);
                    }
                }
            }
            if has_lb {
                let l = match r.below(8) {
                    0 => n as i64 - 1, // the quirk: the boundary entry point addresses the last word
                    _ => w[3 + 5 * (n - 1) + 3],
                };
                w[1] = l;
                w[3 + 5 * (n - 1) + 3] = l;
            }
            // Redirect words in the *middle* of the table, used as the entry point of a character
            // (so they are pass-through, not reachable) and jumped over by the step in front of them
            // or by an earlier step: word j-1 gets SKIP 1..3 across word j, word j redirects to a step.
            let mut forced: Vec<(usize, i64)> = vec![];
            if body >= 4 && r.chance(1, 3) {
                let k = 1 + r.below(3) as usize;
                for _ in 0..k {
                    let j = front + 1 + r.below(body as u64 - 2) as usize; // not the first, not the last body word
                    let last_body = front + body - 1;
                    let is_step = |w: &Vec<i64>, i: usize| w[3 + 5 * i + 2] != 3;
                    if !is_step(&w, j - 1) || !is_step(&w, j + 1) || forced.iter().any(|(x, _)| *x + 1 >= j && *x <= j + 1) {
                        continue;
                    }
                    let target = (j + 1 + r.below((last_body - j) as u64) as usize).min(last_body);
                    if !is_step(&w, target) {
                        continue;
                    }
                    let span = (1 + r.below(3) as usize).min(last_body - j);
                    w[3 + 5 * (j - 1)] = span as i64; // SKIP across the redirect word
                    let o = 3 + 5 * j;
                    w[o] = -1;
                    w[o + 1] = if rb >= 0 { rb } else { 0 };
                    w[o + 2] = 3;
                    w[o + 3] = target as i64;
                    w[o + 4] = 1;
                    forced.push((j - 1, j as i64 - 1)); // a label on the skipping step
                    forced.push((j, j as i64)); // a label on the redirect word (unpacks to its target)
                }
            }
            let m: usize = if body == 0 { 0 } else { *r.pick(&[0usize, 1, 1, 2, 3, 5, 12]) };
            let mut chars: Vec<u8> = (0..=255).collect();
            for i in (1..256).rev() {
                let j = r.below(i as u64 + 1) as usize;
                chars.swap(i, j);
            }
            let m = (m + forced.len()).min(256);
            chars.truncate(m);
            chars.sort();
            w.push(m as i64);
            for (k, c) in chars.into_iter().enumerate() {
                let e = if k < forced.len() {
                    forced[k].1
                } else if r.chance(1, 30) {
                    r.below(n as u64 + 1) as i64
                } else {
                    (front + r.below(body as u64) as usize) as i64
                };
                w.extend([c as i64, e]);
            }
            w.push(0);
            if n <= 250 && (r.chance(1, 4) || (!forced.is_empty() && r.chance(1, 3))) {
                v.push(format!("tprog {}", join(&w)));
            }
            v.push(format!("norm {}", join(&w)));
        }
        // pack: synthetic programs
        let mut r = rng.fork();
        for _ in 0..n_pack {
            let n: usize = match r.below(6) {
                0 => r.below(6) as usize,
                1 => 250 + r.below(12) as usize,
                2 => 256 + r.below(450) as usize,
                _ => 1 + r.below(300) as usize,
            };
            let rb: i64 = if r.chance(1, 2) { r.below(256) as i64 } else { -1 };
            let lb: i64 = if r.chance(1, 3) && n > 0 { r.below(n as u64) as i64 } else { -1 };
            let mut w = vec![rb, lb, n as i64];
            for i in 0..n {
                let room = n - 1 - i;
                let next: i64 = if room == 0 || r.chance(1, 4) {
                    -1
                } else if r.chance(1, 5) {
                    r.below(room.min(5) as u64) as i64
                } else {
                    0
                };
                w.push(next);
                w.push(r.below(256) as i64);
            }
            let m: usize = if n == 0 {
                0
            } else {
                match r.below(6) {
                    0 => 0,
                    1 => 256,
                    2 => 200 + r.below(57) as usize,
                    _ => 1 + r.below(12) as usize,
                }
            };
            let mut chars: Vec<u8> = (0..=255).collect();
            for i in (1..256).rev() {
                let j = r.below(i as u64 + 1) as usize;
                chars.swap(i, j);
            }
            chars.truncate(m);
            chars.sort();
            w.push(m as i64);
            let distinct = r.chance(1, 2);
            for (k, c) in chars.iter().enumerate() {
                let e = if n == 0 {
                    0
                } else if distinct && m <= n {
                    // distinct entries packed against the end (maximises redirects)
                    (n - 1 - (k % n)) as i64
                } else {
                    match r.below(4) {
                        0 => (r.below(n as u64) as i64).min(255),
                        1 => (254 + r.below(4) as i64 - r.below(3) as i64).clamp(0, n as i64 - 1),
                        _ => r.below(n as u64) as i64,
                    }
                };
                w.push(*c as i64);
                w.push(e);
            }
            v.push(format!("pack {}", join(&w)));
        }
        let mut r = rng.fork();
        for _ in 0..n_kerns {
            let max = *r.pick(&[15i64, 15, 63, 255, 3]);
            let n = match r.below(4) {
                0 => r.below(4) as i64,
                1 => max + r.range(-2, 3),
                _ => r.below(max as u64 + 10) as i64,
            }
            .max(0);
            let small = r.chance(1, 2);
            let mut w = vec![max, n];
            for _ in 0..n {
                w.push(if small { r.range(-20, 20) } else { interesting_i32(&mut r) as i64 >> 4 });
            }
            v.push(format!("dims {}", join(&w)));
        }
        let mut r = rng.fork();
        for _ in 0..n_kerns {
            let n = r.below(40) as usize;
            let pool: Vec<i64> = (0..1 + r.below(6)).map(|_| interesting_i32(&mut r) as i64).collect();
            let mut w = vec![n as i64];
            for _ in 0..n {
                if r.chance(2, 3) {
                    w.extend([0, *r.pick(&pool)]);
                } else {
                    w.extend([2, r.below(256) as i64]);
                }
            }
            v.push(format!("kerns {}", join(&w)));
        }
        v
    }

    fn run_case(&mut self, case: &str, drv: &mut Driver) -> CaseOutcome {
        let mut out = CaseOutcome::default();
        let (cmd, rest) = case.split_once(' ').unwrap_or((case, ""));
        match cmd {
            "tfm" => {
                out.tag("src:corpus-tfm");
                let t0 = self.read_corpus(rest);
                self.round_trip(&t0, drv, &mut out);
            }
            "sz" => {
                // `sz lh bc ec nw nh nd ni nl nk ne np`: the smallest file with these size words (all other
                // words zero, a valid design size): every table at, one below and one above its capacity
                out.tag("src:sz");
                let a = parse_i64s(rest);
                if let Some(t0) = sz_file(&a) {
                    if a[7] > 2000 {
                        out.tag("sz:large-lig/kern-sub-file");
                    }
                    self.round_trip(&t0, drv, &mut out);
                } else {
                    out.tag("sz:not-a-file (lf >= 32768)");
                }
            }
            "hex" => {
                out.tag("src:hex");
                let t0 = unhex(rest.trim());
                self.round_trip(&t0, drv, &mut out);
            }
            "pl" => {
                out.tag("src:corpus-pl");
                let bytes = self.read_corpus(rest);
                let text = String::from_utf8_lossy(&bytes).into_owned();
                match caught(|| real_pltotf(&text)) {
                    Err(p) => {
                        // reader totality is C10's subject: not reported here
                        out.tag(format!("pl:pltotf-panics {}", strip_msg(&p)));
                    }
                    Ok((t0, w)) => {
                        if !w.is_empty() {
                            out.tag("pl:source-warns (outside quantifier)");
                        } else {
                            self.round_trip(&t0, drv, &mut out);
                        }
                    }
                }
            }
            "gen" | "raw" => {
                out.tag(format!("src:{cmd}"));
                let sh = Shape::parse(rest);
                match caught(|| shape_t0(&sh, cmd == "raw")) {
                    Err(p) => {
                        // No t0: outside C11's quantifier. (Totality of the PL reader is C10's
                        // subject; a panic inside pack_entrypoints is reported by the `pack`
                        // and `redir` streams.)
                        out.tag(format!("gen:pltotf-panics at {} (no t0)", strip_msg(&p)));
                    }
                    Ok(Err(w)) => {
                        let kind = w.split('(').next().unwrap_or("").to_string();
                        out.tag(format!("gen:discarded ({kind})"));
                        // The generated property lists are well-formed: only semantic warnings can
                        // be legitimate (loops, seven-bit safety, table too long).
                        let legit = ["CycleInLigKernProgram", "NotReallySevenBitSafe", "CycleInNextLargerProgram"];
                        // "table too long" is legitimate only when the steps plus the *distinct* kern values
                        // really exceed what a .tfm can hold (pl/mod.rs MAX_LIG_KERN_WORDS = 31 129, 32 510 steps)
                        let too_big_ok = kind == "LigTableIsTooBig" && {
                            let f = gen_font(&sh);
                            let steps = f.lig.iter().filter(|i| matches!(i, LItem::Lig(..) | LItem::Krn(..))).count();
                            let kerns: BTreeSet<i32> = f.lig.iter().filter_map(|i| if let LItem::Krn(_, k) = i { Some(*k) } else { None }).collect();
                            steps + kerns.len() > 31_129 || steps >= 32_510
                        };
                        if sh.odd == 0 && !legit.contains(&kind.as_str()) && !too_big_ok {
                            out.fail(
                                Kind::ImplVsSpec,
                                "source",
                                format!("pl_to_tfm warns on a well-formed generated property list: {kind}"),
                                format!("warning: {w}"),
                            );
                        }
                    }
                    Ok(Ok(t0)) => {
                        if sh.pad + sh.chains * sh.len > 255 {
                            out.tag("gen:may-exceed-255-instr");
                        }
                        // S on the source side: the numeric header fields the property list states
                        // (CHECKSUM, HEADER words, FACE; octal, hexadecimal, F codes) are the bytes of t0.
                        if sh.odd == 0 && sh.lhcut == 0 {
                            let f = gen_font(&sh);
                            let (xc, xe, xf) = expected_header(&f);
                            if let Some(v) = raw_view(&t0) {
                                if !f.nums.is_empty() {
                                    out.tag("source:header-numbers");
                                }
                                if let (Some((scheme, family)), "gen", true) = (pl_strings(&f), cmd, v.lh >= 18) {
                                    out.tag("source:header-strings");
                                    if scheme.contains("  ") || family.contains("  ") {
                                        out.tag("source:string-with-blank-run");
                                    }
                                    let bcpl = |off: usize| -> Vec<u8> {
                                        let n = t0[24 + off] as usize;
                                        t0[24 + off + 1..24 + off + 1 + n].to_vec()
                                    };
                                    for (name, want, got) in [("CODINGSCHEME", scheme.as_bytes().to_vec(), bcpl(8)), ("FAMILY", family.as_bytes().to_vec(), bcpl(48))] {
                                        if want != got {
                                            out.fail(
                                                Kind::ImplVsSpec,
                                                "source",
                                                format!("header string of the property list is not in t0: {name}"),
                                                format!("property list {:?}, t0 {:?}", String::from_utf8_lossy(&want), String::from_utf8_lossy(&got)),
                                            );
                                        }
                                    }
                                }
                                if f.nums.iter().any(|n| matches!(n, HNum::Header(_, v, _) | HNum::Checksum(v, _) if *v >= 0xFFFF_FFF0)) {
                                    out.tag("source:u32>=FFFFFFF0");
                                }
                                if let Some(c) = xc {
                                    if v.checksum != c {
                                        out.fail(Kind::ImplVsSpec, "source", "header number of the property list is not in t0: CHECKSUM", format!("property list {c:#x}, t0 {:#x}", v.checksum));
                                    }
                                }
                                if v.extra != xe {
                                    let i = (0..xe.len().max(v.extra.len())).find(|i| xe.get(*i) != v.extra.get(*i)).unwrap_or(0);
                                    out.fail(
                                        Kind::ImplVsSpec,
                                        "source",
                                        "header number of the property list is not in t0: HEADER word",
                                        format!("HEADER D {}: property list {:?}, t0 {:?} (lengths {} / {})", 18 + i, xe.get(i), v.extra.get(i), xe.len(), v.extra.len()),
                                    );
                                }
                                if let (Some(b), 0) = (xf, sh.fbyte) {
                                    if v.face != Some(b) {
                                        out.fail(Kind::ImplVsSpec, "source", "header number of the property list is not in t0: FACE", format!("property list {b}, t0 {:?}", v.face));
                                    }
                                }
                            }
                        }
                        // S on the source side: the characters the property list states (codes written as
                        // O/D/H/C, dimensions as R/D reals) are the characters of t0, with the stated
                        // dimensions when the tables are within their lossless limits, and the stated NEXTLARGER.
                        if sh.odd == 0 && cmd == "gen" {
                            let f = gen_font(&sh);
                            if let Some(v) = raw_view(&t0) {
                                let want: BTreeMap<u8, &GChar> = f.chars.iter().map(|c| (c.code, c)).collect();
                                let got: Vec<u8> = v.chars.iter().map(|c| c.0).collect();
                                let want_codes: Vec<u8> = want.keys().copied().collect();
                                if f.form_seed != 0 {
                                    out.tag("source:mixed-number-forms");
                                }
                                if got != want_codes {
                                    let d = (0..=255u8).find(|c| got.contains(c) != want_codes.contains(c));
                                    out.fail(Kind::ImplVsSpec, "source", "the characters of t0 are not the characters of the property list", format!("first difference at code {d:?}: in property list {}, in t0 {}", d.map(|c| want_codes.contains(&c)).unwrap_or(false), d.map(|c| got.contains(&c)).unwrap_or(false)));
                                } else {
                                    let lossless = [sh.nw <= 255, sh.nh <= 15, sh.nd <= 15, sh.ni <= 63];
                                    'chars: for (code, dims, kind, payload) in &v.chars {
                                        let g = want[code];
                                        for (k, (have, stated)) in dims.iter().zip([g.wd, g.ht, g.dp, g.ic]).enumerate() {
                                            if lossless[k] && *have != stated {
                                                out.fail(
                                                    Kind::ImplVsSpec,
                                                    "source",
                                                    format!("a dimension of the property list is not in t0: {}", ["CHARWD", "CHARHT", "CHARDP", "CHARIC"][k]),
                                                    format!("char {code}: property list {stated}, t0 {have}"),
                                                );
                                                break 'chars;
                                            }
                                        }
                                        if let GTag::Next(n) = g.tag {
                                            if *kind != 2 || payload != &vec![n] {
                                                out.fail(Kind::ImplVsSpec, "source", "NEXTLARGER of the property list is not in t0", format!("char {code}: property list {n}, t0 tag {kind} {payload:?}"));
                                                break 'chars;
                                            }
                                        }
                                    }
                                }
                            }
                        }
                        // S on the source side: every VARCHAR the property list states is the recipe
                        // t0 holds for that character, slot by slot.
                        if sh.odd == 0 {
                            let f = gen_font(&sh);
                            let n_var = f.chars.iter().filter(|c| matches!(c.tag, GTag::Var(..))).count();
                            if n_var > 0 {
                                if let Ok(Ok(d)) = caught(|| decode(&t0)) {
                                    let mut distinct: BTreeSet<(Option<u8>, Option<u8>, Option<u8>, u8)> = BTreeSet::new();
                                    let mut same_pieces_other_slots = false;
                                    let mut pieces_seen: Vec<(Vec<u8>, (Option<u8>, Option<u8>, Option<u8>, u8))> = vec![];
                                    for c in &f.chars {
                                        if let GTag::Var(t, m, b, rp) = &c.tag {
                                            let want = tfm::ExtensibleRecipe { top: t.map(Char), middle: m.map(Char), bottom: b.map(Char), rep: Char(*rp) };
                                            let got = d.tags.get(&c.code);
                                            if got != Some(&TagView::Ext(Some(want.clone()))) {
                                                out.fail(
                                                    Kind::ImplVsSpec,
                                                    "source",
                                                    "pl_to_tfm: the VARCHAR recipe of a character is not the one in the property list",
                                                    format!("char {}: property list {want:?}, t0 {got:?}", c.code),
                                                );
                                                break;
                                            }
                                            let key = (*t, *m, *b, *rp);
                                            let pcs: Vec<u8> = [*t, *m, *b, Some(*rp)].into_iter().flatten().collect();
                                            if pieces_seen.iter().any(|(p, k)| *p == pcs && *k != key) {
                                                same_pieces_other_slots = true;
                                            }
                                            pieces_seen.push((pcs, key));
                                            distinct.insert(key);
                                        }
                                    }
                                    if distinct.len() < n_var {
                                        out.tag("ext:identical-recipes");
                                    }
                                    if same_pieces_other_slots {
                                        out.tag("ext:same-pieces-different-slots");
                                    }
                                }
                            }
                        }
                        self.round_trip(&t0, drv, &mut out);
                    }
                }
            }
            "redir" => {
                // A .tfm in which each of the first n characters has its own redirect word:
                // words 0..n-1 redirect to n..2n-1, one kern step each. Built with the real
                // `tfm::File` and serialiser. `redir <n> <rb|-1>`.
                out.tag("src:redir");
                let w = parse_i64s(rest);
                let (n, rb) = (w[0].clamp(0, 256) as usize, w[1]);
                let mut pl = String::new();
                for c in 0..n.max(1) {
                    pl.push_str(&format!("(CHARACTER O {:o} (CHARWD R 1.0))\n", c));
                }
                let t0 = caught(|| {
                    let (plf, _) = tfm::pl::File::from_pl_source_code(&pl);
                    let mut file: tfm::File = plf.into();
                    let rbc = if rb < 0 { None } else { Some(Char(rb as u8)) };
                    // n redirect words, a left-boundary chain of L steps (so that every character's
                    // entry point needs a redirect again after the round trip), one step per
                    // character, the left-boundary word.
                    let l = if n == 0 { 0 } else { 257usize.saturating_sub(n).max(1) };
                    let mut ins = vec![];
                    for c in 0..n {
                        ins.push(Instruction { next_instruction: None, right_char: rbc.unwrap_or(Char(0)), operation: Operation::EntrypointRedirect((n + l + c) as u16, true) });
                    }
                    for k in 0..l {
                        ins.push(Instruction { next_instruction: if k + 1 < l { Some(0) } else { None }, right_char: Char((k % n.max(1)) as u8), operation: Operation::KernAtIndex(0) });
                    }
                    for c in 0..n {
                        ins.push(Instruction { next_instruction: None, right_char: Char(((c + 1) % n.max(1)) as u8), operation: Operation::KernAtIndex(0) });
                    }
                    if n == 0 && rbc.is_some() {
                        ins.push(Instruction { next_instruction: None, right_char: rbc.unwrap(), operation: Operation::EntrypointRedirect(0, true) });
                    }
                    let lbe = if n > 0 {
                        ins.push(Instruction { next_instruction: None, right_char: Char(0), operation: Operation::EntrypointRedirect(n as u16, false) });
                        Some(n as u16)
                    } else {
                        None
                    };
                    file.lig_kern_program = Program { instructions: ins, left_boundary_char_entrypoint: lbe, right_boundary_char: rbc, passthrough: Default::default() };
                    file.kerns = vec![FixWord(1 << 18)];
                    for c in 0..n {
                        file.char_tags.insert(Char(c as u8), tfm::CharTag::Ligature(c as u8));
                    }
                    file.header.checksum = Some(7);
                    file.serialize()
                });
                match t0 {
                    Err(p) => panic!("cannot build the redir font: {p}"),
                    Ok(t0) => self.round_trip(&t0, drv, &mut out),
                }
            }
            "tprog" | "tbig" => {
                // `tprog <program>`: a .tfm with all 256 characters whose lig/kern table is the given
                // TFM-level program (kern values inline; the real unpack_kerns and serialiser are used)
                // `tbig <n> <kv> <seed>`: the same with a generated program of n kern steps over kv distinct
                // values, entered by three characters (a size dimension no case line could spell out)
                out.tag(format!("src:{cmd}"));
                let w = if cmd == "tbig" { tbig_program(&parse_i64s(rest)) } else { parse_i64s(rest) };
                let (prog, entries, _) = dec_program(&w);
                let t0 = caught(|| {
                    let mut pl = String::new();
                    for c in 0..256 {
                        pl.push_str(&format!("(CHARACTER O {:o} (CHARWD R 1.0))\n", c));
                    }
                    let (plf, _) = tfm::pl::File::from_pl_source_code(&pl);
                    let mut file: tfm::File = plf.into();
                    let mut p = prog.clone();
                    file.kerns = p.unpack_kerns();
                    file.lig_kern_program = p;
                    for (c, e) in &entries {
                        if *e <= 255 {
                            file.char_tags.insert(Char(*c), tfm::CharTag::Ligature(*e as u8));
                        }
                    }
                    file.header.checksum = Some(11);
                    file.serialize()
                });
                match t0 {
                    Err(p) => out.tag(format!("tprog:cannot-build ({})", strip_msg(&p))),
                    Ok(t0) => self.round_trip(&t0, drv, &mut out),
                }
            }
            "norm" => {
                // `norm <program>`: a hand-built pl::File through the real printer and parser
                out.tag("src:norm");
                let w = parse_i64s(rest);
                let (prog, entries, _) = dec_program(&w);
                out.nontrivial = !entries.is_empty() || prog.left_boundary_char_entrypoint.is_some();
                let built = caught(|| {
                    let mut pre = tfm::pl::File::default();
                    pre.lig_kern_program = prog.clone();
                    for (c, e) in &entries {
                        pre.char_tags.insert(Char(*c), tfm::pl::CharTag::Ligature(*e as u16));
                    }
                    let text = format!("{}", pre.display(3, tfm::pl::CharDisplayFormat::Default));
                    let post = tfm::pl::File::from_pl_source_code(&text).0;
                    (pre, post)
                });
                match built {
                    Err(p) => out.fail(Kind::ImplPanic, "norm", format!("panic {}", strip_msg(&p)), format!("printing/parsing a hand-built pl::File panicked: {p}")),
                    Ok((pre, post)) => {
                        self.sig_suffix = String::new();
                        self.norm_streams(&pre, &post, drv, &mut out)
                    }
                }
            }
            "pack" => {
                out.tag("src:pack");
                let w = parse_i64s(rest);
                let (rb, lb, n) = (w[0], w[1], w[2] as usize);
                let mut instructions = vec![];
                for i in 0..n {
                    let next = w[3 + 2 * i];
                    instructions.push(Instruction {
                        next_instruction: if next < 0 { None } else { Some(next as u8) },
                        right_char: Char(w[4 + 2 * i] as u8),
                        operation: Operation::Kern(FixWord(i as i32)),
                    });
                }
                let m = w[3 + 2 * n] as usize;
                let mut entries = BTreeMap::new();
                for k in 0..m {
                    entries.insert(w[4 + 2 * n + 2 * k] as u8, w[5 + 2 * n + 2 * k]);
                }
                let prog = Program {
                    instructions,
                    left_boundary_char_entrypoint: if lb < 0 { None } else { Some(lb as u16) },
                    right_boundary_char: if rb < 0 { None } else { Some(Char(rb as u8)) },
                    passthrough: Default::default(),
                };
                out.nontrivial = m > 0;
                self.pack_streams(&prog, &entries, drv, &mut out);
            }
            "dims" => {
                out.tag("src:dims");
                let w = parse_i64s(rest);
                let max = w[0] as u8;
                let vals: Vec<FixWord> = w[2..].iter().map(|x| FixWord(*x as i32)).collect();
                out.nontrivial = !vals.is_empty();
                let m = drv.ask(case);
                match caught(|| tfm::compress(&vals, max)) {
                    Err(pn) => out.fail(Kind::ImplPanic, "dims", format!("panic {}", strip_msg(&pn)), pn),
                    Ok((table, map)) => {
                        let idx: Vec<i64> = vals.iter().map(|v| map.get(v).map(|n| n.get() as i64).unwrap_or(0)).collect();
                        if m == "lossy" {
                            out.tag("dims:lossy (C17)");
                        } else {
                            out.tag("dims:lossless");
                            let i = format!("{} | {}", join(&table.iter().map(|x| x.0 as i64).collect::<Vec<_>>()), join(&idx));
                            if i.trim() != m.trim() {
                                out.fail(Kind::ImplVsModel, "dims", "compress (early exit) differs from model", format!("impl:  {i}\nmodel: {m}"));
                            }
                            // S on the real output: every value is found again under its index,
                            // entry 0 is zero, the rest strictly ascending
                            let ok = vals.iter().zip(&idx).all(|(v, i)| table.get(*i as usize) == Some(v))
                                && table.first() == Some(&FixWord::ZERO)
                                && table[1..].windows(2).all(|p| p[0] < p[1]);
                            if !ok {
                                out.fail(Kind::ImplVsSpec, "dims", "dimension table does not preserve a value", format!("values {:?}\ntable {:?}\nindices {:?}", &w[2..], table, idx));
                            }
                        }
                    }
                }
            }
            "kerns" => {
                out.tag("src:kerns");
                let w = parse_i64s(rest);
                let n = w[0] as usize;
                let mut instructions = vec![];
                for i in 0..n {
                    let (k, a) = (w[1 + 2 * i], w[2 + 2 * i]);
                    instructions.push(Instruction {
                        next_instruction: Some(0),
                        right_char: Char(i as u8),
                        operation: if k == 0 {
                            Operation::Kern(FixWord(a as i32))
                        } else {
                            Operation::Ligature {
                                char_to_insert: Char(a as u8),
                                post_lig_operation: PostLigOperation::RetainNeitherMoveToInserted,
                                post_lig_tag_invalid: false,
                            }
                        },
                    });
                }
                let prog = Program { instructions, left_boundary_char_entrypoint: None, right_boundary_char: None, passthrough: Default::default() };
                out.nontrivial = prog.instructions.iter().any(|i| matches!(i.operation, Operation::Kern(_)));
                let mut p = prog.clone();
                match caught(|| {
                    let k = p.unpack_kerns();
                    let mut q = p.clone();
                    q.pack_kerns(&k);
                    (p, k, q)
                }) {
                    Err(pn) => out.fail(Kind::ImplPanic, "kerns", format!("panic {}", strip_msg(&pn)), pn),
                    Ok((p, k, q)) => {
                        let none = BTreeMap::new();
                        let i = join(&enc_program(&p, &none, &k));
                        let m = drv.ask(&format!("kerns {}", join(&enc_program(&prog, &none, &[]))));
                        if i != m {
                            out.fail(Kind::ImplVsModel, "kerns", "unpack_kerns differs from model", format!("impl:  {i}\nmodel: {m}"));
                        }
                        // S: pack_kerns undoes unpack_kerns (evaluated on the real output)
                        if q != prog {
                            out.fail(Kind::ImplVsSpec, "kerns", "pack_kerns(unpack_kerns(p)) != p", format!("in: {:?}\nout: {:?}", prog.instructions, q.instructions));
                        }
                        out.tag(format!("kerns:distinct-{}", bucket(k.len(), 6)));
                    }
                }
            }
            _ => panic!("bad case {case}"),
        }
        // A failure is attributed to a known defect class (suffix in its signature) only when the
        // case has the recorded shape, the model of the current code reproduces the lig/kern
        // sub-files of t1 and t2 exactly, and the failure is about the lig/kern program.
        if !self.sig_suffix.is_empty() && self.explained && matches!(cmd, "tfm" | "pl" | "gen" | "raw" | "redir" | "hex" | "tprog") {
            for f in out.failures.iter_mut() {
                let about_ligkern = matches!(f.stream.as_str(), "ligkern" | "ligkern-raw" | "ligkern-rule" | "norm-rule" | "seven-bit")
                    || (f.stream == "trip2" && (f.signature.contains("Ligature") || f.signature.contains("ligature") || f.signature.contains("kern")))
                    || (f.stream == "idempotent" && ["lig_kern", "char_info", "length", "kerns", "sizes"].iter().any(|x| f.signature.ends_with(x)))
                    || (f.stream == "same-font" && (f.signature == "boundary char differs" || f.signature.starts_with("tags differ: lig") || f.signature.starts_with("tags differ: none->lig")))
                    || (f.stream == "same-font-raw" && f.signature.starts_with("raw characters differ: tag 1") || f.signature.starts_with("raw characters differ: tag 0 -> 1"));
                if f.kind == Kind::ImplVsSpec && about_ligkern && !f.signature.contains(self.sig_suffix.trim()) {
                    f.signature.push_str(&self.sig_suffix);
                }
            }
        }
        self.sig_suffix = String::new();
        out
    }

    fn shrink(&self, case: &str) -> Vec<String> {
        let (cmd, rest) = case.split_once(' ').unwrap_or((case, ""));
        let mut c = vec![];
        match cmd {
            "gen" | "raw" => {
                let sh = Shape::parse(rest);
                // by shape: each numeric parameter to 0, halved, decremented
                macro_rules! field {
                    ($f:ident) => {
                        for nv in [0, sh.$f / 2, sh.$f.saturating_sub(1)] {
                            if nv < sh.$f {
                                let mut s = sh.clone();
                                s.$f = nv;
                                c.push(s.show(cmd));
                            }
                        }
                    };
                }
                field!(pad);
                field!(chains);
                field!(nc);
                field!(nl);
                field!(nv);
                field!(np);
                field!(hdr);
                field!(odd);
                field!(vx);
                field!(ss);
                field!(kv);
                field!(face);
                field!(fbyte);
                field!(hx);
                field!(lhcut);
                field!(nh);
                field!(nd);
                field!(ni);
                field!(nw);
                field!(len);
                field!(labels);
                field!(bc);
                field!(lb);
                field!(lig);
                field!(skip);
                // structurally: remove single characters / LIGTABLE items of the generated font
                let f = gen_font(&sh);
                let nchars = f.chars.len() as u32;
                let nlig = f.lig.len() as u32;
                if nchars <= 40 {
                    for i in 0..nchars + sh.xc.len() as u32 {
                        if !sh.xc.contains(&i) {
                            let mut s = sh.clone();
                            s.xc.push(i);
                            c.push(s.show(cmd));
                        }
                    }
                }
                if nlig <= 60 {
                    for i in 0..nlig + sh.xl.len() as u32 {
                        if !sh.xl.contains(&i) {
                            let mut s = sh.clone();
                            s.xl.push(i);
                            c.push(s.show(cmd));
                        }
                    }
                }
            }
            "pack" => {
                let w = parse_i64s(rest);
                let n = w[2] as usize;
                let m = w[3 + 2 * n] as usize;
                // drop entries (halves, singles)
                let ent: Vec<(i64, i64)> = (0..m).map(|k| (w[4 + 2 * n + 2 * k], w[5 + 2 * n + 2 * k])).collect();
                let mk = |rb: i64, lb: i64, ins: &[i64], ent: &[(i64, i64)]| {
                    let mut o = vec![rb, lb, (ins.len() / 2) as i64];
                    o.extend_from_slice(ins);
                    o.push(ent.len() as i64);
                    for (c, e) in ent {
                        o.extend([*c, *e]);
                    }
                    format!("pack {}", join(&o))
                };
                let ins = &w[3..3 + 2 * n];
                if m > 1 {
                    c.push(mk(w[0], w[1], ins, &ent[..m / 2]));
                    c.push(mk(w[0], w[1], ins, &ent[m / 2..]));
                }
                if m <= 24 {
                    for k in 0..m {
                        let mut e = ent.clone();
                        e.remove(k);
                        c.push(mk(w[0], w[1], ins, &e));
                    }
                }
                if w[0] >= 0 {
                    c.push(mk(-1, w[1], ins, &ent));
                }
                if w[1] >= 0 {
                    c.push(mk(w[0], -1, ins, &ent));
                }
                // drop trailing instructions not referenced
                let maxe = ent.iter().map(|e| e.1).max().unwrap_or(-1).max(w[1]);
                if (maxe + 1) as usize + 1 < n {
                    let keep = (maxe + 2) as usize;
                    let mut i2 = ins[..2 * keep].to_vec();
                    i2[2 * keep - 2] = -1;
                    c.push(mk(w[0], w[1], &i2, &ent));
                }
                // all skips to stop
                if ins.chunks(2).any(|x| x[0] > 0) {
                    let i2: Vec<i64> = ins.chunks(2).flat_map(|x| [if x[0] > 0 { 0 } else { x[0] }, x[1]]).collect();
                    c.push(mk(w[0], w[1], &i2, &ent));
                }
            }
            "sz" => {
                let a = parse_i64s(rest);
                let min: [i64; 11] = [2, 1, 0, 1, 1, 1, 1, 0, 0, 0, 0];
                if a.len() == 11 {
                    if (a[1], a[2]) != (1, 0) {
                        let mut b = a.clone();
                        b[1] = 1;
                        b[2] = 0;
                        c.push(format!("sz {}", join(&b)));
                    }
                    for k in [0usize, 3, 4, 5, 6, 7, 8, 9, 10] {
                        for x in [min[k], a[k] - 1] {
                            if x >= min[k] && x < a[k] {
                                let mut b = a.clone();
                                b[k] = x;
                                c.push(format!("sz {}", join(&b)));
                            }
                        }
                    }
                }
            }
            "tbig" => {
                let a = parse_i64s(rest);
                let (n, kv, seed) = (a.first().copied().unwrap_or(1), a.get(1).copied().unwrap_or(1), a.get(2).copied().unwrap_or(0));
                for m in [n / 2, n - n / 4, n - n / 8, n - n / 16, n - n / 64, n - n / 256] {
                    if m >= 1 && m < n {
                        c.push(format!("tbig {m} {kv} {seed}"));
                    }
                }
                if kv > 1 {
                    c.push(format!("tbig {n} {} {seed}", kv - 1));
                }
            }
            "norm" | "tprog" => {
                let w = parse_i64s(rest);
                let (prog, entries, _) = dec_program(&w);
                let n = prog.instructions.len();
                let mk = |p: &Program, e: &BTreeMap<u8, i64>| format!("{cmd} {}", join(&enc_program(p, e, &[])));
                // drop one label
                for ch in entries.keys() {
                    let mut e = entries.clone();
                    e.remove(ch);
                    c_push(&mut c, mk(&prog, &e));
                }
                // drop one word, renumbering everything that points behind it
                if n <= 60 {
                    for j in 0..n {
                        let mut p = prog.clone();
                        p.instructions.remove(j);
                        for (i, ins) in p.instructions.iter_mut().enumerate() {
                            if i < j {
                                if let Some(sk) = ins.next_instruction {
                                    if i + sk as usize + 1 > j && sk > 0 {
                                        ins.next_instruction = Some(sk - 1);
                                    }
                                }
                            }
                            if let Operation::EntrypointRedirect(t, b) = ins.operation {
                                if t as usize > j {
                                    ins.operation = Operation::EntrypointRedirect(t - 1, b);
                                }
                            }
                        }
                        if let Some(l) = p.left_boundary_char_entrypoint {
                            if l as usize > j {
                                p.left_boundary_char_entrypoint = Some(l - 1);
                            }
                        }
                        let e: BTreeMap<u8, i64> = entries.iter().map(|(c, e)| (*c, if *e as usize > j { *e - 1 } else { *e })).collect();
                        c_push(&mut c, mk(&p, &e));
                    }
                }
                // SKIP n -> SKIP 0
                if prog.instructions.iter().any(|i| matches!(i.next_instruction, Some(k) if k > 0)) {
                    let mut p = prog.clone();
                    for ins in p.instructions.iter_mut() {
                        if matches!(ins.next_instruction, Some(k) if k > 0) {
                            ins.next_instruction = Some(0);
                        }
                    }
                    c_push(&mut c, mk(&p, &entries));
                }
            }
            "redir" => {
                let w = parse_i64s(rest);
                if w[0] > 0 {
                    c.push(format!("redir {} {}", w[0] - 1, w[1]));
                    c.push(format!("redir {} {}", w[0] / 2, w[1]));
                }
                if w[1] >= 0 {
                    c.push(format!("redir {} -1", w[0]));
                }
            }
            "dims" => {
                let w = parse_i64s(rest);
                let n = w[1] as usize;
                for k in 0..n {
                    let mut o = vec![w[0], (n - 1) as i64];
                    for i in 0..n {
                        if i != k {
                            o.push(w[2 + i]);
                        }
                    }
                    c.push(format!("dims {}", join(&o)));
                }
            }
            "kerns" => {
                let w = parse_i64s(rest);
                let n = w[0] as usize;
                for k in 0..n {
                    let mut o = vec![(n - 1) as i64];
                    for i in 0..n {
                        if i != k {
                            o.extend([w[1 + 2 * i], w[2 + 2 * i]]);
                        }
                    }
                    c.push(format!("kerns {}", join(&o)));
                }
            }
            _ => {}
        }
        c
    }
}

fn main() {
    let repo = {
        let mut repo = std::env::var("VERIF_REPO").unwrap_or_else(|_| "/repo".into());
        let mut it = std::env::args().skip(1);
        while let Some(k) = it.next() {
            if k == "--repo" {
                if let Some(v) = it.next() {
                    repo = v;
                }
            }
        }
        repo
    };
    let (corpus_tfm, corpus_pl) = list_corpus(&repo);
    run(C11 { explained: false, pending_raw: None, sig_suffix: String::new(), corpus_tfm, corpus_pl, repo });
}
